(* C13 — what "means the same up to rounding" is, and the checker that validates every output of the
   (untrusted) sympy-based simplifier.

   Numeric expressions over binary + - * / with exact rational constants (the decimal constants of the
   PDDL text) and named fluents; conditions compare two expressions.  Normal forms: multivariate
   polynomials as lists of (coefficient, sorted monomial) with insertion; rational functions as a pair
   numerator/denominator.  [check_pre] decides, for input conditions and the printed output read back
   as conditions, that the output is a rounding (each coefficient within half a unit of the last printed
   decimal) of conditions exactly equivalent to the input.  Soundness: Proofs/C13_Poly.v. *)
From Coq Require Import List String Ascii Bool ZArith QArith Qabs.
From Verif Require Import Base.Str Base.Sexp.
Import ListNotations.
Open Scope string_scope.
Open Scope list_scope.
Open Scope Q_scope.

(* ------------------------------------------------------------------ syntax and semantics *)
Inductive binop := OAdd | OSub | OMul | ODiv.
Inductive expr :=
| ENum (q : Q)
| EVar (v : string)              (* a fluent, named by its canonical text "( name arg ... )" *)
| EBin (o : binop) (a b : expr).

Inductive cmp := CLe | CGe | CLt | CGt | CEq.
Record cond := { c_op : cmp; c_l : expr; c_r : expr }.

Definition valuation := string -> Q.

Definition bin_sem (o : binop) (x y : Q) : Q :=
  match o with OAdd => x + y | OSub => x - y | OMul => x * y | ODiv => x / y end.

Fixpoint eval (rho : valuation) (e : expr) : Q :=
  match e with
  | ENum q => q
  | EVar v => rho v
  | EBin o a b => bin_sem o (eval rho a) (eval rho b)
  end.

(* no divisor evaluates to zero *)
Fixpoint defined (rho : valuation) (e : expr) : Prop :=
  match e with
  | ENum _ | EVar _ => True
  | EBin ODiv a b => defined rho a /\ defined rho b /\ ~ eval rho b == 0
  | EBin _ a b => defined rho a /\ defined rho b
  end.

Definition cmp_holds (o : cmp) (x y : Q) : Prop :=
  match o with
  | CLe => x <= y | CGe => y <= x | CLt => x < y | CGt => y < x | CEq => x == y
  end.

Definition sat (rho : valuation) (c : cond) : Prop :=
  cmp_holds (c_op c) (eval rho (c_l c)) (eval rho (c_r c)).
Definition cdefined (rho : valuation) (c : cond) : Prop := defined rho (c_l c) /\ defined rho (c_r c).
Definition sat_all (rho : valuation) (cs : list cond) : Prop := Forall (sat rho) cs.
Definition defined_all (rho : valuation) (cs : list cond) : Prop := Forall (cdefined rho) cs.

(* ------------------------------------------------------------------ monomials and polynomials *)
Definition mono := list string.          (* fluents with repetition, kept sorted *)
Definition poly := list (Q * mono).      (* kept sorted by monomial, one entry per monomial *)

Fixpoint meval (rho : valuation) (m : mono) : Q :=
  match m with [] => 1 | v :: r => rho v * meval rho r end.
Fixpoint peval (rho : valuation) (p : poly) : Q :=
  match p with [] => 0 | (c, m) :: r => c * meval rho m + peval rho r end.

Fixpoint minsert (v : string) (m : mono) : mono :=
  match m with
  | [] => [v]
  | w :: r => if String.leb v w then v :: w :: r else w :: minsert v r
  end.
Definition mmul (a b : mono) : mono := fold_right minsert b a.

Fixpoint mono_eqb (a b : mono) : bool :=
  match a, b with
  | [], [] => true
  | x :: xs, y :: ys => String.eqb x y && mono_eqb xs ys
  | _, _ => false
  end.
(* graded lexicographic order: only used to keep lists canonical, no theorem depends on it *)
Fixpoint mono_lex (a b : mono) : bool :=
  match a, b with
  | [], [] => false
  | [], _ => true
  | _, [] => false
  | x :: xs, y :: ys => if String.eqb x y then mono_lex xs ys else String.ltb x y
  end.
Definition mono_ltb (a b : mono) : bool :=
  let la := List.length a in let lb := List.length b in
  if Nat.ltb lb la then true else if Nat.ltb la lb then false else mono_lex a b.

Fixpoint pinsert (c : Q) (m : mono) (p : poly) : poly :=
  match p with
  | [] => [(c, m)]
  | (c', m') :: r =>
      if mono_eqb m m' then (Qred (c + c'), m') :: r
      else if mono_ltb m m' then (c, m) :: (c', m') :: r
      else (c', m') :: pinsert c m r
  end.
Definition padd (p q : poly) : poly := fold_right (fun t acc => pinsert (fst t) (snd t) acc) q p.
Definition pscale (k : Q) (p : poly) : poly := map (fun t => (Qred (k * fst t), snd t)) p.
Definition pneg (p : poly) : poly := pscale (-1) p.
Definition psub (p q : poly) : poly := padd p (pneg q).
Definition pmul1 (c : Q) (m : mono) (q : poly) : poly := map (fun t => (Qred (c * fst t), mmul m (snd t))) q.
Definition pmul (p q : poly) : poly := fold_right (fun t acc => padd (pmul1 (fst t) (snd t) q) acc) [] p.
Definition pclean (p : poly) : poly := filter (fun t => negb (Qeq_bool (fst t) 0)) p.
Definition is_zero (p : poly) : bool := forallb (fun t => Qeq_bool (fst t) 0) p.
Definition pconst (k : Q) : poly := [(k, [])].
Definition pone : poly := pconst 1.

(* the coefficient of a monomial: sum over the entries carrying it *)
Fixpoint coef (m : mono) (p : poly) : Q :=
  match p with
  | [] => 0
  | (c, m') :: r => if mono_eqb m m' then c + coef m r else coef m r
  end.

(* coefficientwise closeness: THE meaning of "rounded" for polynomials in normal form *)
Definition poly_close (tol : Q) (p q : poly) : Prop := forall m, Qabs (coef m p - coef m q) <= tol.

Definition close_b (tol : Q) (p q : poly) : bool :=
  Qle_bool 0 tol &&
  forallb (fun m => Qle_bool (Qabs (coef m p - coef m q)) tol) (map snd p ++ map snd q).

(* half a unit of the last of d decimals *)
Definition tol_of (d : nat) : Q := if Nat.eqb d 0 then 1 # 2 else 1 # (2 * Pos.pow 10 (Pos.of_nat d)).

(* ------------------------------------------------------------------ normalisers *)
Definition as_const (p : poly) : option Q :=
  match pclean p with
  | [] => Some 0
  | [(k, [])] => Some k
  | _ => None
  end.

(* polynomial normal form; division only by non-zero constants *)
Fixpoint pnorm (e : expr) : option poly :=
  match e with
  | ENum q => Some (pconst q)
  | EVar v => Some [(1, [v])]
  | EBin o a b =>
      match pnorm a, pnorm b with
      | Some p, Some q =>
          match o with
          | OAdd => Some (padd p q)
          | OSub => Some (psub p q)
          | OMul => Some (pmul p q)
          | ODiv => match as_const q with
                    | Some k => if Qeq_bool k 0 then None else Some (pscale (/ k) p)
                    | None => None
                    end
          end
      | _, _ => None
      end
  end.

(* rational-function normal form (numerator, denominator), by cross multiplication *)
Fixpoint rnorm (e : expr) : poly * poly :=
  match e with
  | ENum q => (pconst q, pone)
  | EVar v => ([(1, [v])], pone)
  | EBin o a b =>
      let (n1, d1) := rnorm a in
      let (n2, d2) := rnorm b in
      match o with
      | OAdd => (padd (pmul n1 d2) (pmul n2 d1), pmul d1 d2)
      | OSub => (psub (pmul n1 d2) (pmul n2 d1), pmul d1 d2)
      | OMul => (pmul n1 n2, pmul d1 d2)
      | ODiv => (pmul n1 d2, pmul d1 n2)
      end
  end.

(* ------------------------------------------------------------------ substitution by linear equalities *)
Fixpoint esubst (v : string) (r : expr) (e : expr) : expr :=
  match e with
  | ENum q => ENum q
  | EVar w => if String.eqb v w then r else EVar w
  | EBin o a b => EBin o (esubst v r a) (esubst v r b)
  end.
Definition csubst (s : string * expr) (c : cond) : cond :=
  {| c_op := c_op c; c_l := esubst (fst s) (snd s) (c_l c); c_r := esubst (fst s) (snd s) (c_r c) |}.

Fixpoint expr_of_mono (m : mono) : expr :=
  match m with [] => ENum 1 | v :: r => EBin OMul (EVar v) (expr_of_mono r) end.
Fixpoint expr_of_poly (p : poly) : expr :=
  match p with [] => ENum 0 | (c, m) :: r => EBin OAdd (EBin OMul (ENum c) (expr_of_mono m)) (expr_of_poly r) end.

(* an equality l = r with polynomial sides, solved for a fluent v that occurs with a non-zero constant
   coefficient a:  v := -(rest)/a  where l - r = a*v + rest *)
Definition solve_for (d : poly) (v : string) : option (string * expr) :=
  let a := coef [v] d in
  if Qeq_bool a 0 then None
  else Some (v, expr_of_poly (pscale (- / a) (filter (fun t => negb (mono_eqb [v] (snd t))) d))).

Definition linear_vars (d : poly) : list string :=
  flat_map (fun t => match snd t with [v] => [v] | _ => [] end) d.

Definition somes {A} (l : list (option A)) : list A :=
  flat_map (fun o => match o with Some a => [a] | None => [] end) l.

Definition substs_of_eq (c : cond) : list (string * expr) :=
  match c_op c, pnorm (c_l c), pnorm (c_r c) with
  | CEq, Some l, Some r => let d := pclean (psub l r) in somes (map (solve_for d) (linear_vars d))
  | _, _, _ => []
  end.

Definition substs1 (eqs : list cond) : list (string * expr) := flat_map substs_of_eq eqs.

(* after the substitution s: what the equalities - with s applied to them - can be solved for (two equalities that fix the
   same fluent, f = 0.9 g and f = - g, determine a second one, g = 0; sympy's subs() may use either one at each occurrence) *)
Definition derived_substs (eqs : list cond) (s : string * expr) : list (string * expr) :=
  flat_map (fun e => substs_of_eq (csubst s e)) eqs.

(* substitution sequences tried: none, one, two (the second solved from the equalities as given or as rewritten by the first) *)
Definition subst_seqs (eqs : list cond) : list (list (string * expr)) :=
  let s1 := substs1 eqs in
  [] :: map (fun s => [s]) s1 ++ flat_map (fun s => map (fun t => [s; t]) (s1 ++ derived_substs eqs s)) s1.

Definition apply_seq (sq : list (string * expr)) (c : cond) : cond := fold_left (fun c s => csubst s c) sq c.

(* ------------------------------------------------------------------ structural rounding *)
(* "o is h with every constant rounded": same tree, every constant of o within tol of the constant of h at the same
   place; a term of a sum whose constant factor is within tol of zero may be missing in o (the printer drops it),
   and an expression that vanishes altogether is printed as 0.  This is the meaning of "rounded" for output that is
   not a sum of monomials (sympy's simplify() may return products of sums). *)
Fixpoint vanishing (tol : Q) (h : expr) : bool :=
  match h with
  | ENum c => Qle_bool (Qabs c) tol
  | EVar _ => false
  | EBin OMul a b => vanishing tol a || vanishing tol b
  | EBin OAdd a b => vanishing tol a && vanishing tol b
  | EBin _ _ _ => false
  end.

Inductive eround (tol : Q) : expr -> expr -> Prop :=
| ER_num p q : Qabs (p - q) <= tol -> eround tol (ENum p) (ENum q)
| ER_var v : eround tol (EVar v) (EVar v)
| ER_bin o a b a' b' : eround tol a a' -> eround tol b b' -> eround tol (EBin o a b) (EBin o a' b')
| ER_dropl z a o : vanishing tol z = true -> eround tol a o -> eround tol (EBin OAdd z a) o
| ER_dropr z a o : vanishing tol z = true -> eround tol a o -> eround tol (EBin OAdd a z) o
| ER_zero z q : vanishing tol z = true -> q == 0 -> eround tol z (ENum q).

Definition cround (tol : Q) (h o : cond) : Prop :=
  c_op h = c_op o /\ eround tol (c_l h) (c_l o) /\ eround tol (c_r h) (c_r o).

Definition binop_eqb (a b : binop) : bool :=
  match a, b with OAdd, OAdd | OSub, OSub | OMul, OMul | ODiv, ODiv => true | _, _ => false end.

(* ([if] instead of && / ||: vm_compute is call-by-value and would evaluate every alternative) *)
Fixpoint eround_b (tol : Q) (h o : expr) : bool :=
  if match h, o with
     | ENum p, ENum q => Qle_bool (Qabs (p - q)) tol
     | EVar v, EVar w => String.eqb v w
     | EBin op a b, EBin op' a' b' =>
         if binop_eqb op op' then if eround_b tol a a' then eround_b tol b b' else false else false
     | _, _ => false
     end then true
  else if match h with
          | EBin OAdd a b =>
              if (if vanishing tol a then eround_b tol b o else false) then true
              else if vanishing tol b then eround_b tol a o else false
          | _ => false
          end then true
  else if vanishing tol h then match o with ENum q => Qeq_bool q 0 | _ => false end else false.

Definition cmp_eqb (a b : cmp) : bool :=
  match a, b with CLe, CLe | CGe, CGe | CLt, CLt | CGt, CGt | CEq, CEq => true | _, _ => false end.

Definition cround_b (tol : Q) (h o : cond) : bool :=
  if cmp_eqb (c_op h) (c_op o) then if eround_b tol (c_l h) (c_l o) then eround_b tol (c_r h) (c_r o) else false else false.

(* ------------------------------------------------------------------ "mid" conditions and rounding *)
(* what an output condition is a rounding of: a condition of which the output is a structural rounding (in
   particular the output condition itself), or a polynomial condition whose coefficients are close to the
   coefficients of the printed one *)
Inductive mcond :=
| MExact (c : cond)
| MPoly (o : cmp) (l r : poly).

Definition msat (rho : valuation) (m : mcond) : Prop :=
  match m with
  | MExact c => sat rho c
  | MPoly o l r => cmp_holds o (peval rho l) (peval rho r)
  end.

(* no divisor of the mid condition vanishes (polynomial conditions have none) *)
Definition mdefined (rho : valuation) (m : mcond) : Prop :=
  match m with
  | MExact c => cdefined rho c
  | MPoly _ _ _ => True
  end.

(* o is m with every constant / coefficient rounded to d decimals (error at most half a unit of the last decimal) *)
Definition rounded (d : nat) (m : mcond) (o : cond) : Prop :=
  match m with
  | MExact c => cround (tol_of d) c o
  | MPoly op l r =>
      op = c_op o /\
      exists lo ro, pnorm (c_l o) = Some lo /\ pnorm (c_r o) = Some ro /\
                    poly_close (tol_of d) l lo /\ poly_close (tol_of d) r ro
  end.

(* ------------------------------------------------------------------ matching one input condition with one output *)
(* (written with [match] so that evaluation stops at the first success: vm_compute is call-by-value) *)
Fixpoint first_some {A B} (f : A -> option B) (l : list A) : option B :=
  match l with
  | [] => None
  | a :: r => match f a with Some b => Some b | None => first_some f r end
  end.

Definition mono_in (m : mono) (p : poly) : bool := existsb (fun t => mono_eqb m (snd t)) p.

(* scale factors tried: 1 and the ratios of matching coefficients *)
Definition ratios (dout din : poly) : list Q :=
  1 :: somes (map (fun t => let c := coef (snd t) din in
                            if Qeq_bool c 0 || Qeq_bool (fst t) 0 then None else Some (Qred (fst t / c))) dout).

Definition scale_ok (op : cmp) (k : Q) : bool :=
  match op with CEq => negb (Qeq_bool k 0) | _ => negb (Qle_bool k 0) end.

(* approximate (polynomial) matching of input condition c (already substituted) with output o *)
Definition match_poly (d : nat) (c o : cond) : option mcond :=
  if negb (cmp_eqb (c_op c) (c_op o)) then None else
  match pnorm (c_l c), pnorm (c_r c), pnorm (c_l o), pnorm (c_r o) with
  | Some lc, Some rc, Some lo, Some ro =>
      let tol := tol_of d in
      if close_b tol lc lo && close_b tol rc ro then Some (MPoly (c_op c) lc rc)
      else
        let dc := pclean (psub lc rc) in
        let dout := pclean (psub lo ro) in
        first_some (fun k =>
          if scale_ok (c_op c) k then
            let dk := pscale k dc in
            (* left part: the monomials printed on the left; a monomial printed on both sides shares the
               discrepancy evenly; the right part is whatever makes  left - right = k (c.l - c.r)  exact *)
            let lm := map (fun t =>
                        let m := snd t in
                        if mono_in m ro
                        then (Qred (fst t + (coef m dk - (fst t - coef m ro)) / 2), m)
                        else (coef m dk, m)) lo in
            let rm := psub lm dk in
            if close_b tol lm lo && close_b tol rm ro then Some (MPoly (c_op c) lm rm) else None
          else None) (ratios dout dc)
  | _, _, _, _ => None
  end.

Definition lead (p : poly) : option Q := match pclean p with t :: _ => Some (fst t) | [] => None end.

(* exact matching (rational functions allowed): o.l - o.r = k (c.l - c.r) as rational functions, or, for
   equalities, proportional numerators *)
Definition diff (c : cond) : expr := EBin OSub (c_l c) (c_r c).

Definition match_exact (c o : cond) : bool :=
  if cmp_eqb (c_op c) (c_op o) then
    let (nc, dc) := rnorm (diff c) in
    let (no, dn) := rnorm (diff o) in
    let a := pmul no dc in
    let b := pmul nc dn in
    let ks := 1 :: match lead a, lead b with Some x, Some y => [Qred (x / y)] | _, _ => [] end in
    if existsb (fun k => if scale_ok (c_op c) k then is_zero (pclean (psub a (pscale k b))) else false) ks then true
    else match c_op c with
         | CEq => let ks' := 1 :: match lead no, lead nc with Some x, Some y => [Qred (x / y)] | _, _ => [] end in
                  existsb (fun k => if Qeq_bool k 0 then false else is_zero (pclean (psub no (pscale k nc)))) ks'
         | _ => false
         end
  else false.

(* c is an input condition, eqs the equalities that may be used, o an output condition, hs candidate "hints":
   conditions of which o might be a structural rounding (untrusted, supplied by the harness; o itself is always
   tried) *)
Definition match_cond (d : nat) (eqs hs : list cond) (c o : cond) : option mcond :=
  if negb (cmp_eqb (c_op c) (c_op o)) then None else       (* nothing below can match: saves the work *)
  first_some (fun sq =>
    match match_poly d (apply_seq sq c) o with
    | Some m => Some m
    | None =>
        first_some (fun h => if cround_b (tol_of d) h o
                             then if match_exact (apply_seq sq c) (apply_seq sq h) then Some (MExact h) else None
                             else None) (o :: hs)
    end) (subst_seqs eqs).

(* an equality that holds for every valuation may be omitted *)
Definition trivial (c : cond) : bool :=
  match c_op c with
  | CEq => is_zero (pclean (fst (rnorm (diff c))))
  | _ => false
  end.

Definition cmp_b (o : cmp) (x y : Q) : bool :=
  match o with
  | CLe => Qle_bool x y | CGe => Qle_bool y x
  | CLt => negb (Qle_bool y x) | CGt => negb (Qle_bool x y) | CEq => Qeq_bool x y
  end.

(* wherever the condition is defined, the difference of its sides is the constant k (as rational functions:
   numerator = k * denominator) and the comparison of k with 0 holds *)
Definition const_holds (c : cond) : bool :=
  let (n, dn) := rnorm (diff c) in
  let k := match lead n, lead dn with Some x, Some y => Qred (x / y) | _, _ => 0 end in
  if is_zero (pclean (psub n (pscale k dn))) then cmp_b (c_op c) k 0 else false.

(* a condition that may be omitted because the equalities [eqs] imply it: after eliminating fluents by them it is a
   comparison of constants that holds *)
Definition implied (eqs : list cond) (c : cond) : bool :=
  existsb (fun sq => const_holds (apply_seq sq c)) (subst_seqs eqs).

(* all the ways an input condition is printed: one "mid" per output condition that matches it *)
Definition cover (d : nat) (eqs hs : list cond) (out : list cond) (c : cond) : list mcond :=
  somes (map (match_cond d eqs hs c) out).

Definition is_eq (c : cond) : bool := cmp_eqb (c_op c) CEq.

(* structural equality of expressions with exact constants *)
Fixpoint expr_eqb (a b : expr) : bool :=
  match a, b with
  | ENum p, ENum q => Z.eqb (Qnum p) (Qnum q) && Pos.eqb (Qden p) (Qden q)
  | EVar v, EVar w => String.eqb v w
  | EBin o x y, EBin o' x' y' =>
      match o, o' with OAdd, OAdd | OSub, OSub | OMul, OMul | ODiv, ODiv => true | _, _ => false end
      && expr_eqb x x' && expr_eqb y y'
  | _, _ => false
  end.
Definition cond_eqb (a b : cond) : bool :=
  cmp_eqb (c_op a) (c_op b) && expr_eqb (c_l a) (c_l b) && expr_eqb (c_r a) (c_r b).

(* decidable version of [rounded] *)
Definition rounds_to (d : nat) (m : mcond) (o : cond) : bool :=
  match m with
  | MExact c => cround_b (tol_of d) c o
  | MPoly op l r =>
      cmp_eqb op (c_op o) &&
      match pnorm (c_l o), pnorm (c_r o) with
      | Some lo, Some ro => close_b (tol_of d) l lo && close_b (tol_of d) r ro
      | _, _ => false
      end
  end.

(* The checker for a precondition's set of numeric conditions:
   every input condition is covered by an output condition (inequalities may use the input equalities for
   elimination, equalities may not), or is an identity, or is implied by the input equalities (which are themselves
   covered); every output condition is the rounding of one of the conditions so obtained. *)
Definition check_pre (d : nat) (hs conds out : list cond) : bool :=
  let eqs := filter is_eq conds in
  let use := fun c => if is_eq c then [] else eqs in
  let covers := map (fun c => (c, cover d (use c) hs out c)) conds in     (* computed once *)
  let mids := flat_map snd covers in
  forallb (fun cc => match snd cc with [] => trivial (fst cc) || implied (use (fst cc)) (fst cc) | _ => true end) covers &&
  forallb (fun o => existsb (fun m => rounds_to d m o) mids) out.

(* one inequality under explicitly given assumptions (simplify_inequality's own interface); None of the library
   (the inequality was omitted) is judged by [implied] *)
Definition check_under (d : nat) (assumptions hs : list cond) (c o : cond) : option mcond :=
  match_cond d (filter is_eq assumptions) hs c o.

Definition equiv_b (e h : expr) : bool :=
  let (ne, de) := rnorm e in let (nh, dh) := rnorm h in
  is_zero (pclean (psub (pmul nh de) (pmul ne dh))).

(* a bare expression (simplify_complex_numeric_expression): polynomial and coefficientwise close, or a structural
   rounding of an expression (the output itself or a hint) that is exactly equal to the input as a rational function *)
Definition check_expr (d : nat) (hs : list expr) (e o : expr) : bool :=
  match pnorm e, pnorm o with
  | Some p, Some q => close_b (tol_of d) p q
  | _, _ => false
  end
  || existsb (fun h => if eround_b (tol_of d) h o then equiv_b e h else false) (o :: hs).

(* ------------------------------------------------------------------ reading printed text back *)
(* restricted grammar: number | ( name arg* ) | ( op e e ) with op one of + - * /;
   anything else (n-ary operators, '^', None, exponent notation) is rejected *)
Definition digit_val (c : ascii) : option Z :=
  let n := N_of_ascii c in
  if ((48 <=? n) && (n <=? 57))%N then Some (Z.of_N (n - 48)) else None.

Fixpoint read_digits (t : text) (acc : Z) (n : nat) : option (Z * nat * text) :=
  match t with
  | [] => Some (acc, n, [])
  | c :: r => match digit_val c with
              | Some v => read_digits r (10 * acc + v)%Z (S n)
              | None => Some (acc, n, t)
              end
  end.

(* -?digits(.digits)? , exact *)
Definition read_number (s : string) : option Q :=
  let t := s2t s in
  let (neg, t1) := match t with "-"%char :: r => (true, r) | _ => (false, t) end in
  match read_digits t1 0%Z 0 with
  | Some (ip, S _, rest) =>
      match rest with
      | [] => Some (if neg then inject_Z (- ip) else inject_Z ip)
      | "."%char :: fr =>
          match read_digits fr 0%Z 0 with
          | Some (fp, S k, []) =>
              let den := Pos.pow 10 (Pos.of_nat (S k)) in
              let v := Qred (Qmake (ip * Zpos den + fp) den) in
              Some (if neg then Qopp v else v)
          | _ => None
          end
      | _ => None
      end
  | _ => None
  end.

Definition binop_of (s : string) : option binop :=
  if String.eqb s "+" then Some OAdd else if String.eqb s "-" then Some OSub
  else if String.eqb s "*" then Some OMul else if String.eqb s "/" then Some ODiv else None.

Definition cmp_of (s : string) : option cmp :=
  if String.eqb s "<=" then Some CLe else if String.eqb s ">=" then Some CGe
  else if String.eqb s "<" then Some CLt else if String.eqb s ">" then Some CGt
  else if String.eqb s "=" then Some CEq else None.

Definition atom_text (e : sexp) : option string := match e with Atom s => Some s | SList _ => None end.

Fixpoint all_some {A} (l : list (option A)) : option (list A) :=
  match l with
  | [] => Some []
  | Some a :: r => match all_some r with Some r' => Some (a :: r') | None => None end
  | None :: _ => None
  end.

Definition name_start (s : string) : bool :=
  match s with
  | String c _ => let n := N_of_ascii c in (((97 <=? n) && (n <=? 122)) || ((65 <=? n) && (n <=? 90)) || (n =? 95))%N
  | EmptyString => false
  end.

(* [rd] reads a number token *)
Fixpoint expr_of_sexp_with (rd : string -> option Q) (e : sexp) : option expr :=
  match e with
  | Atom s => match rd s with Some q => Some (ENum q) | None => None end
  | SList (Atom h :: args) =>
      match binop_of h with
      | Some o =>
          match args with
          | [a; b] => match expr_of_sexp_with rd a, expr_of_sexp_with rd b with
                      | Some x, Some y => Some (EBin o x y)
                      | _, _ => None
                      end
          | _ => None
          end
      | None =>
          if name_start h && negb (match cmp_of h with Some _ => true | None => false end) then
            match all_some (map atom_text args) with
            | Some names => Some (EVar (join " " (("(" :: h :: names) ++ [")"])))
            | None => None
            end
          else None
      end
  | SList _ => None
  end.

Definition cond_of_sexp_with (rd : string -> option Q) (e : sexp) : option cond :=
  match e with
  | SList [Atom h; a; b] =>
      match cmp_of h, expr_of_sexp_with rd a, expr_of_sexp_with rd b with
      | Some o, Some x, Some y => Some {| c_op := o; c_l := x; c_r := y |}
      | _, _, _ => None
      end
  | _ => None
  end.

(* the reading of printed output: numbers are -?digits(.digits)? *)
Definition expr_of_sexp : sexp -> option expr := expr_of_sexp_with read_number.
Definition cond_of_sexp : sexp -> option cond := cond_of_sexp_with read_number.

(* evaluation at a point given as an association list (second oracle of the correspondence) *)
Fixpoint lookup (l : list (string * Q)) (v : string) : Q :=
  match l with [] => 0 | (w, q) :: r => if String.eqb v w then q else lookup r v end.

Fixpoint eval_opt (rho : valuation) (e : expr) : option Q :=
  match e with
  | ENum q => Some q
  | EVar v => Some (rho v)
  | EBin o a b =>
      match eval_opt rho a, eval_opt rho b with
      | Some x, Some y =>
          match o with
          | ODiv => if Qeq_bool y 0 then None else Some (Qred (x / y))
          | _ => Some (Qred (bin_sem o x y))
          end
      | _, _ => None
      end
  end.


(* ------------------------------------------------------------------ the same checkers, reporting the path taken *)
(* For the evidence of a run: WHICH part of the checker validated an output - the coefficientwise comparison of polynomial
   normal forms, the structural rounding relation with the output itself as the exactly-equivalent expression, or the
   structural rounding of an (untrusted) hint.  [check_pre_tr] / [check_expr_path] compute the verdict of [check_pre] /
   [check_expr] (C13_traced_pre_same / C13_traced_expr_same) and the evidence at once. *)
Inductive vpath := VPoly | VSelf | VHint.

Definition mid_path (o : cond) (m : mcond) : vpath :=
  match m with
  | MPoly _ _ _ => VPoly
  | MExact c => if cond_eqb c o then VSelf else VHint
  end.

Definition check_pre_tr (d : nat) (hs conds out : list cond) : bool * list mcond :=
  let eqs := filter is_eq conds in
  let use := fun c => if is_eq c then [] else eqs in
  let covers := map (fun c => (c, cover d (use c) hs out c)) conds in
  let mids := flat_map snd covers in
  (forallb (fun cc => match snd cc with [] => trivial (fst cc) || implied (use (fst cc)) (fst cc) | _ => true end) covers &&
   forallb (fun o => existsb (fun m => rounds_to d m o) mids) out, mids).

(* the path by which each output condition was validated: the first mid condition it is a rounding of *)
Definition out_paths (d : nat) (mids : list mcond) (out : list cond) : list (option vpath) :=
  map (fun o => match find (fun m => rounds_to d m o) mids with Some m => Some (mid_path o m) | None => None end) out.

Definition check_expr_path (d : nat) (hs : list expr) (e o : expr) : option vpath :=
  if match pnorm e, pnorm o with
     | Some p, Some q => close_b (tol_of d) p q
     | _, _ => false
     end then Some VPoly
  else if (if eround_b (tol_of d) o o then equiv_b e o else false) then Some VSelf
  else if existsb (fun h => if eround_b (tol_of d) h o then equiv_b e h else false) hs then Some VHint
  else None.

(* ------------------------------------------------------------------ a disjunction of conditions *)
(* The numeric conditions of an (or ...) node: nothing may be eliminated (an equality of a disjunction says nothing about the
   other disjuncts) and nothing may be omitted: every input condition is printed as some output condition and every output
   condition prints some input condition, each pair validated on its own like an inequality without assumptions. *)
Definition covered_by (d : nat) (hs : list cond) (c o : cond) : bool :=
  match check_under d [] hs c o with Some _ => true | None => false end.

Definition check_or (d : nat) (hs conds out : list cond) : bool :=
  forallb (fun c => existsb (fun o => covered_by d hs c o) out) conds &&
  forallb (fun o => existsb (fun c => covered_by d hs c o) conds) out.

Definition or_mids (d : nat) (hs conds out : list cond) : list mcond :=
  flat_map (fun c => somes (map (fun o => check_under d [] hs c o) out)) conds.

Definition or_paths (d : nat) (hs conds out : list cond) : list (option vpath) :=
  map (fun o => first_some (fun c => match check_under d [] hs c o with Some m => Some (mid_path o m) | None => None end) conds) out.
