(* Independent reading of PDDL text (as a token tree) into the spec's formulas, effects and declarations:
   direct structural recursion on the PDDL 2.1 level-2 grammar, written without looking at the library's
   parsers.  [None] = the text is outside the fragment this reading understands. *)
From Coq Require Import List Ascii String Bool Arith PrimFloat.
From Verif Require Import Base.Str Base.Sexp Spec.Pddl.
Import ListNotations.
Open Scope string_scope.
Open Scope list_scope.

Definition numreader := string -> option float.

Fixpoint all_some {A} (l : list (option A)) : option (list A) :=
  match l with
  | [] => Some []
  | Some x :: r => match all_some r with Some xs => Some (x :: xs) | None => None end
  | None :: _ => None
  end.

Definition atom_name (e : sexp) : option string := match e with Atom s => Some s | SList _ => None end.
Definition atom_names (l : list sexp) : option (list string) := all_some (map atom_name l).

Definition read_binop (s : string) : option binop :=
  if String.eqb s "+" then Some OAdd else if String.eqb s "-" then Some OSub
  else if String.eqb s "*" then Some OMul else if String.eqb s "/" then Some ODiv else None.
Definition read_cmpop (s : string) : option cmpop :=
  if String.eqb s "=" then Some CEq else if String.eqb s "<=" then Some CLe
  else if String.eqb s ">=" then Some CGe else if String.eqb s "<" then Some CLt
  else if String.eqb s ">" then Some CGt else None.
Definition read_assignop (s : string) : option assignop :=
  if String.eqb s "assign" then Some AAssign else if String.eqb s "increase" then Some AIncrease
  else if String.eqb s "decrease" then Some ADecrease else None.

Definition keywords : list string :=
  ["and"; "or"; "not"; "forall"; "exists"; "imply"; "when"; "="; "<="; ">="; "<"; ">"; "+"; "-"; "*"; "/";
   "assign"; "increase"; "decrease"; "scale-up"; "scale-down"; "either"].

Section Read.
  Variable num : numreader.

  Fixpoint read_nexp (e : sexp) : option nexp :=
    match e with
    | Atom s => match num s with Some x => Some (NNum x) | None => None end
    | SList [Atom h; a; b] =>
        match read_binop h with
        | Some o =>
            match read_nexp a, read_nexp b with
            | Some x, Some y => Some (NBin o x y)
            | _, _ => None
            end
        | None =>
            if str_in h keywords then None
            else match atom_names [a; b] with Some args => Some (NFl h args) | None => None end
        end
    | SList (Atom h :: args) =>
        if str_in h keywords then None
        else match atom_names args with Some names => Some (NFl h names) | None => None end
    | SList _ => None
    end.

  Fixpoint read_form (e : sexp) : option form :=
    match e with
    | Atom _ => None
    | SList [] => None
    | SList (SList _ :: _) => None
    | SList (Atom h :: args) =>
        if String.eqb h "and" then
          match all_some ((fix go (l : list sexp) : list (option form) :=
                             match l with [] => [] | x :: r => read_form x :: go r end) args) with
          | Some fs => Some (FAnd fs) | None => None end
        else if String.eqb h "or" then
          match all_some ((fix go (l : list sexp) : list (option form) :=
                             match l with [] => [] | x :: r => read_form x :: go r end) args) with
          | Some fs => Some (FOr fs) | None => None end
        else if String.eqb h "not" then
          match args with
          | [SList [Atom "="; Atom a; Atom b]] => Some (FNeq a b)
          | [SList (Atom p :: pargs)] =>
              if str_in p keywords then None
              else match atom_names pargs with Some names => Some (FNotAtom p names) | None => None end
          | _ => None
          end
        else if String.eqb h "forall" then
          match args with
          | [SList [Atom v; Atom "-"; Atom ty]; body] =>
              match read_form body with Some f => Some (FForall v ty f) | None => None end
          | _ => None
          end
        else
          match read_cmpop h, args with
          | Some CEq, [Atom a; Atom b] =>
              (* object equality unless both sides are numerals *)
              match num a, num b with
              | Some x, Some y => Some (FCmp CEq (NNum x) (NNum y))
              | _, _ => Some (FEq a b)
              end
          | Some c, [l; r] =>
              match read_nexp l, read_nexp r with
              | Some x, Some y => Some (FCmp c x y)
              | _, _ => None
              end
          | Some _, _ => None
          | None, _ =>
              if str_in h keywords then None
              else match atom_names args with Some names => Some (FAtom h names) | None => None end
          end
    end.

  Definition read_prim (e : sexp) : option prim :=
    match e with
    | SList [Atom "not"; SList (Atom p :: pargs)] =>
        if str_in p keywords then None
        else match atom_names pargs with Some names => Some (PDel p names) | None => None end
    | SList [Atom h; SList (Atom f :: fargs); rhs] =>
        match read_assignop h with
        | Some k =>
            match atom_names fargs, read_nexp rhs with
            | Some names, Some r => Some (PNum k f names r)
            | _, _ => None
            end
        | None =>
            if str_in h keywords then None else None      (* an atom cannot have a list argument *)
        end
    | SList (Atom p :: pargs) =>
        if str_in p keywords then None
        else match atom_names pargs with Some names => Some (PAdd p names) | None => None end
    | _ => None
    end.

  Definition read_prims (e : sexp) : option (list prim) :=
    match e with
    | SList (Atom "and" :: l) => all_some (map read_prim l)
    | _ => match read_prim e with Some p => Some [p] | None => None end
    end.

  (* one effect conjunct: a primitive, a when, or a forall-when *)
  Definition read_eff_item (e : sexp) : option (prim + eff) :=
    match e with
    | SList [Atom "when"; c; res] =>
        match read_form c, read_prims res with
        | Some f, Some ps => Some (inr (EWhen f ps))
        | _, _ => None
        end
    | SList [Atom "forall"; SList [Atom v; Atom "-"; Atom ty]; SList [Atom "when"; c; res]] =>
        match read_form c, read_prims res with
        | Some f, Some ps => Some (inr (EForall v ty f ps))
        | _, _ => None
        end
    | _ => match read_prim e with Some p => Some (inl p) | None => None end
    end.

  Definition read_effects (e : sexp) : option (list eff) :=
    match e with
    | SList (Atom "and" :: l) =>
        match all_some (map read_eff_item l) with
        | Some items =>
            let prims := flat_map (fun i => match i with inl p => [p] | inr _ => [] end) items in
            let others := flat_map (fun i => match i with inl _ => [] | inr x => [x] end) items in
            Some (EPrims prims :: others)
        | None => None
        end
    | _ => None
    end.

  Definition read_precondition (e : sexp) : option form :=
    match e with
    | SList [] => Some (FAnd [])
    | _ => read_form e
    end.
End Read.

(* typed lists: "?x ?y - t ?z" -> [(?x,t); (?y,t); (?z,object)] *)
Fixpoint read_typed_list (toks : list string) (pending : list string) : option (list (string * string)) :=
  match toks with
  | [] => Some (map (fun p => (p, "object")) pending)
  | t :: rest =>
      if String.eqb t "-" then
        match rest with
        | ty :: rest' =>
            match read_typed_list rest' [] with
            | Some r => Some (map (fun p => (p, ty)) pending ++ r)
            | None => None
            end
        | [] => None
        end
      else read_typed_list rest (pending ++ [t])
  end.

Definition read_typed (l : list sexp) : option (list (string * string)) :=
  match atom_names l with Some toks => read_typed_list toks [] | None => None end.

(* the declared type tree: child -> parent, every name that occurs is a type *)
Definition read_types (l : list sexp) : option tytree := read_typed l.

Record sdomain := {
  sd_types : tytree;
  sd_consts : list (string * string);
  sd_preds : list (string * list (string * string));
  sd_funcs : list (string * list (string * string));
  sd_actions : list action
}.

Fixpoint find_section (key : string) (l : list sexp) : option sexp :=
  match l with
  | [] => None
  | x :: rest =>
      match x, rest with
      | Atom k, v :: _ => if String.eqb k key then Some v else find_section key rest
      | _, _ => find_section key rest
      end
  end.

Definition read_action (num : numreader) (body : list sexp) : option action :=
  match body with
  | Atom n :: items =>
      match find_section ":parameters" items, find_section ":precondition" items, find_section ":effect" items with
      | Some (SList ps), Some pre, Some ef =>
          match read_typed ps, read_precondition num pre, read_effects num ef with
          | Some params, Some f, Some es =>
              Some {| a_name := n; a_params := params; a_pre := f; a_effs := es |}
          | _, _, _ => None
          end
      | _, _, _ => None
      end
  | _ => None
  end.

Definition read_decl (e : sexp) : option (string * list (string * string)) :=
  match e with
  | SList (Atom n :: params) => match read_typed params with Some ps => Some (n, ps) | None => None end
  | _ => None
  end.

Definition read_domain (num : numreader) (e : sexp) : option sdomain :=
  match e with
  | SList (Atom "define" :: sections) =>
      let sec key := flat_map (fun s => match s with
                                        | SList (Atom h :: body) => if String.eqb h key then [body] else []
                                        | _ => [] end) sections in
      let types := match sec ":types" with b :: _ => read_types b | [] => Some [] end in
      let consts := match sec ":constants" with b :: _ => read_typed b | [] => Some [] end in
      let preds := match sec ":predicates" with b :: _ => all_some (map read_decl b) | [] => Some [] end in
      let funcs := match sec ":functions" with b :: _ => all_some (map read_decl b) | [] => Some [] end in
      let acts := all_some (map (read_action num) (sec ":action")) in
      match types, consts, preds, funcs, acts with
      | Some t, Some c, Some p, Some f, Some a =>
          Some {| sd_types := t; sd_consts := c; sd_preds := p; sd_funcs := f; sd_actions := a |}
      | _, _, _, _, _ => None
      end
  | _ => None
  end.
