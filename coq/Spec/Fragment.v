(* The supported fragment G of PDDL 2.1 level 2 as a decidable predicate on the token tree of a domain text:
   :typing (grouped and untyped parameters, type trees in any declaration order), :constants,
   :negative-preconditions, :equality, :disjunctive-preconditions, :universal-preconditions, numeric comparisons,
   assign / increase / decrease, :conditional-effects and forall-when effects - with the static conditions every
   PDDL validator checks (declared predicates / functions with their arity, arguments that are parameters in scope or
   constants, known types, acyclic type declarations) and the restrictions the library documents:
     - function parameters are written one by one ('?x - t'), not grouped;
     - the sections come in the order of the grammar and an action has :parameters, :precondition, :effect;
     - a precondition is '()', '(and ...)' or a single condition with at most one argument; an effect is '(and ...)';
     - a comparison has a compound operand, a numeric '=' has a compound first operand;
     - the body of a forall condition is '(and ...)' or '(or ...)', the body of a forall effect is a 'when';
     - the arguments of an atom are pairwise different.
   Written with the Spec readers only (no parser function). *)
From Coq Require Import List Ascii String Bool Arith PrimFloat.
From Verif Require Import Base.Str Base.Sexp Base.PyDict Spec.Pddl Spec.Grammar Spec.Faithful.
Import ListNotations.
Open Scope string_scope.
Open Scope list_scope.

Definition is_list (e : sexp) : bool := match e with SList _ => true | Atom _ => false end.
Definition is_variable (s : string) : bool := match s with String c _ => Ascii.eqb c "?"%char | EmptyString => false end.
Fixpoint distinct (l : list string) : bool :=
  match l with [] => true | x :: r => negb (str_in x r) && distinct r end.
Definition is_arith (h : string) : bool := str_in h ["+"; "-"; "/"; "*"].
Definition is_cmp (h : string) : bool := str_in h ["<="; ">="; ">"; "<"].
Definition is_assign (h : string) : bool := str_in h ["assign"; "increase"; "decrease"].
(* tokens that cannot be a numeral *)
Definition reserved_numeric : list string :=
  ["="; "!="; "<="; ">="; ">"; "<"; "+"; "-"; "/"; "*"; "increase"; "decrease"; "assign"].

Section Bodies.
  Variable num : numreader.
  Variable known_type : string -> bool.
  Variable is_const : string -> bool.
  Variable pred_arity : string -> option nat.
  Variable func_arity : string -> option nat.

  (* arguments: names that are parameters in scope or constants, pairwise different *)
  Definition g_args (scope : list string) (args : list sexp) (arity : nat) : bool :=
    match atom_names args with
    | Some names =>
        Nat.eqb (List.length names) arity && forallb (fun a => str_in a scope || is_const a) names && distinct names
    | None => false
    end.

  Definition g_literal (scope : list string) (e : sexp) : bool :=
    match e with
    | SList (Atom p :: args) =>
        match pred_arity p with Some n => g_args scope args n | None => false end
    | _ => false
    end.

  Definition g_fluent (scope : list string) (e : sexp) : bool :=
    match e with
    | SList (Atom f :: args) =>
        negb (is_arith f) && match func_arity f with Some n => g_args scope args n | None => false end
    | _ => false
    end.

  Fixpoint g_nexp (scope : list string) (e : sexp) : bool :=
    match e with
    | Atom s => (match num s with Some _ => true | None => false end) && negb (str_in s reserved_numeric)
    | SList [Atom h; a; b] =>
        if is_arith h then g_nexp scope a && g_nexp scope b else g_fluent scope e
    | _ => g_fluent scope e
    end.

  Fixpoint g_cond (scope : list string) (e : sexp) : bool :=
    match e with
    | SList (Atom h :: args) =>
        if String.eqb h "and" || String.eqb h "or" then forallb (g_cond scope) args
        else if String.eqb h "not" then
          match args with
          | [SList (Atom p :: pargs)] =>
              if String.eqb p "=" then
                match pargs with [Atom a; Atom b] => str_in a scope && str_in b scope | _ => false end
              else g_literal scope (SList (Atom p :: pargs))
          | _ => false
          end
        else if String.eqb h "=" then
          match args with
          | [Atom a; Atom b] => str_in a scope && str_in b scope
          | [SList l; r] => g_nexp scope (SList l) && g_nexp scope r
          | _ => false
          end
        else if is_cmp h then
          match args with
          | [l; r] => (is_list l || is_list r) && g_nexp scope l && g_nexp scope r
          | _ => false
          end
        else if String.eqb h "forall" then
          match args with
          | [SList [Atom v; Atom d; Atom ty]; SList (Atom bh :: subs)] =>
              String.eqb d "-" && known_type ty && (String.eqb bh "and" || String.eqb bh "or") &&
              forallb (g_cond (v :: scope)) subs
          | _ => false
          end
        else g_literal scope e
    | _ => false
    end.

  (* a precondition body *)
  Definition g_precondition (scope : list string) (e : sexp) : bool :=
    match e with
    | SList [] => true
    | SList (Atom h :: args) =>
        if String.eqb h "and" then forallb (g_cond scope) args
        else Nat.leb (List.length args) 1 && g_cond scope e
    | _ => false
    end.

  (* effects *)
  Definition g_prim (scope : list string) (e : sexp) : bool :=
    match e with
    | SList (Atom h :: args) =>
        if String.eqb h "not" then
          match args with [lit] => g_literal scope lit | _ => false end
        else if is_assign h then
          match args with [SList l; rhs] => g_fluent scope (SList l) && g_nexp scope rhs | _ => false end
        else g_literal scope e
    | _ => false
    end.

  Definition g_result (scope : list string) (e : sexp) : bool :=
    match e with
    | SList (Atom h :: items) => if String.eqb h "and" then forallb (g_prim scope) items else g_prim scope e
    | _ => false
    end.

  (* the condition of a when: (and c1 ... cn) or one condition *)
  Definition g_when_parts (scope : list string) (args : list sexp) : bool :=
    match args with
    | [c; res] =>
        match c with
        | SList (Atom h :: subs) => if String.eqb h "and" then forallb (g_cond scope) subs else g_cond scope c
        | _ => false
        end && g_result scope res
    | _ => false
    end.

  Definition g_effect_item (scope : list string) (e : sexp) : bool :=
    match e with
    | SList (Atom h :: args) =>
        if String.eqb h "when" then g_when_parts scope args
        else if String.eqb h "forall" then
          match args with
          | [SList [Atom v; Atom d; Atom ty]; SList (Atom w :: wargs)] =>
              String.eqb d "-" && known_type ty && String.eqb w "when" && g_when_parts (v :: scope) wargs
          | _ => false
          end
        else g_prim scope e
    | _ => false
    end.

  Definition g_effect (scope : list string) (e : sexp) : bool :=
    match e with
    | SList (Atom h :: items) => String.eqb h "and" && forallb (g_effect_item scope) items
    | _ => false
    end.
End Bodies.

(* ---------- typed lists ---------- *)
(* "?x ?y - t ?z": variables, every '-' followed by a known type *)
Fixpoint g_typed_vars (known_type : string -> bool) (toks : list string) : bool :=
  match toks with
  | [] => true
  | t :: rest =>
      if String.eqb t "-" then
        match rest with ty :: rest' => known_type ty && g_typed_vars known_type rest' | [] => false end
      else is_variable t && g_typed_vars known_type rest
  end.

(* constants: names, every '-' followed by a known type *)
Fixpoint g_typed_names (known_type : string -> bool) (toks : list string) : bool :=
  match toks with
  | [] => true
  | t :: rest =>
      if String.eqb t "-" then
        match rest with ty :: rest' => known_type ty && g_typed_names known_type rest' | [] => false end
      else g_typed_names known_type rest
  end.

(* function parameters one by one: ?x - t ?y - u *)
Fixpoint g_triples (known_type : string -> bool) (toks : list string) : bool :=
  match toks with
  | [] => true
  | v :: d :: ty :: rest => is_variable v && String.eqb d "-" && negb (String.eqb ty "-") && known_type ty &&
                            g_triples known_type rest
  | _ => false
  end.

(* ---------- the declared tables the bodies are checked against ---------- *)
Record gctx := {
  c_types : typed;                     (* the type table: type -> parent *)
  c_consts : typed;
  c_preds : list (string * typed);
  c_funcs : list (string * typed)
}.

Definition ctx_known_type (c : gctx) (ty : string) : bool := String.eqb ty "object" || str_in ty (map fst (c_types c)).
Definition ctx_is_const (c : gctx) (a : string) : bool := str_in a (map fst (c_consts c)).
Definition ctx_arity (decls : list (string * typed)) (n : string) : option nat :=
  match lookup n (dict_of (map decl_row decls)) with Some ps => Some (List.length ps) | None => None end.

(* every type reaches object: no cycle *)
Definition acyclic (rows : typed) : bool := forallb (fun kv => subtypeb rows (fst kv) "object") rows.

Definition g_types_section (body : list sexp) : option typed :=
  match read_types body with
  | Some rows =>
      match atom_names body with
      | Some toks => if g_typed_names (fun _ => true) toks && acyclic (type_rows rows) then Some (type_rows rows) else None
      | None => None
      end
  | None => None
  end.

Definition g_decl (known_type : string -> bool) (triples : bool) (e : sexp) : bool :=
  match e with
  | SList (Atom n :: params) =>
      negb (str_in n keywords) && negb (String.eqb n ":private") &&
      match atom_names params with
      | Some toks => if triples then g_triples known_type toks else g_typed_vars known_type toks
      | None => false
      end
  | _ => false
  end.

Definition g_action (num : numreader) (c : gctx) (body : list sexp) : bool :=
  match body with
  | [Atom _; Atom k1; SList ps; Atom k2; pre; Atom k3; eff] =>
      String.eqb k1 ":parameters" && String.eqb k2 ":precondition" && String.eqb k3 ":effect" &&
      match atom_names ps, read_typed ps with
      | Some toks, Some params =>
          g_typed_vars (ctx_known_type c) toks &&
          g_precondition num (ctx_known_type c) (ctx_is_const c) (ctx_arity (c_preds c)) (ctx_arity (c_funcs c))
                         (map fst params) pre &&
          g_effect num (ctx_known_type c) (ctx_is_const c) (ctx_arity (c_preds c)) (ctx_arity (c_funcs c))
                   (map fst params) eff
      | _, _ => false
      end
  | _ => false
  end.

(* the sections in the order of the grammar; [stage] = the next section kind that may still come:
   0 domain name, 1 requirements, 2 types, 3 constants, 4 predicates, 5 functions, 6 actions *)
Fixpoint g_sections (num : numreader) (stage : nat) (c : gctx) (sections : list sexp) : bool :=
  match sections with
  | [] => Nat.leb 1 stage
  | SList (Atom h :: body) :: rest =>
      if String.eqb h "domain" then
        Nat.eqb stage 0 && match body with [Atom _] => true | _ => false end && g_sections num 1 c rest
      else if String.eqb h ":requirements" then
        Nat.eqb stage 1 && match atom_names body with Some _ => true | None => false end && g_sections num 2 c rest
      else if String.eqb h ":types" then
        Nat.leb 1 stage && Nat.leb stage 2 &&
        match g_types_section body with
        | Some rows => g_sections num 3 {| c_types := rows; c_consts := c_consts c; c_preds := c_preds c; c_funcs := c_funcs c |} rest
        | None => false
        end
      else if String.eqb h ":constants" then
        Nat.leb 1 stage && Nat.leb stage 3 &&
        match atom_names body, read_typed body with
        | Some toks, Some rows =>
            g_typed_names (ctx_known_type c) toks &&
            g_sections num 4 {| c_types := c_types c; c_consts := rows; c_preds := c_preds c; c_funcs := c_funcs c |} rest
        | _, _ => false
        end
      else if String.eqb h ":predicates" then
        Nat.leb 1 stage && Nat.leb stage 4 && forallb (g_decl (ctx_known_type c) false) body &&
        match all_some (map read_decl body) with
        | Some decls => g_sections num 5 {| c_types := c_types c; c_consts := c_consts c; c_preds := decls; c_funcs := c_funcs c |} rest
        | None => false
        end
      else if String.eqb h ":functions" then
        Nat.leb 1 stage && Nat.leb stage 5 && forallb (g_decl (ctx_known_type c) true) body &&
        match all_some (map read_decl body) with
        | Some decls => g_sections num 6 {| c_types := c_types c; c_consts := c_consts c; c_preds := c_preds c; c_funcs := decls |} rest
        | None => false
        end
      else if String.eqb h ":action" then
        Nat.leb 1 stage && g_action num c body && g_sections num 6 c rest
      else false
  | _ => false
  end.

Definition G (num : numreader) (e : sexp) : bool :=
  match e with
  | SList (Atom d :: sections) =>
      String.eqb d "define" && g_sections num 0 {| c_types := []; c_consts := []; c_preds := []; c_funcs := [] |} sections
  | _ => false
  end.
