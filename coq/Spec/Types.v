(* Spec for C06: what the subtype relation of a (:types ...) section MEANS.
   Independent of the library's data structures: a section is a list of declaration groups
   'c1 ... ck - parent' followed by trailing untyped names; its declarations are the (child, parent) pairs;
   the subtype relation is the reflexive-transitive closure of the declared pairs together with (t, object)
   for every t ('object' is the root of every type). *)
From Coq Require Import List String Bool Relations Permutation.
From Verif Require Import Base.Str Base.Sexp.
Import ListNotations.
Open Scope string_scope.
Open Scope list_scope.

Definition tname := string.
Definition decl := (tname * tname)%type.                       (* (child, parent) *)
Definition group := (list tname * tname)%type.                 (* 'c1 ... ck - parent' *)

Definition group_decls (g : group) : list decl := map (fun c => (c, snd g)) (fst g).

(* the declarations of a section: every group's pairs, then the trailing untyped names as children of object *)
Definition decls (gs : list group) (trailing : list tname) : list decl :=
  flat_map group_decls gs ++ map (fun c => (c, "object")) trailing.

(* ---------- the relation ---------- *)
Definition declared (ds : list decl) (x y : tname) : Prop := In (x, y) ds.
Definition edge (ds : list decl) (x y : tname) : Prop := declared ds x y \/ y = "object".
Definition subtype (ds : list decl) : tname -> tname -> Prop := clos_refl_trans tname (edge ds).

(* the names that are types of the section: everything that occurs in a declaration, and object *)
Definition is_type_name (ds : list decl) (x : tname) : Prop :=
  x = "object" \/ In x (map fst ds) \/ In x (map snd ds).

(* ---------- forests ---------- *)
(* each child has one parent; 'object' is nobody's child; no type is its own proper ancestor *)
Definition one_parent (ds : list decl) : Prop := NoDup (map fst ds).
Definition object_is_root (ds : list decl) : Prop := ~ In "object" (map fst ds).
Definition acyclic (ds : list decl) : Prop := forall x, ~ clos_trans tname (declared ds) x x.
Definition cyclic (ds : list decl) : Prop := exists x, clos_trans tname (declared ds) x x.
Definition forest (ds : list decl) : Prop := one_parent ds /\ object_is_root ds /\ acyclic ds.

(* ---------- how a section is written: the token list after ':types' ---------- *)
Definition render_group (g : group) : list sexp := map Atom (fst g) ++ [Atom "-"; Atom (snd g)].
Definition render (gs : list group) (trailing : list tname) : list sexp :=
  flat_map render_group gs ++ map Atom trailing.

(* a name is not the dash token (otherwise the text would not read as these groups) *)
Definition plain (n : tname) : Prop := n <> "-".
Definition plain_section (gs : list group) (trailing : list tname) : Prop :=
  Forall (fun g => Forall plain (fst g)) gs /\ Forall plain trailing.

(* two ways of writing the same declarations: same pairs, in any order / grouping *)
Definition same_decls (a b : list decl) : Prop := forall c p, In (c, p) a <-> In (c, p) b.

(* elementary regroupings *)
Inductive regroup1 : list group -> list group -> Prop :=
| rg_split : forall pre post cs1 cs2 p,
    regroup1 (pre ++ (cs1 ++ cs2, p) :: post) (pre ++ (cs1, p) :: (cs2, p) :: post)
| rg_merge : forall pre post cs1 cs2 p,
    regroup1 (pre ++ (cs1, p) :: (cs2, p) :: post) (pre ++ (cs1 ++ cs2, p) :: post)
| rg_within : forall pre post cs cs' p,
    Permutation cs cs' -> regroup1 (pre ++ (cs, p) :: post) (pre ++ (cs', p) :: post).

(* ---------- an executable closure (the oracle of the correspondence check) ----------
   saturation: start from [x], add the successors of everything seen, |ds|+2 rounds.
   Proved equal to [subtype] for EVERY declaration list (forest or not) in Proofs/C06_Oracle.v. *)
Definition declared_succs (ds : list decl) (z : tname) : list tname :=
  map snd (filter (fun d => String.eqb (fst d) z) ds).
Definition succs (ds : list decl) (z : tname) : list tname := "object" :: declared_succs ds z.

Fixpoint add_new (l acc : list tname) : list tname :=
  match l with
  | [] => acc
  | x :: r => if str_in x acc then add_new r acc else add_new r (acc ++ [x])
  end.

Fixpoint saturate (fuel : nat) (next : tname -> list tname) (seen : list tname) : list tname :=
  match fuel with
  | 0 => seen
  | S f => saturate f next (add_new (flat_map next seen) seen)
  end.

Definition closure_b (ds : list decl) (x y : tname) : bool :=
  str_in y (saturate (S (S (List.length ds))) (succs ds) [x]).

(* executable forest test (tells the check what to expect of a generated section) *)
Fixpoint nodup_b (l : list tname) : bool :=
  match l with [] => true | x :: r => negb (str_in x r) && nodup_b r end.
(* some declared pair (c, p) has c among the declared-edge descendants... i.e. p reaches c by declared pairs *)
Definition cyclic_b (ds : list decl) : bool :=
  existsb (fun d => str_in (fst d) (saturate (S (S (List.length ds))) (declared_succs ds) [snd d])) ds.
Definition forest_b (ds : list decl) : bool :=
  nodup_b (map fst ds) && negb (str_in "object" (map fst ds)) && negb (cyclic_b ds).
