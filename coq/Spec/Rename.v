(* What "renaming the parameters of an action" means, independently of the library's data structures:
   the simultaneous substitution of the FREE names of the precondition and of the effects by a function
   rho : name -> name, a quantifier keeping its own variable (and hiding rho on it below itself), together with
   the same substitution on the parameter list (same order, same types).
   The side conditions under which such a renaming cannot change the meaning (alpha-invariance, proved in
   Proofs/C18_Alpha.v) are stated here too: [free_*] the names read through the environment, [bound_*] the
   quantified variables, [nocap_*] "no renamed free name is caught by a quantifier". *)
From Coq Require Import List String Bool.
From Verif Require Import Spec.Pddl.
Import ListNotations.
Open Scope string_scope.
Open Scope list_scope.

Definition ren := name -> name.

(* below a quantifier over v the name v is bound: it stays *)
Definition upd (rho : ren) (v : name) : ren := fun n => if String.eqb n v then n else rho n.

Fixpoint ren_nexp (rho : ren) (n : nexp) : nexp :=
  match n with
  | NNum x => NNum x
  | NFl f args => NFl f (map rho args)
  | NBin o a b => NBin o (ren_nexp rho a) (ren_nexp rho b)
  end.

Fixpoint ren_form (rho : ren) (f : form) : form :=
  match f with
  | FAtom p args => FAtom p (map rho args)
  | FNotAtom p args => FNotAtom p (map rho args)
  | FEq a b => FEq (rho a) (rho b)
  | FNeq a b => FNeq (rho a) (rho b)
  | FCmp c l r => FCmp c (ren_nexp rho l) (ren_nexp rho r)
  | FAnd l => FAnd (map (ren_form rho) l)
  | FOr l => FOr (map (ren_form rho) l)
  | FForall v ty body => FForall v ty (ren_form (upd rho v) body)
  end.

Definition ren_prim (rho : ren) (p : prim) : prim :=
  match p with
  | PAdd q args => PAdd q (map rho args)
  | PDel q args => PDel q (map rho args)
  | PNum k f args rhs => PNum k f (map rho args) (ren_nexp rho rhs)
  end.

Definition ren_eff (rho : ren) (e : eff) : eff :=
  match e with
  | EPrims es => EPrims (map (ren_prim rho) es)
  | EWhen c es => EWhen (ren_form rho c) (map (ren_prim rho) es)
  | EForall v ty c es => EForall v ty (ren_form (upd rho v) c) (map (ren_prim (upd rho v)) es)
  end.

Definition ren_action (rho : ren) (a : action) : action :=
  {| a_name := a_name a;
     a_params := map (fun pt => (rho (fst pt), snd pt)) (a_params a);
     a_pre := ren_form rho (a_pre a);
     a_effs := map (ren_eff rho) (a_effs a) |}.

(* ---------- free names (read through the environment: variables, constants, objects) ---------- *)
Fixpoint free_nexp (n : nexp) : list name :=
  match n with
  | NNum _ => []
  | NFl _ args => args
  | NBin _ a b => free_nexp a ++ free_nexp b
  end.

Fixpoint free_form (f : form) : list name :=
  match f with
  | FAtom _ args | FNotAtom _ args => args
  | FEq a b | FNeq a b => [a; b]
  | FCmp _ l r => free_nexp l ++ free_nexp r
  | FAnd l | FOr l => flat_map free_form l
  | FForall v _ body => filter (fun n => negb (String.eqb n v)) (free_form body)
  end.

Definition free_prim (p : prim) : list name :=
  match p with
  | PAdd _ args | PDel _ args => args
  | PNum _ _ args rhs => args ++ free_nexp rhs
  end.

Definition free_eff (e : eff) : list name :=
  match e with
  | EPrims es => flat_map free_prim es
  | EWhen c es => free_form c ++ flat_map free_prim es
  | EForall v _ c es => filter (fun n => negb (String.eqb n v)) (free_form c ++ flat_map free_prim es)
  end.

(* ---------- quantified variables ---------- *)
Fixpoint bound_form (f : form) : list name :=
  match f with
  | FAnd l | FOr l => flat_map bound_form l
  | FForall v _ body => v :: bound_form body
  | _ => []
  end.

Definition bound_eff (e : eff) : list name :=
  match e with
  | EPrims _ => []
  | EWhen c _ => bound_form c
  | EForall v _ c _ => v :: bound_form c
  end.

Definition free_action (a : action) : list name := free_form (a_pre a) ++ flat_map free_eff (a_effs a).
Definition bound_action (a : action) : list name := bound_form (a_pre a) ++ flat_map bound_eff (a_effs a).

(* ---------- no capture: a free name of a quantifier's body, other than its variable, is not renamed to it ---------- *)
Fixpoint nocap_form (rho : ren) (f : form) : Prop :=
  match f with
  | FAnd l | FOr l =>
      (fix go (l : list form) : Prop := match l with [] => True | x :: r => nocap_form rho x /\ go r end) l
  | FForall v _ body =>
      (forall n, In n (free_form body) -> n <> v -> rho n <> v) /\ nocap_form (upd rho v) body
  | _ => True
  end.

Definition nocap_eff (rho : ren) (e : eff) : Prop :=
  match e with
  | EPrims _ => True
  | EWhen c _ => nocap_form rho c
  | EForall v _ c es =>
      (forall n, In n (free_form c ++ flat_map free_prim es) -> n <> v -> rho n <> v) /\ nocap_form (upd rho v) c
  end.

Definition inj_on (rho : ren) (l : list name) : Prop :=
  forall x y, In x l -> In y l -> rho x = rho y -> x = y.

(* A renaming of the parameters of [a] that is admissible:
   it moves parameters only, it is injective on the parameters and the free names of the action (so a new name
   is not the name of a constant the action mentions, nor of another parameter), and a new name is not one of
   the action's quantified variables.  Fresh names, permutations of the parameters and chains ?a->?b->?c->fresh
   all qualify. *)
Definition params (a : action) : list name := map fst (a_params a).

Definition admissible (rho : ren) (a : action) : Prop :=
  (forall n, ~ In n (params a) -> rho n = n) /\
  inj_on rho (params a ++ free_action a) /\
  (forall p, In p (params a) -> rho p <> p -> ~ In (rho p) (bound_action a)).
