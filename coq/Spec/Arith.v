(* Spec for C12: what numeric expressions, comparisons with a tolerance, assignments and fixed-point
   printing MEAN, independently of the library's data structures.  Arithmetic is IEEE binary64 (PrimFloat);
   exact values (printing) are integers/dyadics in Z. *)
From Coq Require Import ZArith List Bool String Ascii PrimFloat FloatOps SpecFloat.
From Verif Require Import Base.Str Base.Sexp Base.Float.
Import ListNotations.
Open Scope string_scope.
Open Scope list_scope.

(* ------------------------------------------------------------------ expressions *)
Inductive aop := Add | Sub | Mul | Div.

Inductive aexp :=
| ANum (v : float)
| AFl (name : string) (args : list string)        (* a grounded fluent (name arg1 ... argn) *)
| ABin (op : aop) (l r : aexp).

(* the key under which a state stores the fluent: "(name a1 a2)", "(name )" without arguments *)
Definition fluent_key (name : string) (args : list string) : string :=
  "(" ++ name ++ " " ++ join " " args ++ ")".

Definition valuation := string -> float.

(* (op a b) is a op b: the FIRST operand is the minuend / dividend.  Division by zero is undefined. *)
Definition ap (op : aop) (a b : float) : option float :=
  match op with
  | Add => Some (a + b)%float
  | Sub => Some (a - b)%float
  | Mul => Some (a * b)%float
  | Div => if PrimFloat.eqb b 0%float then None else Some (a / b)%float
  end.

Fixpoint aeval (val : valuation) (e : aexp) : option float :=
  match e with
  | ANum v => Some v
  | AFl n a => Some (val (fluent_key n a))
  | ABin op l r =>
      match aeval val l, aeval val r with
      | Some x, Some y => ap op x y
      | _, _ => None
      end
  end.

(* PDDL prefix syntax of an expression; [tok v] is the numeral written for the constant v *)
Definition op_name (op : aop) : string :=
  match op with Add => "+" | Sub => "-" | Mul => "*" | Div => "/" end.

Fixpoint render (tok : float -> string) (e : aexp) : sexp :=
  match e with
  | ANum v => Atom (tok v)
  | AFl n a => SList (Atom n :: map Atom a)
  | ABin op l r => SList [Atom (op_name op); render tok l; render tok r]
  end.

(* ------------------------------------------------------------------ comparisons with a tolerance *)
Inductive cmp := CEq | CNe | CLe | CGe | CLt | CGt.
Definition cmp_name (c : cmp) : string :=
  match c with CEq => "=" | CNe => "!=" | CLe => "<=" | CGe => ">=" | CLt => "<" | CGt => ">" end.

(* the two sides differ by no more than eps *)
Definition dist (x y : float) : float := abs (y - x)%float.
Definition close (eps x y : float) : bool := PrimFloat.eqb x y || PrimFloat.leb (dist x y) eps.

(* [cl] = "the sides are within the tolerance"; otherwise the ordering of the values decides *)
Definition cmp_with (cl : bool) (c : cmp) (x y : float) : bool :=
  match c with
  | CEq => cl
  | CNe => negb cl
  | CLe => cl || PrimFloat.ltb x y
  | CGe => cl || PrimFloat.ltb y x
  | CLt => PrimFloat.ltb x y
  | CGt => PrimFloat.ltb y x
  end.
Definition spec_cmp (eps : float) (c : cmp) (x y : float) : bool := cmp_with (close eps x y) c x y.

(* ------------------------------------------------------------------ assignments *)
Inductive asg := Assign | Increase | Decrease.
Definition asg_name (a : asg) : string :=
  match a with Assign => "assign" | Increase => "increase" | Decrease => "decrease" end.
Definition spec_assign (a : asg) (old v : float) : float :=
  match a with Assign => v | Increase => (old + v)%float | Decrease => (old - v)%float end.

(* ------------------------------------------------------------------ printing *)
(* The text "[-]ddd.ddd" read exactly is (-1)^neg * n / 10^k; the float is (-1)^s * m * 2^e.
   [text_close]: |text - float| <= 1/2 * 10^-digits ;  [text_exact]: text = float.  All in Z. *)
Section TextValue.
  Variable d : dyadic.
  Variables (neg : bool) (n : Z) (k : nat).
  Let sn : Z := if neg then (- n)%Z else n.
  Let sm : Z := if dy_neg d then (- dy_m d)%Z else dy_m d.
  Let E : Z := Z.max (- dy_e d) 0.
  Let F : Z := Z.max (dy_e d) 0.
  Definition text_err_scaled : Z := Z.abs (sn * 2 ^ E - sm * 2 ^ F * 10 ^ Z.of_nat k).   (* |text - float| * 10^k * 2^E *)
  Definition text_close (digits : nat) : bool :=
    (2 * 10 ^ Z.of_nat digits * text_err_scaled <=? 10 ^ Z.of_nat k * 2 ^ E)%Z.
  Definition text_exact : bool := (text_err_scaled =? 0)%Z.
End TextValue.

(* the numeral [tok] is an acceptable print of the constant v with [digits] decimals:
   integers exactly, everything else with exactly [digits] decimals and within half a unit of the last one;
   infinities and NaN by name *)
Definition print_ok (digits : nat) (v : float) (tok : string) : bool :=
  match Prim2SF v with
  | S754_nan => String.eqb tok "nan"
  | S754_infinity s => String.eqb tok (if s then "-inf" else "inf")
  | f =>
      match sf_exact f, dec_parse tok with
      | Some d, Some (neg, n, k) =>
          if dy_is_integer d then text_exact d neg n k
          else Nat.eqb k digits && text_close d neg n k digits
      | _, _ => false
      end
  end.

(* a token tree has the structure of the expression, numerals acceptable *)
Fixpoint atoms_are (l : list sexp) (a : list string) : bool :=
  match l, a with
  | [], [] => true
  | Atom s :: l', x :: a' => String.eqb s x && atoms_are l' a'
  | _, _ => false
  end.

Fixpoint shape_ok (digits : nat) (e : aexp) (s : sexp) : bool :=
  match e, s with
  | ANum v, Atom t => print_ok digits v t
  | AFl n a, SList (Atom h :: l) => String.eqb h n && atoms_are l a
  | ABin op l r, SList [Atom h; sl; sr] => String.eqb h (op_name op) && shape_ok digits l sl && shape_ok digits r sr
  | _, _ => false
  end.
