(* Spec for C20 (grounding is substitution) and for the error half of C02 (when evaluation is undefined).
   Independent of the library's data structures: everything is stated on Spec.Pddl's formulas and effects.

   C20.  For an action schema with parameters ps, a call binds them position by position: sigma = combine ps args
   (Spec.Pddl.bind_args).  What a grounded call consists of:
     - its precondition literals: the schema's literals, every name t replaced by [subst sigma t] (a parameter
       becomes its argument, anything else -- a domain constant, a variable bound by an enclosing forall -- stays);
     - its numeric conditions / effects: the schema's expressions under the same replacement;
     - its add and delete effects, per effect group: the same.
   The typed form of a grounded literal gives each argument position a type: the type the term has where the literal
   occurs -- the declared type of the parameter (or of the enclosing quantifier's variable), and for a domain constant
   its own declared type. *)
From Coq Require Import List String Bool PrimFloat.
From Verif Require Import Base.Str Spec.Pddl.
Import ListNotations.
Open Scope string_scope.
Open Scope list_scope.

(* ---------- substitution on expressions ---------- *)
Fixpoint subst_nexp (sg : env) (n : nexp) : nexp :=
  match n with
  | NNum x => NNum x
  | NFl f args => NFl f (map (subst sg) args)
  | NBin o a b => NBin o (subst_nexp sg a) (subst_nexp sg b)
  end.

(* a bound variable is not a parameter any more *)
Definition unbind (v : name) (sg : env) : env := filter (fun kv => negb (String.eqb (fst kv) v)) sg.

(* typing context: variable -> declared type (innermost binding first), then the constants *)
Definition type_of (scope consts : list (name * name)) (t : name) : name :=
  match lookup t scope with
  | Some ty => ty
  | None => match lookup t consts with Some ty => ty | None => "object" end
  end.

Record tlit := { tl_pos : bool; tl_atom : atom; tl_types : list name }.

Section Items.
  Variable consts : list (name * name).

  Definition mk_lit (scope : list (name * name)) (sg : env) (pos : bool) (p : name) (args : list name) : tlit :=
    {| tl_pos := pos; tl_atom := (p, map (subst sg) args); tl_types := map (type_of scope consts) args |}.

  (* the literals of a formula under a substitution, in order of occurrence *)
  Fixpoint form_lits (scope : list (name * name)) (sg : env) (f : form) : list tlit :=
    match f with
    | FAtom p args => [mk_lit scope sg true p args]
    | FNotAtom p args => [mk_lit scope sg false p args]
    | FEq _ _ | FNeq _ _ | FCmp _ _ _ => []
    | FAnd l | FOr l => flat_map (form_lits scope sg) l
    | FForall v ty b => form_lits ((v, ty) :: scope) (unbind v sg) b
    end.

  (* its numeric comparisons *)
  Fixpoint form_cmps (sg : env) (f : form) : list (cmpop * nexp * nexp) :=
    match f with
    | FCmp c l r => [(c, subst_nexp sg l, subst_nexp sg r)]
    | FAtom _ _ | FNotAtom _ _ | FEq _ _ | FNeq _ _ => []
    | FAnd l | FOr l => flat_map (form_cmps sg) l
    | FForall v _ b => form_cmps (unbind v sg) b
    end.

  (* its (in)equalities between terms: (is_equality, a, b) *)
  Fixpoint form_eqs (sg : env) (f : form) : list (bool * name * name) :=
    match f with
    | FEq a b => [(true, subst sg a, subst sg b)]
    | FNeq a b => [(false, subst sg a, subst sg b)]
    | FAtom _ _ | FNotAtom _ _ | FCmp _ _ _ => []
    | FAnd l | FOr l => flat_map (form_eqs sg) l
    | FForall v _ b => form_eqs (unbind v sg) b
    end.

  (* primitive effects of one group *)
  Definition prim_lits (scope : list (name * name)) (sg : env) (ps : list prim) : list tlit :=
    flat_map (fun p => match p with
                       | PAdd q args => [mk_lit scope sg true q args]
                       | PDel q args => [mk_lit scope sg false q args]
                       | PNum _ _ _ _ => []
                       end) ps.

  Definition prim_nums (sg : env) (ps : list prim) : list (assignop * atom * nexp) :=
    flat_map (fun p => match p with
                       | PNum k f args rhs => [(k, (f, map (subst sg) args), subst_nexp sg rhs)]
                       | _ => []
                       end) ps.
End Items.

(* ---------- the two input classes in which the library's report is NOT the substituted schema ---------- *)
(* (D38) a quantified condition is reported lifted: it differs from the substituted form as soon as its body mentions
   something the call replaces -- or an (in)equality, which is not reported at all *)
Fixpoint nexp_names (n : nexp) : list name :=
  match n with NNum _ => [] | NFl _ args => args | NBin _ a b => nexp_names a ++ nexp_names b end.

Definition touches (sg : env) (names : list name) : bool :=
  existsb (fun t => negb (String.eqb (subst sg t) t)) names.

Fixpoint under_forall_touches (sg : env) (under : bool) (f : form) : bool :=
  match f with
  | FAtom _ args | FNotAtom _ args => under && touches sg args
  | FEq _ _ | FNeq _ _ => under
  | FCmp _ l r => under && touches sg (nexp_names l ++ nexp_names r)
  | FAnd l | FOr l => existsb (under_forall_touches sg under) l
  | FForall v _ b => under_forall_touches (unbind v sg) true b
  end.

(* (D07) a fluent application whose grounded arguments repeat a name (outside quantifiers, where it is grounded) *)
Fixpoint repeats (l : list name) : bool :=
  match l with [] => false | x :: r => str_in x r || repeats r end.

Fixpoint nexp_repeats (sg : env) (n : nexp) : bool :=
  match n with
  | NNum _ => false
  | NFl _ args => repeats (map (subst sg) args)
  | NBin _ a b => nexp_repeats sg a || nexp_repeats sg b
  end.

Fixpoint form_repeats (sg : env) (f : form) : bool :=
  match f with
  | FCmp _ l r => nexp_repeats sg l || nexp_repeats sg r
  | FAnd l | FOr l => existsb (form_repeats sg) l
  | _ => false
  end.

Definition prims_repeat (sg : env) (ps : list prim) : bool :=
  existsb (fun p => match p with
                    | PNum _ _ args rhs => repeats (map (subst sg) args) || nexp_repeats sg rhs
                    | _ => false end) ps.

Definition forall_free : form -> bool :=
  fix ff (f : form) : bool :=
    match f with
    | FAnd l | FOr l => forallb ff l
    | FForall _ _ _ => false
    | _ => true
    end.

(* ---------- C02: when evaluation is undefined ---------- *)
(* The library evaluates every operand of every connective (no short-circuit) and Python raises ZeroDivisionError on
   x / 0.0; so a call has no truth value exactly when SOME division in SOME instance of the precondition has a zero
   denominator. *)
Definition fzero (x : float) : bool := (x =? 0)%float.

Fixpoint ndiv0 (e : env) (s : state) (n : nexp) : bool :=
  match n with
  | NNum _ | NFl _ _ => false
  | NBin o a b =>
      ndiv0 e s a || ndiv0 e s b || match o with ODiv => fzero (neval e s b) | _ => false end
  end.

Section Div0.
  Variable tt : tytree.
  Variable objs : objects.

  Fixpoint fdiv0 (e : env) (s : state) (f : form) : bool :=
    match f with
    | FCmp _ l r => ndiv0 e s l || ndiv0 e s r
    | FAnd l | FOr l => existsb (fdiv0 e s) l
    | FForall v ty b => existsb (fun o => fdiv0 ((v, o) :: e) s b) (objects_of_type tt objs ty)
    | FAtom _ _ | FNotAtom _ _ | FEq _ _ | FNeq _ _ => false
    end.
End Div0.
