(* Spec of joint actions (C16): members, interference, sequential composition.
   A member is a ground action (schema + arguments).  Two members do NOT INTERFERE when (the standard independence
   of ground actions, Blum & Furst 1997 / the "no moving targets" rule of PDDL 2.1 in its strict form):
     - neither adds or deletes a fact that the other's precondition or effect conditions mention,
     - neither adds a fact that the other deletes,
     - no fluent written by one is read (in a precondition, an effect condition, a right-hand side, or as the old value
       of an increase/decrease) or written by the other.
   The footprints are syntactic: every effect counts, whether or not its condition holds in a particular state;
   quantifiers are expanded over the objects of the problem.  (Concurrent increases of one fluent are excluded too:
   floating-point addition is not associative, so their order would be observable.)
   The joint action applied in [s] denotes [seq_apply s members]; Proofs/C16_Commute.v shows that under pairwise
   non-interference every permutation of the members gives the same state (as a set of facts and a map of fluents). *)
From Coq Require Import List String Bool PrimFloat.
From Verif Require Import Base.Str Spec.Pddl.
Import ListNotations.
Open Scope string_scope.
Open Scope list_scope.

(* states as values: the same facts, the same fluent map *)
Definition st_equiv (s t : state) : Prop :=
  (forall a, atom_in a (facts s) = atom_in a (facts t)) /\
  (forall k, fluent_get k (fluents s) = fluent_get k (fluents t)).

Section Footprint.
  Variable tt : tytree.
  Variable objs : objects.

  Fixpoint nexp_fluents (e : env) (n : nexp) : list atom :=
    match n with
    | NNum _ => []
    | NFl f args => [(f, map (subst e) args)]
    | NBin _ a b => nexp_fluents e a ++ nexp_fluents e b
    end.

  (* facts / fluents a formula mentions *)
  Fixpoint form_atoms (e : env) (f : form) : list atom :=
    match f with
    | FAtom p args | FNotAtom p args => [(p, map (subst e) args)]
    | FEq _ _ | FNeq _ _ | FCmp _ _ _ => []
    | FAnd l | FOr l => flat_map (form_atoms e) l
    | FForall v ty body => flat_map (fun o => form_atoms ((v, o) :: e) body) (objects_of_type tt objs ty)
    end.

  Fixpoint form_fluents (e : env) (f : form) : list atom :=
    match f with
    | FAtom _ _ | FNotAtom _ _ | FEq _ _ | FNeq _ _ => []
    | FCmp _ l r => nexp_fluents e l ++ nexp_fluents e r
    | FAnd l | FOr l => flat_map (form_fluents e) l
    | FForall v ty body => flat_map (fun o => form_fluents ((v, o) :: e) body) (objects_of_type tt objs ty)
    end.

  Definition prim_adds (e : env) (p : prim) : list atom :=
    match p with PAdd q args => [(q, map (subst e) args)] | _ => [] end.
  Definition prim_dels (e : env) (p : prim) : list atom :=
    match p with PDel q args => [(q, map (subst e) args)] | _ => [] end.
  Definition prim_sets (e : env) (p : prim) : list atom :=
    match p with PNum _ f args _ => [(f, map (subst e) args)] | _ => [] end.
  (* fluents read by a primitive effect: its right-hand side, and its own target unless it is a plain assignment *)
  Definition prim_rfluents (e : env) (p : prim) : list atom :=
    match p with
    | PNum AAssign _ _ rhs => nexp_fluents e rhs
    | PNum _ f args rhs => (f, map (subst e) args) :: nexp_fluents e rhs
    | _ => []
    end.

  (* the instances of an effect: (environment, condition, primitive effects) *)
  Definition eff_instances (e : env) (ef : eff) : list (env * option form * list prim) :=
    match ef with
    | EPrims es => [(e, None, es)]
    | EWhen c es => [(e, Some c, es)]
    | EForall v ty c es => map (fun o => ((v, o) :: e, Some c, es)) (objects_of_type tt objs ty)
    end.

  Definition inst_cond_atoms (i : env * option form * list prim) : list atom :=
    match i with (e, Some c, _) => form_atoms e c | _ => [] end.
  Definition inst_cond_fluents (i : env * option form * list prim) : list atom :=
    match i with (e, Some c, _) => form_fluents e c | _ => [] end.
  Definition inst_over (f : env -> prim -> list atom) (i : env * option form * list prim) : list atom :=
    match i with (e, _, es) => flat_map (f e) es end.

  Definition member := (action * list name)%type.

  Definition m_env (m : member) : env := bind_args (fst m) (snd m).
  Definition m_instances (m : member) : list (env * option form * list prim) :=
    flat_map (eff_instances (m_env m)) (a_effs (fst m)).

  Definition read_atoms (m : member) : list atom :=
    form_atoms (m_env m) (a_pre (fst m)) ++ flat_map inst_cond_atoms (m_instances m).
  Definition read_fluents (m : member) : list atom :=
    form_fluents (m_env m) (a_pre (fst m)) ++ flat_map inst_cond_fluents (m_instances m) ++
    flat_map (inst_over prim_rfluents) (m_instances m).
  Definition add_atoms (m : member) : list atom := flat_map (inst_over prim_adds) (m_instances m).
  Definition del_atoms (m : member) : list atom := flat_map (inst_over prim_dels) (m_instances m).
  Definition set_fluents (m : member) : list atom := flat_map (inst_over prim_sets) (m_instances m).

  Definition disjoint (a b : list atom) : bool := forallb (fun x => negb (atom_in x b)) a.

  (* [a] does not disturb [b] *)
  Definition undisturbed_by (a b : member) : bool :=
    disjoint (add_atoms a ++ del_atoms a) (read_atoms b) &&
    disjoint (add_atoms a) (del_atoms b) &&
    disjoint (set_fluents a) (read_fluents b ++ set_fluents b).

  Definition non_interfering (a b : member) : bool := undisturbed_by a b && undisturbed_by b a.

  Fixpoint pairwise_non_interfering (ms : list member) : bool :=
    match ms with
    | [] => true
    | m :: r => forallb (non_interfering m) r && pairwise_non_interfering r
    end.

  (* ---------- sequential composition ---------- *)
  Variable eps : float.

  Definition m_applicable (s : state) (m : member) : bool := applicable eps tt objs (fst m) (snd m) s.
  Definition m_step (s : state) (m : member) : state := successor eps tt objs (fst m) (snd m) s.
  Definition seq_apply (s : state) (ms : list member) : state := fold_left m_step ms s.

  (* what a joint action over [ms] (nop entries already left out: they denote no member) must return in [s]:
     refused when some member is inapplicable and that was not explicitly allowed *)
  Definition joint_refused (allow : bool) (s : state) (ms : list member) : bool :=
    negb allow && negb (forallb (m_applicable s) ms).
End Footprint.
