(* Spec for C20, second half (round 3): HOW MANY TIMES a literal of the instantiated schema has to be reported.

   Spec/Subst.v gives the instantiated schema as lists with one entry per occurrence in the schema ([form_lits],
   [form_cmps], [prim_lits], ...): that is the UPPER bound ("nothing is added": every reported item is accounted for by an
   occurrence of its own).
   The LOWER bound ("nothing is omitted") is the same collection in which the members of ONE connective (one and / or, one
   effect group) that are the same typed condition count once: (and (p ?x) (p ?y)) called with x = y = o, both parameters
   of type t, has the single member (p o - t).  Nothing else may be merged:
     - literals with the same atom but different types in the typed form are different members
       ((at ?lead - truck ?p) and (at ?follow - vehicle ?p) called with the same truck: two literals);
     - the same literal in two different connectives (at the top level and inside a nested (or ...)) is reported twice;
     - numeric comparisons and numeric effects are occurrences, never merged;
     - two members that are connectives are the same when they have the same connective and the same members (and contain
       no numeric comparison); two quantified conditions when also variable and type agree. *)
From Coq Require Import List String Bool PrimFloat.
From Verif Require Import Base.Str Spec.Pddl Spec.Subst.
Import ListNotations.
Open Scope string_scope.
Open Scope list_scope.

Inductive snode :=
| SNLit (l : tlit)
| SNCmp (c : cmpop * nexp * nexp)
| SNEq (e : bool * name * name)
| SNGroup (univ : option (name * name)) (isor : bool) (ms : list snode).

Definition tlit_eqb (a b : tlit) : bool :=
  Bool.eqb (tl_pos a) (tl_pos b) && atom_eqb (tl_atom a) (tl_atom b) && list_eqb String.eqb (tl_types a) (tl_types b).

Definition seq_eqb (a b : bool * name * name) : bool :=
  Bool.eqb (fst (fst a)) (fst (fst b)) && String.eqb (snd (fst a)) (snd (fst b)) && String.eqb (snd a) (snd b).

Definition sbinder_eqb (a b : option (name * name)) : bool :=
  match a, b with
  | None, None => true
  | Some x, Some y => String.eqb (fst x) (fst y) && String.eqb (snd x) (snd y)
  | _, _ => false
  end.

Fixpoint snode_eqb (a b : snode) {struct a} : bool :=
  match a, b with
  | SNLit x, SNLit y => tlit_eqb x y
  | SNEq x, SNEq y => seq_eqb x y
  | SNGroup u o ms, SNGroup u' o' ms' =>
      sbinder_eqb u u' && Bool.eqb o o' &&
      (fix all (l : list snode) : bool :=
         match l with [] => true | x :: r => existsb (snode_eqb x) ms' && all r end) ms &&
      forallb (fun y => (fix ex (l : list snode) : bool :=
                           match l with [] => false | x :: r => snode_eqb x y || ex r end) ms) ms'
  | _, _ => false
  end.

(* keep the first of several equal members *)
Fixpoint sdedupe {A} (eqb : A -> A -> bool) (l : list A) (seen : list A) : list A :=
  match l with
  | [] => []
  | x :: r => if existsb (eqb x) seen then sdedupe eqb r seen else x :: sdedupe eqb r (x :: seen)
  end.

Fixpoint scollapse (n : snode) : snode :=
  match n with
  | SNGroup u o ms => SNGroup u o (sdedupe snode_eqb (map scollapse ms) [])
  | _ => n
  end.

Fixpoint snode_lits (n : snode) : list tlit :=
  match n with
  | SNLit l => [l]
  | SNCmp _ | SNEq _ => []
  | SNGroup _ _ ms => flat_map snode_lits ms
  end.

Fixpoint snode_cmps (n : snode) : list (cmpop * nexp * nexp) :=
  match n with
  | SNCmp c => [c]
  | SNLit _ | SNEq _ => []
  | SNGroup _ _ ms => flat_map snode_cmps ms
  end.

Section Nodes.
  Variable consts : list (name * name).

  (* the instantiated, typed condition as a tree of connectives *)
  Fixpoint form_node (scope : list (name * name)) (sg : env) (f : form) : snode :=
    match f with
    | FAtom p args => SNLit (mk_lit consts scope sg true p args)
    | FNotAtom p args => SNLit (mk_lit consts scope sg false p args)
    | FEq a b => SNEq (true, subst sg a, subst sg b)
    | FNeq a b => SNEq (false, subst sg a, subst sg b)
    | FCmp c l r => SNCmp (c, subst_nexp sg l, subst_nexp sg r)
    | FAnd l => SNGroup None false (map (form_node scope sg) l)
    | FOr l => SNGroup None true (map (form_node scope sg) l)
    | FForall v ty b => SNGroup (Some (v, ty)) false [form_node ((v, ty) :: scope) (unbind v sg) b]
    end.

  (* the literals that have to be reported at least *)
  Definition form_lits_min (scope : list (name * name)) (sg : env) (f : form) : list tlit :=
    snode_lits (scollapse (form_node scope sg f)).

  (* an effect group is one set of add/delete literals *)
  Definition prim_lits_min (scope : list (name * name)) (sg : env) (ps : list prim) : list tlit :=
    sdedupe tlit_eqb (prim_lits consts scope sg ps) [].
End Nodes.
