(* What "the exported domain is the same domain" means, on the spec's own reading of PDDL text
   (Spec.Grammar / Spec.Pddl; nothing of the library's object model is used here).

   Two domains are the same up to d decimals when they declare the same vocabulary and every action has the same
   parameters, the same precondition and the same effects, where
     - the conjuncts of an 'and', the disjuncts of an 'or' and the members of an effect list are SETS
       (order and repetition are irrelevant);
     - a body that is a single condition is the conjunction of that one condition; (= a b) is (= b a);
     - two numeric constants are the same when they round to the same numeral with d decimals
       ("{:.df}" in exact arithmetic on the binary value, Base.Float.format_fixed): dpre decimals inside
       conditions, deff decimals inside numeric effects.
   Everything is compared through a canonical text. *)
From Coq Require Import List Ascii String Bool Arith PrimFloat.
From Verif Require Import Base.Str Base.Float Spec.Pddl Spec.Grammar.
Import ListNotations.
Open Scope string_scope.
Open Scope list_scope.

Infix "+++" := String.append (at level 60, right associativity).

(* ---------- sorted, duplicate-free lists of strings ---------- *)
Fixpoint insert_uniq (x : string) (l : list string) : list string :=
  match l with
  | [] => [x]
  | y :: r => if String.eqb x y then l else if String.leb x y then x :: l else y :: insert_uniq x r
  end.
Definition as_set (l : list string) : list string := fold_right insert_uniq [] l.

Definition paren (parts : list string) : string := "(" +++ join " " parts +++ ")".

Definition binop_name (o : binop) : string :=
  match o with OAdd => "+" | OSub => "-" | OMul => "*" | ODiv => "/" end.
Definition cmpop_name (c : cmpop) : string :=
  match c with CEq => "=" | CLe => "<=" | CGe => ">=" | CLt => "<" | CGt => ">" end.
Definition assignop_name (k : assignop) : string :=
  match k with AAssign => "assign" | AIncrease => "increase" | ADecrease => "decrease" end.

Fixpoint show_nexp (d : nat) (n : nexp) : string :=
  match n with
  | NNum x => format_fixed d x
  | NFl f args => paren (f :: args)
  | NBin o a b => paren [binop_name o; show_nexp d a; show_nexp d b]
  end.

Fixpoint show_form (d : nat) (f : form) : string :=
  match f with
  | FAtom p args => paren (p :: args)
  | FNotAtom p args => paren ["not"; paren (p :: args)]
  | FEq a b => if String.leb a b then paren ["="; a; b] else paren ["="; b; a]           (* equality is symmetric *)
  | FNeq a b => paren ["not"; if String.leb a b then paren ["="; a; b] else paren ["="; b; a]]
  | FCmp c l r => paren [cmpop_name c; show_nexp d l; show_nexp d r]
  | FAnd l => paren ("and" :: as_set ((fix go (l : list form) : list string :=
                                         match l with [] => [] | x :: r => show_form d x :: go r end) l))
  | FOr l => paren ("or" :: as_set ((fix go (l : list form) : list string :=
                                       match l with [] => [] | x :: r => show_form d x :: go r end) l))
  | FForall v ty b => paren ["forall"; paren [v; "-"; ty]; show_form d b]
  end.

(* a body: the conjunction of its conjuncts; a single condition is a conjunction of one *)
Definition show_body (d : nat) (f : form) : string :=
  match f with
  | FAnd _ => show_form d f
  | _ => show_form d (FAnd [f])
  end.

Definition show_prim (deff : nat) (p : prim) : string :=
  match p with
  | PAdd q args => paren (q :: args)
  | PDel q args => paren ["not"; paren (q :: args)]
  | PNum k f args rhs => paren [assignop_name k; paren (f :: args); show_nexp deff rhs]
  end.

Definition show_prims (deff : nat) (ps : list prim) : string := paren ("and" :: as_set (map (show_prim deff) ps)).

Definition show_eff (dpre deff : nat) (e : eff) : list string :=
  match e with
  | EPrims ps => map (show_prim deff) ps
  | EWhen c ps => [paren ["when"; show_body dpre c; show_prims deff ps]]
  | EForall v ty c ps => [paren ["forall"; paren [v; "-"; ty]; paren ["when"; show_body dpre c; show_prims deff ps]]]
  end.

Definition show_action (dpre deff : nat) (a : action) : string :=
  paren [a_name a;
         paren (flat_map (fun pt => [fst pt; "-"; snd pt]) (a_params a));
         show_body dpre (a_pre a);
         paren ("and" :: as_set (flat_map (show_eff dpre deff) (a_effs a)))].

(* the actions of a domain, as a set of canonical texts *)
Definition show_actions (dpre deff : nat) (d : sdomain) : list string :=
  as_set (map (show_action dpre deff) (sd_actions d)).

Fixpoint strings_eqb (a b : list string) : bool :=
  match a, b with
  | [], [] => true
  | x :: xs, y :: ys => String.eqb x y && strings_eqb xs ys
  | _, _ => false
  end.

Definition same_actions (dpre deff : nat) (d1 d2 : sdomain) : bool :=
  strings_eqb (show_actions dpre deff d1) (show_actions dpre deff d2).

(* ---------- numerals ---------- *)
(* x survives as y up to d decimals *)
Definition same_at (d : nat) (x y : float) : bool := String.eqb (format_fixed d x) (format_fixed d y).
