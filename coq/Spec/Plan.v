(* Spec of plan execution (C04): what trajectory a plan denotes, independent of the library.
   Generic in the type of states S, of steps A (ground action calls), the applicability test and the successor function;
   instantiated with Spec.Pddl.applicable / Spec.Pddl.successor by the properties.

   run_plan:  from [init], one (pre, step, post) triple per plan element, in plan order; each pre-state is the preceding
   post-state; post = successor of pre when the step is applicable (or inapplicable steps were explicitly allowed),
   otherwise the step is refused and post = pre. *)
From Coq Require Import List Bool.
Import ListNotations.

Section Trajectory.
  Variables S A : Type.
  Variable app : A -> S -> bool.
  Variable succ : A -> S -> S.
  Variable allow : bool.

  Definition step_state (a : A) (s : S) : S := if app a s || allow then succ a s else s.

  Fixpoint run_plan (s : S) (plan : list A) : list (S * A * S) :=
    match plan with
    | [] => []
    | a :: r => let s' := step_state a s in (s, a, s') :: run_plan s' r
    end.

  Definition pre (t : S * A * S) : S := fst (fst t).
  Definition act (t : S * A * S) : A := snd (fst t).
  Definition post (t : S * A * S) : S := snd t.

  (* the property, clause by clause *)
  Record is_trajectory (init : S) (plan : list A) (tr : list (S * A * S)) : Prop := {
    tr_steps : map act tr = plan;                                         (* one step per plan line, in plan order *)
    tr_first : forall t, hd_error tr = Some t -> pre t = init;             (* the first pre-state is the initial state *)
    tr_chain : forall i t u, nth_error tr i = Some t -> nth_error tr (Datatypes.S i) = Some u -> pre u = post t;
    tr_post : forall i t, nth_error tr i = Some t -> post t = step_state (act t) (pre t)
  }.

  (* direct application: refused with an error (None) exactly when inapplicable and not allowed *)
  Definition apply_direct (a : A) (s : S) : option S := if app a s || allow then Some (succ a s) else None.
End Trajectory.
