(* What C17 means, independently of how the converters are written.

   A section of a domain/problem (types, constants, predicates, functions, actions, objects, fluent
   values) is a finite map given as a list of bindings; goals, numeric goals, requirements and the
   facts under one lifted predicate are finite sets given as lists.  "The combination is the union of
   the per-agent files" means: every binding of the combination comes from a file, every binding of a
   file is in the combination, and nothing occurs twice. *)
From Coq Require Import List String Bool.
From Verif Require Import Base.Str.
Import ListNotations.
Open Scope string_scope.
Open Scope list_scope.

Section Maps.
  Context {V : Type}.
  Definition bindings := list (string * V).

  (* the files agree on shared names: a name bound in two places (of one file or of two) has one entry *)
  Definition agree (ds : list bindings) : Prop :=
    forall d e k v w, In d ds -> In e ds -> In (k, v) d -> In (k, w) e -> v = w.

  (* c is exactly the union of ds, each name once *)
  Definition union_of (ds : list bindings) (c : bindings) : Prop :=
    NoDup (map fst c) /\
    forall k v, In (k, v) c <-> exists d, In d ds /\ In (k, v) d.

  (* what remains without agreement: the names are the union of the names, each once, and every
     entry is the entry of some file *)
  Definition weak_union_of (ds : list bindings) (c : bindings) : Prop :=
    NoDup (map fst c) /\
    (forall k v, In (k, v) c -> exists d, In d ds /\ In (k, v) d) /\
    (forall d k v, In d ds -> In (k, v) d -> In k (map fst c)).

  (* equal as maps *)
  Definition map_equiv (a b : bindings) : Prop :=
    NoDup (map fst a) /\ NoDup (map fst b) /\ forall k v, In (k, v) a <-> In (k, v) b.
End Maps.

(* sets *)
Definition set_union_of (ls : list (list string)) (c : list string) : Prop :=
  NoDup c /\ forall x, In x c <-> exists l, In l ls /\ In x l.

Definition set_equiv (a b : list string) : Prop :=
  NoDup a /\ NoDup b /\ forall x, In x a <-> In x b.

(* facts: lifted predicate -> set of ground facts.  [fact_in c k x]: x is recorded under k *)
Definition fact_in (c : list (string * list string)) (k x : string) : Prop :=
  exists l, In (k, l) c /\ In x l.

Definition facts_union_of (fs : list (list (string * list string))) (c : list (string * list string)) : Prop :=
  NoDup (map fst c) /\
  (forall k l, In (k, l) c -> NoDup l) /\
  forall k x, fact_in c k x <-> exists f, In f fs /\ fact_in f k x.

Definition facts_equiv (a b : list (string * list string)) : Prop :=
  forall k x, fact_in a k x <-> fact_in b k x.

(* ---------------------------------------------------------------- decidable versions used by the
   correspondence check (proved sound in Proofs/C17_Checkers.v) *)
Definition pair_eqb (a b : string * string) : bool :=
  String.eqb (fst a) (fst b) && String.eqb (snd a) (snd b).
Definition mem_pair (kv : string * string) (d : list (string * string)) : bool :=
  existsb (pair_eqb kv) d.

Fixpoint nodup_b (l : list string) : bool :=
  match l with
  | [] => true
  | x :: r => negb (str_in x r) && nodup_b r
  end.

Definition union_of_b (ds : list (list (string * string))) (c : list (string * string)) : bool :=
  nodup_b (map fst c) &&
  forallb (fun kv => existsb (mem_pair kv) ds) c &&
  forallb (fun d => forallb (fun kv => mem_pair kv c) d) ds.

Definition weak_union_of_b (ds : list (list (string * string))) (c : list (string * string)) : bool :=
  nodup_b (map fst c) &&
  forallb (fun kv => existsb (mem_pair kv) ds) c &&
  forallb (fun d => forallb (fun kv => str_in (fst kv) (map fst c)) d) ds.

Definition agree_b (ds : list (list (string * string))) : bool :=
  let all := List.concat ds in
  forallb (fun kv => forallb (fun kw => negb (String.eqb (fst kv) (fst kw)) || String.eqb (snd kv) (snd kw)) all) all.

Definition set_union_of_b (ls : list (list string)) (c : list string) : bool :=
  nodup_b c &&
  forallb (fun x => existsb (str_in x) ls) c &&
  forallb (fun l => forallb (fun x => str_in x c) l) ls.

Definition map_equiv_b (a b : list (string * string)) : bool :=
  nodup_b (map fst a) && nodup_b (map fst b) &&
  forallb (fun kv => mem_pair kv b) a && forallb (fun kv => mem_pair kv a) b.

Definition set_equiv_b (a b : list string) : bool :=
  nodup_b a && nodup_b b && forallb (fun x => str_in x b) a && forallb (fun x => str_in x a) b.
