(* Shared spec core: PDDL 2.1 level-2 formulas, effects, states and their standard semantics.
   Independent of the library's data structures; short enough to read in minutes.
   Used by C01-C05, C08, C15, C16, C18, C20. *)
From Coq Require Import List String Bool PrimFloat.
From Verif Require Import Base.Str.
Import ListNotations.
Open Scope string_scope.
Open Scope list_scope.

Definition name := string.

(* ---------- syntax ---------- *)
Inductive binop := OAdd | OSub | OMul | ODiv.
Inductive cmpop := CEq | CLe | CGe | CLt | CGt.
Inductive assignop := AAssign | AIncrease | ADecrease.

(* a term is a name: a variable (bound by the environment) or an object/constant (itself) *)
Inductive nexp :=
| NNum (x : float)
| NFl (f : name) (args : list name)
| NBin (o : binop) (a b : nexp).

Inductive form :=
| FAtom (p : name) (args : list name)
| FNotAtom (p : name) (args : list name)
| FEq (a b : name)
| FNeq (a b : name)
| FCmp (c : cmpop) (l r : nexp)
| FAnd (l : list form)
| FOr (l : list form)
| FForall (v ty : name) (body : form).

Inductive prim :=
| PAdd (p : name) (args : list name)
| PDel (p : name) (args : list name)
| PNum (k : assignop) (f : name) (args : list name) (rhs : nexp).

Inductive eff :=
| EPrims (es : list prim)                               (* the unconditional group *)
| EWhen (c : form) (es : list prim)
| EForall (v ty : name) (c : form) (es : list prim).

(* nested induction principle for formulas *)
Section FormInd.
  Variable P : form -> Prop.
  Hypothesis HAtom : forall p a, P (FAtom p a).
  Hypothesis HNot : forall p a, P (FNotAtom p a).
  Hypothesis HEq : forall a b, P (FEq a b).
  Hypothesis HNeq : forall a b, P (FNeq a b).
  Hypothesis HCmp : forall c l r, P (FCmp c l r).
  Hypothesis HAnd : forall l, Forall P l -> P (FAnd l).
  Hypothesis HOr : forall l, Forall P l -> P (FOr l).
  Hypothesis HForall : forall v ty b, P b -> P (FForall v ty b).
  Fixpoint form_ind' (f : form) : P f :=
    let fix go (l : list form) : Forall P l :=
      match l with
      | [] => Forall_nil _
      | x :: xs => Forall_cons _ (form_ind' x) (go xs)
      end in
    match f with
    | FAtom p a => HAtom p a
    | FNotAtom p a => HNot p a
    | FEq a b => HEq a b
    | FNeq a b => HNeq a b
    | FCmp c l r => HCmp c l r
    | FAnd l => HAnd l (go l)
    | FOr l => HOr l (go l)
    | FForall v ty b => HForall v ty b (form_ind' b)
    end.
End FormInd.

(* ---------- states, environments, objects ---------- *)
Definition atom := (name * list name)%type.
Definition env := list (name * name).                    (* variable -> object *)
Record state := { facts : list atom; fluents : list (atom * float) }.

(* the declared type tree: child -> parent; 'object' is the root *)
Definition tytree := list (name * name).
Definition objects := list (name * name).                (* object -> declared type *)

Fixpoint lookup {V} (k : name) (l : list (name * V)) : option V :=
  match l with
  | [] => None
  | (k', v) :: r => if String.eqb k k' then Some v else lookup k r
  end.

Definition subst (e : env) (t : name) : name :=
  match lookup t e with Some o => o | None => t end.

Fixpoint list_eqb {A} (eqb : A -> A -> bool) (a b : list A) : bool :=
  match a, b with
  | [], [] => true
  | x :: xs, y :: ys => eqb x y && list_eqb eqb xs ys
  | _, _ => false
  end.

Definition atom_eqb (a b : atom) : bool :=
  String.eqb (fst a) (fst b) && list_eqb String.eqb (snd a) (snd b).

Definition atom_in (a : atom) (l : list atom) : bool := existsb (atom_eqb a) l.

Fixpoint fluent_get (a : atom) (l : list (atom * float)) : option float :=
  match l with
  | [] => None
  | (k, v) :: r => if atom_eqb a k then Some v else fluent_get a r
  end.

(* subtype: reflexive-transitive closure of the declared tree with 'object' as root; [fuel] bounds the
   walk (the number of declarations suffices on a forest, see Proofs/C06) *)
Fixpoint ancestor_walk (fuel : nat) (tt : tytree) (t target : name) : bool :=
  if String.eqb t target then true else
  match fuel with
  | 0 => false
  | S f =>
      if String.eqb t "object" then false else
      match lookup t tt with
      | Some parent => ancestor_walk f tt parent target
      | None => ancestor_walk f tt "object" target          (* undeclared parent-only type: child of object *)
      end
  end.
Definition subtypeb (tt : tytree) (t target : name) : bool :=
  ancestor_walk (S (S (List.length tt))) tt t target.

(* ---------- numeric semantics ---------- *)
Definition apply_binop (o : binop) (x y : float) : float :=
  match o with OAdd => x + y | OSub => x - y | OMul => x * y | ODiv => x / y end%float.

(* a fluent the state does not define reads as 0 (the properties quantify over states that define every
   fluent read; the library reads 0.0 there) *)
Fixpoint neval (e : env) (s : state) (n : nexp) : float :=
  match n with
  | NNum x => x
  | NFl f args => match fluent_get (f, map (subst e) args) (fluents s) with Some v => v | None => 0%float end
  | NBin o a b => apply_binop o (neval e s a) (neval e s b)
  end.

(* tolerance comparison: |x - y| <= eps (absolute tolerance only; eps is the library's EPSILON) *)
Definition close (eps x y : float) : bool := (abs (x - y) <=? eps)%float.

Definition cmp_holds (eps : float) (c : cmpop) (x y : float) : bool :=
  match c with
  | CEq => close eps x y
  | CLe => close eps x y || (x <? y)%float
  | CGe => close eps x y || (y <? x)%float
  | CLt => (x <? y)%float
  | CGt => (y <? x)%float
  end.

(* ---------- formula satisfaction ---------- *)
Section Holds.
  Variable eps : float.
  Variable tt : tytree.
  Variable objs : objects.

  Definition objects_of_type (ty : name) : list name :=
    map fst (filter (fun o => subtypeb tt (snd o) ty) objs).

  Fixpoint holds (e : env) (s : state) (f : form) : bool :=
    match f with
    | FAtom p args => atom_in (p, map (subst e) args) (facts s)
    | FNotAtom p args => negb (atom_in (p, map (subst e) args) (facts s))
    | FEq a b => String.eqb (subst e a) (subst e b)
    | FNeq a b => negb (String.eqb (subst e a) (subst e b))
    | FCmp c l r => cmp_holds eps c (neval e s l) (neval e s r)
    | FAnd l => forallb (holds e s) l
    | FOr l => existsb (holds e s) l
    | FForall v ty body =>
        forallb (fun o => holds ((v, o) :: e) s body) (objects_of_type ty)
    end.

  (* ---------- effects: what fires, evaluated in the PRE-state ---------- *)
  Inductive gprim :=
  | GAdd (a : atom)
  | GDel (a : atom)
  | GSet (a : atom) (v : float).

  Definition ground_prim (e : env) (s : state) (p : prim) : gprim :=
    match p with
    | PAdd q args => GAdd (q, map (subst e) args)
    | PDel q args => GDel (q, map (subst e) args)
    | PNum k f args rhs =>
        let a := (f, map (subst e) args) in
        let old := match fluent_get a (fluents s) with Some v => v | None => 0%float end in
        let v := neval e s rhs in
        GSet a (match k with AAssign => v | AIncrease => old + v | ADecrease => old - v end)%float
    end.

  (* one list of primitive effects per effect GROUP that fires *)
  Definition fires (e : env) (s : state) (ef : eff) : list (list gprim) :=
    match ef with
    | EPrims es => [map (ground_prim e s) es]
    | EWhen c es => if holds e s c then [map (ground_prim e s) es] else []
    | EForall v ty c es =>
        flat_map (fun o => let e' := (v, o) :: e in
                           if holds e' s c then [map (ground_prim e' s) es] else [])
                 (objects_of_type ty)
    end.
End Holds.

(* ---------- successor ---------- *)
Definition remove_atom (a : atom) (l : list atom) : list atom := filter (fun x => negb (atom_eqb a x)) l.
Definition add_atom (a : atom) (l : list atom) : list atom := if atom_in a l then l else l ++ [a].

Fixpoint fluent_set (a : atom) (v : float) (l : list (atom * float)) : list (atom * float) :=
  match l with
  | [] => [(a, v)]
  | (k, w) :: r => if atom_eqb a k then (k, v) :: r else (k, w) :: fluent_set a v r
  end.

Definition is_del (g : gprim) : bool := match g with GDel _ => true | _ => false end.

Definition apply_gprim (s : state) (g : gprim) : state :=
  match g with
  | GAdd a => {| facts := add_atom a (facts s); fluents := fluents s |}
  | GDel a => {| facts := remove_atom a (facts s); fluents := fluents s |}
  | GSet a v => {| facts := facts s; fluents := fluent_set a v (fluents s) |}
  end.

(* a group: its deletes, then its adds and numeric updates (values were computed in the pre-state) *)
Definition apply_group (s : state) (g : list gprim) : state :=
  fold_left apply_gprim (filter (fun x => negb (is_del x)) g) (fold_left apply_gprim (filter is_del g) s).

Definition succ (s : state) (groups : list (list gprim)) : state := fold_left apply_group groups s.

(* set-like equality of states (facts as sets, fluents as finite maps, values bit-equal is decided by the caller's eqb) *)
Definition facts_subset (a b : list atom) : bool := forallb (fun x => atom_in x b) a.
Definition facts_equiv (a b : list atom) : bool := facts_subset a b && facts_subset b a.

(* ---------- actions ---------- *)
Record action := {
  a_name : name;
  a_params : list (name * name);          (* parameter -> type, in order *)
  a_pre : form;
  a_effs : list eff
}.

Definition bind_args (a : action) (args : list name) : env := combine (map fst (a_params a)) args.

Definition applicable (eps : float) (tt : tytree) (objs : objects) (a : action) (args : list name) (s : state) : bool :=
  holds eps tt objs (bind_args a args) s (a_pre a).

Definition all_groups (eps : float) (tt : tytree) (objs : objects) (a : action) (args : list name) (s : state)
  : list (list gprim) :=
  flat_map (fires eps tt objs (bind_args a args) s) (a_effs a).

Definition successor (eps : float) (tt : tytree) (objs : objects) (a : action) (args : list name) (s : state) : state :=
  succ s (all_groups eps tt objs a args s).

(* ---------- consistency of simultaneously firing effects (the properties quantify over consistent ones) ---------- *)
Definition adds_of (g : list gprim) : list atom := flat_map (fun x => match x with GAdd a => [a] | _ => [] end) g.
Definition dels_of (g : list gprim) : list atom := flat_map (fun x => match x with GDel a => [a] | _ => [] end) g.
Definition sets_of (g : list gprim) : list atom := flat_map (fun x => match x with GSet a _ => [a] | _ => [] end) g.

Fixpoint no_dup_atoms (l : list atom) : bool :=
  match l with [] => true | a :: r => negb (atom_in a r) && no_dup_atoms r end.

(* no fluent is assigned twice; no atom is added by one group and deleted by another *)
Fixpoint cross_ok (groups : list (list gprim)) : bool :=
  match groups with
  | [] => true
  | g :: rest =>
      forallb (fun h => forallb (fun a => negb (atom_in a (dels_of h))) (adds_of g) &&
                        forallb (fun a => negb (atom_in a (adds_of h))) (dels_of g)) rest
      && cross_ok rest
  end.

Definition consistent (groups : list (list gprim)) : bool :=
  no_dup_atoms (flat_map sets_of groups) && cross_ok groups.
