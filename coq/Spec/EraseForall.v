(* Spec for the C02 behaviour of an Operator built WITHOUT an object table (problem_objects=None, which is not the empty table):
   the library cannot instantiate a universal condition there, logs "Did not receive the problem objects so cannot validate the
   universal preconditions" and counts the condition as true; everything else is evaluated as usual.
   On the spec's own formulas: the precondition with every forall replaced by the empty conjunction. *)
From Coq Require Import List String Bool.
From Verif Require Import Spec.Pddl Spec.Subst.
Import ListNotations.

Fixpoint erase_forall (f : form) : form :=
  match f with
  | FAnd l => FAnd (map erase_forall l)
  | FOr l => FOr (map erase_forall l)
  | FForall _ _ _ => FAnd []
  | _ => f
  end.
