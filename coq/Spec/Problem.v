(* Spec of a PDDL problem text over a given vocabulary (C05, C09): what the text declares ([read_problem]),
   when it is well formed ([wf_problem]) and what a faithful parse must contain ([pdump], [pdump_equiv]).
   Independent of the library's data structures and of Model/Problem.v.

   Grammar understood by [read_problem] (PDDL 2.1 BNF order; anything else is [None] = outside the fragment):
     (define (problem N) (:domain D) [(:objects typed-list)] (:init item...) (:goal (and gitem...)) [(:metric ...)])
     typed-list : names, "- type" closes a group, trailing names are of type object, one-level (:private typed-list)
                  groups between complete groups; object names pairwise distinct
     item       : (p a...)  |  (= (f a...) numeral)
     gitem      : (p a...)  |  (cmp nexp nexp) with cmp in = <= >= < > and not both operands bare numerals
   A [vocab] is the declared vocabulary of a parsed domain: name, type tree (child -> parent), constants and the
   ordered typed signatures of predicates and functions. *)
From Coq Require Import List Ascii String Bool Arith PrimFloat.
From Verif Require Import Base.Str Base.Sexp Base.Float Spec.Pddl Spec.Grammar.
Import ListNotations.
Open Scope string_scope.
Open Scope list_scope.

Record vocab := {
  v_name : name;
  v_types : tytree;
  v_consts : list (name * name);
  v_preds : list (name * list (name * name));
  v_funcs : list (name * list (name * name))
}.

Record sproblem := {
  sp_name : name;
  sp_domain : name;
  sp_objects : list (name * name);               (* object -> declared type, in declaration order *)
  sp_facts : list atom;                          (* as listed *)
  sp_fluents : list (atom * string);             (* as listed, with the numeral token *)
  sp_goal : list atom;                           (* as listed *)
  sp_goal_num : list (cmpop * nexp * nexp)       (* as listed *)
}.

(* ---------- reading ---------- *)
Fixpoint has_dup_name (l : list name) : bool :=
  match l with [] => false | x :: r => str_in x r || has_dup_name r end.

(* a flat typed list of names; a dash needs at least one name before it and a type after it *)
Fixpoint read_names (toks : list string) (pending : list name) : option (list (name * name)) :=
  match toks with
  | [] => Some (map (fun p => (p, "object")) pending)
  | t :: rest =>
      if String.eqb t "-" then
        match pending, rest with
        | _ :: _, ty :: rest' =>
            match read_names rest' [] with
            | Some r => Some (map (fun p => (p, ty)) pending ++ r)
            | None => None
            end
        | _, _ => None
        end
      else read_names rest (pending ++ [t])
  end.

(* the same over the elements of (:objects ...), with (:private typed-list) groups between complete groups *)
Fixpoint read_objs (l : list sexp) (pending : list name) : option (list (name * name)) :=
  match l with
  | [] => Some (map (fun p => (p, "object")) pending)
  | Atom t :: rest =>
      if String.eqb t "-" then
        match pending, rest with
        | _ :: _, Atom ty :: rest' =>
            match read_objs rest' [] with
            | Some r => Some (map (fun p => (p, ty)) pending ++ r)
            | None => None
            end
        | _, _ => None
        end
      else read_objs rest (pending ++ [t])
  | SList (Atom k :: inner) :: rest =>
      match pending with
      | [] =>
          if String.eqb k ":private" then
            match atom_names inner with
            | Some toks =>
                match read_names toks [], read_objs rest [] with
                | Some a, Some b => Some (a ++ b)
                | _, _ => None
                end
            | None => None
            end
          else None
      | _ => None
      end
  | SList _ :: _ => None
  end.

Definition read_init_item (e : sexp) : option (atom + (atom * string)) :=
  match e with
  | SList (Atom h :: rest) =>
      if String.eqb h "=" then
        match rest with
        | [SList (Atom f :: args); Atom v] =>
            match atom_names args with Some a => Some (inr ((f, a), v)) | None => None end
        | _ => None
        end
      else match atom_names rest with Some a => Some (inl (h, a)) | None => None end
  | _ => None
  end.

Definition is_atom (e : sexp) : bool := match e with Atom _ => true | SList _ => false end.

Section Read.
  Variable num : numreader.

  Definition read_goal_item (e : sexp) : option (atom + (cmpop * nexp * nexp)) :=
    match e with
    | SList (Atom h :: rest) =>
        match read_cmpop h with
        | Some c =>
            match rest with
            | [l; r] =>
                if is_atom l && is_atom r then None
                else match read_nexp num l, read_nexp num r with
                     | Some x, Some y => Some (inr (c, x, y))
                     | _, _ => None
                     end
            | _ => None
            end
        | None => match atom_names rest with Some a => Some (inl (h, a)) | None => None end
        end
    | _ => None
    end.

  Definition lefts {A B} (l : list (A + B)) : list A := flat_map (fun x => match x with inl a => [a] | inr _ => [] end) l.
  Definition rights {A B} (l : list (A + B)) : list B := flat_map (fun x => match x with inl _ => [] | inr b => [b] end) l.

  (* the sections after (:domain D) *)
  Definition read_body (n d : name) (rest : list sexp) : option sproblem :=
    let (objs, rest1) :=
      match rest with
      | SList (Atom k :: toks) :: r => if String.eqb k ":objects" then (read_objs toks [], r) else (Some [], rest)
      | _ => (Some [], rest)
      end in
    match objs, rest1 with
    | Some os, SList (Atom ki :: items) :: SList [Atom kg; SList (Atom ka :: gitems)] :: tail =>
        if String.eqb ki ":init" && String.eqb kg ":goal" && String.eqb ka "and"
           && negb (has_dup_name (map fst os))
           && match tail with
              | [] => true
              | [SList (Atom km :: _)] => String.eqb km ":metric"
              | _ => false
              end
        then
          match all_some (map read_init_item items), all_some (map read_goal_item gitems) with
          | Some its, Some gs =>
              Some {| sp_name := n; sp_domain := d; sp_objects := os;
                      sp_facts := lefts its; sp_fluents := rights its;
                      sp_goal := lefts gs; sp_goal_num := rights gs |}
          | _, _ => None
          end
        else None
    | _, _ => None
    end.

  Definition read_problem (e : sexp) : option sproblem :=
    match e with
    | SList (Atom kd :: SList [Atom kp; Atom n] :: SList [Atom kdom; Atom d] :: rest) =>
        if String.eqb kd "define" && String.eqb kp "problem" && String.eqb kdom ":domain"
        then read_body n d rest else None
    | _ => None
    end.

  (* ---------- well-formedness ---------- *)
  Section Wf.
    Variable v : vocab.

    Definition type_declared (t : name) : bool :=
      String.eqb t "object" || match lookup t (v_types v) with Some _ => true | None => false end.

    (* a name denotes a constant of the domain or an object of the problem *)
    Definition type_of (objs : list (name * name)) (n : name) : option name :=
      match lookup n (v_consts v) with Some t => Some t | None => lookup n objs end.

    Fixpoint args_ok (objs : list (name * name)) (args : list name) (params : list (name * name)) : bool :=
      match args, params with
      | [], [] => true
      | a :: ar, p :: pr =>
          match type_of objs a with
          | Some t => subtypeb (v_types v) t (snd p) && args_ok objs ar pr
          | None => false
          end
      | _, _ => false                                        (* wrong arity *)
      end.

    Definition atom_ok (decls : list (name * list (name * name))) (objs : list (name * name)) (a : atom) : bool :=
      match lookup (fst a) decls with
      | Some params => args_ok objs (snd a) params
      | None => false                                        (* undeclared predicate / function *)
      end.

    Fixpoint nexp_ok (objs : list (name * name)) (n : nexp) : bool :=
      match n with
      | NNum _ => true
      | NFl f args => atom_ok (v_funcs v) objs (f, args)
      | NBin _ a b => nexp_ok objs a && nexp_ok objs b
      end.

    Definition wf_sproblem (sp : sproblem) : bool :=
      let objs := sp_objects sp in
      String.eqb (sp_domain sp) (v_name v)
      && forallb (fun o => type_declared (snd o)) objs
      && forallb (atom_ok (v_preds v) objs) (sp_facts sp)
      && forallb (fun fl => atom_ok (v_funcs v) objs (fst fl) &&
                            match num (snd fl) with Some _ => true | None => false end) (sp_fluents sp)
      && forallb (atom_ok (v_preds v) objs) (sp_goal sp)
      && forallb (fun g => match g with (_, l, r) => nexp_ok objs l && nexp_ok objs r end) (sp_goal_num sp).

    Definition wf_problem (e : sexp) : bool :=
      match read_problem e with Some sp => wf_sproblem sp | None => false end.
  End Wf.
End Read.

(* ---------- the observables of a parsed problem ---------- *)
Inductive gtree :=
| GNum (x : float)
| GFl (f : name) (args : list name)
| GOp (op : string) (l r : gtree).

Record pdump := {
  pd_name : name;
  pd_objects : list (name * name);           (* in the order of the object table *)
  pd_facts : list atom;                      (* a set *)
  pd_fluents : list (atom * float);          (* a finite map; an earlier entry shadows a later one *)
  pd_goal : list atom;                       (* in order *)
  pd_goal_num : list gtree                   (* a multiset *)
}.

Definition binop_name (o : binop) : string :=
  match o with OAdd => "+" | OSub => "-" | OMul => "*" | ODiv => "/" end.
Definition cmpop_name (c : cmpop) : string :=
  match c with CEq => "=" | CLe => "<=" | CGe => ">=" | CLt => "<" | CGt => ">" end.

Fixpoint gtree_of_nexp (n : nexp) : gtree :=
  match n with
  | NNum x => GNum x
  | NFl f args => GFl f args
  | NBin o a b => GOp (binop_name o) (gtree_of_nexp a) (gtree_of_nexp b)
  end.

Definition gtree_of_goal (g : cmpop * nexp * nexp) : gtree :=
  match g with (c, l, r) => GOp (cmpop_name c) (gtree_of_nexp l) (gtree_of_nexp r) end.

(* what the text says: the LAST assignment of a fluent is its value (reversed so that "earlier shadows later") *)
Definition spec_dump (num : numreader) (sp : sproblem) : pdump :=
  {| pd_name := sp_name sp;
     pd_objects := sp_objects sp;
     pd_facts := sp_facts sp;
     pd_fluents := rev (flat_map (fun fl => match num (snd fl) with Some x => [(fst fl, x)] | None => [] end)
                                 (sp_fluents sp));
     pd_goal := sp_goal sp;
     pd_goal_num := map gtree_of_goal (sp_goal_num sp) |}.

(* ---------- equality of observables ---------- *)
(* numerals: bit equal (all NaNs identified) *)
Fixpoint gtree_eqb (a b : gtree) : bool :=
  match a, b with
  | GNum x, GNum y => float_beq x y
  | GFl f xs, GFl g ys => atom_eqb (f, xs) (g, ys)
  | GOp o l r, GOp p l' r' => String.eqb o p && gtree_eqb l l' && gtree_eqb r r'
  | _, _ => false
  end.

Definition pair_eqb (a b : name * name) : bool := String.eqb (fst a) (fst b) && String.eqb (snd a) (snd b).

Definition fluent_keys (l : list (atom * float)) : list atom := map fst l.

Definition fluents_equiv (a b : list (atom * float)) : bool :=
  let same k := match fluent_get k a, fluent_get k b with
                | Some x, Some y => float_beq x y
                | None, None => true
                | _, _ => false
                end in
  forallb same (fluent_keys a) && forallb same (fluent_keys b).

(* multiset equality by removing one matching element at a time *)
Fixpoint remove_first (x : gtree) (l : list gtree) : option (list gtree) :=
  match l with
  | [] => None
  | y :: r => if gtree_eqb x y then Some r
              else match remove_first x r with Some r' => Some (y :: r') | None => None end
  end.
Fixpoint multiset_eqb (a b : list gtree) : bool :=
  match a with
  | [] => match b with [] => true | _ => false end
  | x :: r => match remove_first x b with Some b' => multiset_eqb r b' | None => false end
  end.

Definition pdump_equiv (a b : pdump) : bool :=
  String.eqb (pd_name a) (pd_name b)
  && list_eqb pair_eqb (pd_objects a) (pd_objects b)
  && facts_equiv (pd_facts a) (pd_facts b)
  && fluents_equiv (pd_fluents a) (pd_fluents b)
  && list_eqb atom_eqb (pd_goal a) (pd_goal b)
  && multiset_eqb (pd_goal_num a) (pd_goal_num b).
