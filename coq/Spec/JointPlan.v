(* Spec for C15: what it means that a list of joint actions is a faithful regrouping of a sequential
   multi-agent plan.  Independent of the converter's data structures; built on Spec.Pddl only.

   - a call is an action name with its arguments; a joint action is a list of calls, one slot per agent, the
     idle slots holding the call "nop";
   - the executing agent of a call is its first argument that names an agent;
   - structure: slots, per-agent order, every action exactly once, no empty step;
   - interpreter: the sequential run, and the joint run in which the members of a step are all applicable in the
     step's pre-state, pairwise non-interfering, and fire simultaneously (every condition and every numeric
     right-hand side read in the pre-state);
   - non-interference (PDDL 2.1, "no moving targets", on ground footprints): no atom added by one and deleted by
     the other, no atom read by one (precondition or effect condition) and added or deleted by the other, no fluent
     written by both, no fluent read by one (precondition, effect condition, right-hand side) and written by the other.
     The footprint keeps what the PRECONDITION reads apart from what the EFFECTS read (conditions of conditional
     effects, right-hand sides): [effects_compatible] is non-interference without the precondition clauses — it is
     what makes the outcome independent of the order in which the members are applied. *)
From Coq Require Import List String Bool Arith PrimFloat Permutation.
From Verif Require Import Base.Str Spec.Pddl.
Import ListNotations.
Open Scope string_scope.
Open Scope list_scope.

Definition call := (name * list name)%type.
Definition nop_name : name := "nop".
Definition nop : call := (nop_name, []).
Definition is_nop (c : call) : bool := String.eqb (fst c) nop_name.
Definition joint := list call.
Definition members (j : joint) : list call := filter (fun c => negb (is_nop c)) j.

(* ---------- who executes a call ---------- *)
Definition executor (agents : list name) (c : call) : option name :=
  find (fun p => str_in p agents) (snd c).

Definition executed_by (agents : list name) (ag : name) (c : call) : bool :=
  match executor agents c with Some a => String.eqb a ag | None => false end.

Definition by_agent (agents : list name) (ag : name) (l : list call) : list call :=
  filter (executed_by agents ag) l.

(* ---------- structure of the regrouping ---------- *)
Definition slot_ok (agents : list name) (ag : name) (c : call) : Prop :=
  c = nop \/ (is_nop c = false /\ executor agents c = Some ag).

Record structure_ok (agents : list name) (plan : list call) (js : list joint) : Prop := {
  (* one slot per agent, in the given agent order; a slot holds nop or an action executed by that agent *)
  st_slots : Forall (fun j => Forall2 (slot_ok agents) agents j) js;
  (* at most one action per agent per step *)
  st_one : Forall (fun j => forall ag, List.length (by_agent agents ag (members j)) <= 1) js;
  (* each agent's actions, read step by step, are its actions of the plan in their original order *)
  st_order : forall ag, by_agent agents ag (List.concat (map members js)) = by_agent agents ag plan;
  (* every action exactly once *)
  st_once : Permutation (List.concat (map members js)) plan;
  (* no step is all-nop *)
  st_nonempty : Forall (fun j => members j <> []) js
}.

(* the same, decidable (the check's oracle; Proofs/C15_Oracle.v: structure_okb = true -> structure_ok) *)
Definition call_eqb (a b : call) : bool := String.eqb (fst a) (fst b) && list_eqb String.eqb (snd a) (snd b).

Fixpoint forall2b {A B} (p : A -> B -> bool) (a : list A) (b : list B) : bool :=
  match a, b with
  | [], [] => true
  | x :: a', y :: b' => p x y && forall2b p a' b'
  | _, _ => false
  end.

Definition slot_okb (agents : list name) (ag : name) (c : call) : bool :=
  call_eqb c nop || (negb (is_nop c) && executed_by agents ag c).

Definition count_call (c : call) (l : list call) : nat := List.length (filter (call_eqb c) l).

Definition structure_okb (agents : list name) (plan : list call) (js : list joint) : bool :=
  let out := List.concat (map members js) in
  forallb (fun j => forall2b (slot_okb agents) agents j) js &&
  forallb (fun j => forallb (fun ag => Nat.leb (List.length (by_agent agents ag (members j))) 1) agents) js &&
  forallb (fun ag => list_eqb call_eqb (by_agent agents ag out) (by_agent agents ag plan)) agents &&
  (forallb (fun x => Nat.eqb (count_call x out) (count_call x plan)) plan &&
   forallb (fun x => Nat.eqb (count_call x out) (count_call x plan)) out) &&
  forallb (fun j => match members j with [] => false | _ => true end) js.

(* ---------- the interpreter ---------- *)
Record jworld := { jw_eps : float; jw_tt : tytree; jw_objs : objects; jw_actions : list action }.

Definition find_action (w : jworld) (n : name) : option action :=
  find (fun a => String.eqb (a_name a) n) (jw_actions w).

Definition app (w : jworld) (s : state) (c : call) : bool :=
  match find_action w (fst c) with
  | Some a => applicable (jw_eps w) (jw_tt w) (jw_objs w) a (snd c) s
  | None => false
  end.

Definition groups_of (w : jworld) (s : state) (c : call) : list (list gprim) :=
  match find_action w (fst c) with
  | Some a => all_groups (jw_eps w) (jw_tt w) (jw_objs w) a (snd c) s
  | None => []
  end.

Definition step (w : jworld) (s : state) (c : call) : state := succ s (groups_of w s c).

Fixpoint seq_run (w : jworld) (s : state) (plan : list call) : option state :=
  match plan with
  | [] => Some s
  | c :: r => if app w s c then seq_run w (step w s c) r else None
  end.

(* ---------- ground footprints and non-interference ---------- *)
Section Footprint.
  Variable tt : tytree.
  Variable objs : objects.

  Fixpoint nexp_fluents (e : env) (n : nexp) : list atom :=
    match n with
    | NNum _ => []
    | NFl f args => [(f, map (subst e) args)]
    | NBin _ a b => nexp_fluents e a ++ nexp_fluents e b
    end.

  Fixpoint form_atoms (e : env) (f : form) : list atom :=
    match f with
    | FAtom p a => [(p, map (subst e) a)]
    | FNotAtom p a => [(p, map (subst e) a)]
    | FEq _ _ | FNeq _ _ | FCmp _ _ _ => []
    | FAnd l => flat_map (form_atoms e) l
    | FOr l => flat_map (form_atoms e) l
    | FForall v ty b => flat_map (fun o => form_atoms ((v, o) :: e) b) (objects_of_type tt objs ty)
    end.

  Fixpoint form_fluents (e : env) (f : form) : list atom :=
    match f with
    | FAtom _ _ | FNotAtom _ _ | FEq _ _ | FNeq _ _ => []
    | FCmp _ l r => nexp_fluents e l ++ nexp_fluents e r
    | FAnd l => flat_map (form_fluents e) l
    | FOr l => flat_map (form_fluents e) l
    | FForall v ty b => flat_map (fun o => form_fluents ((v, o) :: e) b) (objects_of_type tt objs ty)
    end.

  Record footprint := {
    fp_pre_atoms : list atom;     (* atoms read by the precondition *)
    fp_pre_fluents : list atom;   (* fluents read by the precondition *)
    fp_eff_atoms : list atom;     (* atoms read by the conditions of conditional effects *)
    fp_eff_fluents : list atom;   (* fluents read by effect conditions and right-hand sides *)
    fp_adds : list atom;
    fp_dels : list atom;
    fp_writes : list atom
  }.

  Definition fp_empty : footprint :=
    {| fp_pre_atoms := []; fp_pre_fluents := []; fp_eff_atoms := []; fp_eff_fluents := [];
       fp_adds := []; fp_dels := []; fp_writes := [] |}.

  Definition fp_union (x y : footprint) : footprint :=
    {| fp_pre_atoms := fp_pre_atoms x ++ fp_pre_atoms y; fp_pre_fluents := fp_pre_fluents x ++ fp_pre_fluents y;
       fp_eff_atoms := fp_eff_atoms x ++ fp_eff_atoms y; fp_eff_fluents := fp_eff_fluents x ++ fp_eff_fluents y;
       fp_adds := fp_adds x ++ fp_adds y; fp_dels := fp_dels x ++ fp_dels y;
       fp_writes := fp_writes x ++ fp_writes y |}.

  Definition prim_fp (e : env) (p : prim) : footprint :=
    match p with
    | PAdd q a => {| fp_pre_atoms := []; fp_pre_fluents := []; fp_eff_atoms := []; fp_eff_fluents := [];
                     fp_adds := [(q, map (subst e) a)]; fp_dels := []; fp_writes := [] |}
    | PDel q a => {| fp_pre_atoms := []; fp_pre_fluents := []; fp_eff_atoms := []; fp_eff_fluents := [];
                     fp_adds := []; fp_dels := [(q, map (subst e) a)]; fp_writes := [] |}
    | PNum _ f a rhs => {| fp_pre_atoms := []; fp_pre_fluents := []; fp_eff_atoms := []; fp_eff_fluents := nexp_fluents e rhs;
                           fp_adds := []; fp_dels := []; fp_writes := [(f, map (subst e) a)] |}
    end.

  Definition prims_fp (e : env) (ps : list prim) : footprint :=
    fold_right (fun p acc => fp_union (prim_fp e p) acc) fp_empty ps.

  (* a condition of a conditional effect *)
  Definition cond_fp (e : env) (c : form) : footprint :=
    {| fp_pre_atoms := []; fp_pre_fluents := []; fp_eff_atoms := form_atoms e c; fp_eff_fluents := form_fluents e c;
       fp_adds := []; fp_dels := []; fp_writes := [] |}.

  (* the precondition *)
  Definition pre_fp (e : env) (c : form) : footprint :=
    {| fp_pre_atoms := form_atoms e c; fp_pre_fluents := form_fluents e c; fp_eff_atoms := []; fp_eff_fluents := [];
       fp_adds := []; fp_dels := []; fp_writes := [] |}.

  Definition eff_fp (e : env) (ef : eff) : footprint :=
    match ef with
    | EPrims es => prims_fp e es
    | EWhen c es => fp_union (cond_fp e c) (prims_fp e es)
    | EForall v ty c es =>
        fold_right (fun o acc => let e' := (v, o) :: e in fp_union (fp_union (cond_fp e' c) (prims_fp e' es)) acc)
                   fp_empty (objects_of_type tt objs ty)
    end.

  Definition action_fp (a : action) (args : list name) : footprint :=
    let e := bind_args a args in
    fp_union (pre_fp e (a_pre a)) (fold_right (fun ef acc => fp_union (eff_fp e ef) acc) fp_empty (a_effs a)).

  Definition disjoint (x y : list atom) : bool := forallb (fun a => negb (atom_in a y)) x.

  Definition fp_changed (x : footprint) : list atom := fp_adds x ++ fp_dels x.

  (* the outcome does not depend on the order: nothing one changes is changed differently or read by the effects of the other *)
  Definition fp_effects_compatible (x y : footprint) : bool :=
    disjoint (fp_adds x) (fp_dels y) && disjoint (fp_dels x) (fp_adds y) &&
    disjoint (fp_eff_atoms x) (fp_changed y) && disjoint (fp_eff_atoms y) (fp_changed x) &&
    disjoint (fp_writes x) (fp_writes y) &&
    disjoint (fp_eff_fluents x) (fp_writes y) && disjoint (fp_eff_fluents y) (fp_writes x).

  (* nothing a precondition relies on is changed by the other *)
  Definition fp_preconditions_untouched (x y : footprint) : bool :=
    disjoint (fp_pre_atoms x) (fp_changed y) && disjoint (fp_pre_atoms y) (fp_changed x) &&
    disjoint (fp_pre_fluents x) (fp_writes y) && disjoint (fp_pre_fluents y) (fp_writes x).

  Definition fp_non_interfering (x y : footprint) : bool :=
    fp_effects_compatible x y && fp_preconditions_untouched x y.
End Footprint.

Definition call_fp (w : jworld) (c : call) : footprint :=
  match find_action w (fst c) with
  | Some a => action_fp (jw_tt w) (jw_objs w) a (snd c)
  | None => fp_empty
  end.

Definition non_interfering (w : jworld) (a b : call) : bool :=
  fp_non_interfering (call_fp w a) (call_fp w b).
Definition effects_compatible (w : jworld) (a b : call) : bool :=
  fp_effects_compatible (call_fp w a) (call_fp w b).

Fixpoint pairwise {A} (r : A -> A -> bool) (l : list A) : bool :=
  match l with
  | [] => true
  | x :: xs => forallb (r x) xs && pairwise r xs
  end.

(* a joint step is defined when every member is applicable in the pre-state and the members do not interfere;
   then all their effects, read in the pre-state, are applied together *)
Definition joint_ok (w : jworld) (s : state) (j : joint) : bool :=
  forallb (app w s) (members j) && pairwise (non_interfering w) (members j).

Definition joint_step (w : jworld) (s : state) (j : joint) : state :=
  succ s (flat_map (groups_of w s) (members j)).

Fixpoint joint_run (w : jworld) (s : state) (js : list joint) : option state :=
  match js with
  | [] => Some s
  | j :: r => if joint_ok w s j then joint_run w (joint_step w s j) r else None
  end.

(* states as values: facts as a set, fluents as a finite map; numeric values compared by [feq] *)
Definition fluents_sub (feq : float -> float -> bool) (a b : list (atom * float)) : bool :=
  forallb (fun kv => match fluent_get (fst kv) b with Some v => feq v (snd kv) | None => false end) a.
Definition state_eqv (feq : float -> float -> bool) (a b : state) : bool :=
  facts_equiv (facts a) (facts b) && fluents_sub feq (fluents a) (fluents b) && fluents_sub feq (fluents b) (fluents a).

(* the property: the regrouping is structurally faithful, every step is a well-defined joint action, and both
   runs end in the same state *)
Definition sound_regrouping (feq : float -> float -> bool) (w : jworld) (s0 : state) (plan : list call) (js : list joint) : Prop :=
  match seq_run w s0 plan with
  | None => True                                    (* not a valid plan: outside the quantifier *)
  | Some fin => match joint_run w s0 js with
                | Some fin' => state_eqv feq fin' fin = true
                | None => False
                end
  end.

(* ---------- plan files ----------
   A plan file is any text in which every action is written "(name arg ... arg)": the tokens are non-empty runs of
   word characters, '+', '?' and '-', separated by white space (blanks, tabs, line breaks), optionally padded inside the
   parentheses; between the actions stands ANY text without an opening parenthesis (step numbers, time stamps, line
   breaks, durations in brackets).  The converter lower-cases the tokens. *)
From Coq Require Import Ascii NArith.
Open Scope char_scope.
Definition tok_char (c : ascii) : bool :=
  let n := N_of_ascii c in
  (((48 <=? n) && (n <=? 57)) || ((65 <=? n) && (n <=? 90)) || ((97 <=? n) && (n <=? 122)))%N
  || Ascii.eqb c "_" || Ascii.eqb c "+" || Ascii.eqb c "?" || Ascii.eqb c "-".
Close Scope char_scope.

Record plan_line := {
  pl_before : text;                       (* anything without '(' *)
  pl_lead : text;                         (* white space after '(' *)
  pl_name : text;
  pl_args : list (text * text);           (* (separator, token) *)
  pl_trail : text                         (* white space before ')' *)
}.

Definition all_ws (t : text) : Prop := Forall (fun c => is_ws c = true) t.
Definition is_token (t : text) : Prop := t <> [] /\ Forall (fun c => tok_char c = true) t.

Definition plan_line_ok (l : plan_line) : Prop :=
  Forall (fun c => c <> LP) (pl_before l) /\ all_ws (pl_lead l) /\ is_token (pl_name l) /\
  Forall (fun st => fst st <> [] /\ all_ws (fst st) /\ is_token (snd st)) (pl_args l) /\ all_ws (pl_trail l).

Definition line_body (l : plan_line) : text :=
  pl_lead l ++ pl_name l ++ flat_map (fun st => fst st ++ snd st) (pl_args l) ++ pl_trail l.

Definition render_plan (ls : list plan_line) (final : text) : text :=
  flat_map (fun l => pl_before l ++ LP :: line_body l ++ [RP]) ls ++ final.

Definition line_call (l : plan_line) : call :=
  (t2s (lower_text (pl_name l)), map (fun st => t2s (lower_text (snd st))) (pl_args l)).
