(* What the (:objects ...) section of ANY token tree declares (C05): beyond the grammar of Spec/Problem.v, which asks
   for pairwise distinct names and one-level (:private ...) groups between complete groups, the library's parser also
   accepts object lists that declare a name more than once and groups nested to any depth, in any place.  This file
   says what such a section means; Proofs/C05_AnyObjects.v proves that the parser computes exactly this, so that
   every text the parser accepts is covered by a statement.

   [groups_sx e]  the typed groups the section makes, in the order in which they take effect:
       names ... - ty     a group of type ty (the names collected since the last group was closed);
       names at the end   a group of type object;
       ( head ... )       a nested list - whatever its head is, (:private ...) in practice - is a typed list of its own:
                          its groups (its own trailing names being objects) take effect where the list STANDS, and the
                          names pending before it stay pending (they are closed by the next dash after it);
       None               a dash that is not followed by a type name.
   [decl_pairs gs]  the single declarations (name, type) in that order.
   [obj_table ds]   the object table these declarations leave: every declared name ONCE, in the order of the FIRST
                    declarations, with the type of its LAST declaration.
   [objects_of known e]  the table of the section, provided every type written after a dash is known.
   [objects_text os]     the section body "n1 - t1 n2 - t2 ..." (the form ProblemExporter writes): the normal form. *)
From Coq Require Import List Ascii String Bool Arith.
From Verif Require Import Base.Str Base.Sexp Spec.Pddl Spec.Grammar Spec.Problem.
Import ListNotations.
Open Scope string_scope.
Open Scope list_scope.

Definition ogroup := (list name * name)%type.

Section Groups.
  Variable rec : sexp -> option (list ogroup).        (* the groups of a nested list *)

  (* [skip]: the first element is the head of the list (":objects", ":private") *)
  Fixpoint groups_list (skip : bool) (l : list sexp) (pending : list name) : option (list ogroup) :=
    match l with
    | [] => Some [(pending, "object")]
    | x :: rest =>
        if skip then groups_list false rest pending else
        match x with
        | SList _ =>
            match rec x, groups_list false rest pending with
            | Some a, Some b => Some (a ++ b)
            | _, _ => None
            end
        | Atom t =>
            if String.eqb t "-" then
              match rest with
              | Atom ty :: rest' =>
                  match groups_list false rest' [] with
                  | Some r => Some ((pending, ty) :: r)
                  | None => None
                  end
              | _ => None
              end
            else groups_list false rest (pending ++ [t])
        end
    end.
End Groups.

Fixpoint groups_sx (e : sexp) : option (list ogroup) :=
  match e with
  | Atom _ => None
  | SList l => groups_list groups_sx true l []
  end.

Definition decl_pairs (gs : list ogroup) : list (name * name) :=
  flat_map (fun g : ogroup => map (fun n => (n, snd g)) (fst g)) gs.

(* the names of a list, each once, in the order of the first occurrences *)
Fixpoint firsts (l : list name) : list name :=
  match l with
  | [] => []
  | x :: r => x :: filter (fun y => negb (String.eqb y x)) (firsts r)
  end.

Definition last_type (ds : list (name * name)) (n : name) : name :=
  match lookup n (rev ds) with Some t => t | None => "object" end.

Definition obj_table (ds : list (name * name)) : list (name * name) :=
  map (fun n => (n, last_type ds n)) (firsts (map fst ds)).

Definition objects_of (known : name -> bool) (e : sexp) : option (list (name * name)) :=
  match groups_sx e with
  | Some gs => if forallb (fun g : ogroup => known (snd g)) gs then Some (obj_table (decl_pairs gs)) else None
  | None => None
  end.

Definition objects_text (os : list (name * name)) : list sexp :=
  flat_map (fun o : name * name => [Atom (fst o); Atom "-"; Atom (snd o)]) os.

(* the problem text with its (:objects ...) sections rewritten in the normal form (no type table is consulted: whether
   the types are declared is judged afterwards, by wf_sproblem; a section that is no typed list at all is left as it is) *)
Definition normal_section (e : sexp) : sexp :=
  match e with
  | SList (Atom k :: body) =>
      if String.eqb k ":objects" then
        match objects_of (fun _ => true) e with
        | Some os => SList (Atom k :: objects_text os)
        | None => e
        end
      else e
  | _ => e
  end.

Definition normal_objects (e : sexp) : sexp :=
  match e with
  | SList l => SList (map normal_section l)
  | Atom _ => e
  end.

(* the groups written as one flat typed list, every group closed by its dash (nested lists spliced where they stand) *)
Definition flat_text (gs : list ogroup) : list sexp :=
  flat_map (fun g : ogroup => map Atom (fst g) ++ [Atom "-"; Atom (snd g)]) gs.
