(* Spec for C19: what a Metric-FF log / an ENHSP plan file containing a given plan looks like, and which
   action lines must be extracted from it.  Independent of the regular expression: the only notion shared with
   the code is the character predicates (digit, blank, letter) and the generic list helpers. *)
From Coq Require Import List Ascii String Bool.
From Verif Require Import Base.Result Base.Str Model.PlannerLogs.
Import ListNotations.
Open Scope list_scope.

(* ---------- plans ---------- *)
(* names and arguments: non-empty words over letters, digits, '_' and '-' *)
Definition name_char (c : ascii) : bool :=
  is_alpha c || is_digit c || Ascii.eqb c "_" || Ascii.eqb c "-".

Definition word_ok (w : text) : Prop := w <> [] /\ Forall (fun c => name_char c = true) w.

(* a step: the action name followed by its arguments *)
Definition step := list text.
Definition step_ok (s : step) : Prop := s <> [] /\ Forall word_ok s.

Fixpoint join_sp (ws : list text) : text :=
  match ws with
  | [] => []
  | [w] => w
  | w :: r => w ++ SP :: join_sp r
  end.

(* what must come out for a step: "(name arg1 ... argn)\n", lower-cased *)
Definition expected_action (s : step) : text := LP :: join_sp (map lower_text s) ++ [RP; LF].

(* ---------- Metric-FF layout ---------- *)
(* how one step is laid out: "step" prefix or not, indentation, the step number (any width),
   blanks after the ": " and before the line end, LF or CRLF *)
Record layout := {
  l_step : bool; l_indent : text; l_num : text; l_pre : text; l_post : text; l_cr : bool }.

Definition blanks (t : text) : Prop := Forall (fun c => is_blank c = true) t.

Definition layout_ok (l : layout) : Prop :=
  blanks (l_indent l) /\ l_num l <> [] /\ Forall (fun c => is_digit c = true) (l_num l) /\
  blanks (l_pre l) /\ blanks (l_post l).

Definition eol (cr : bool) : text := if cr then [CR; LF] else [LF].

Definition render_step (ls : layout * step) : text :=
  (if l_step (fst ls) then s2t "step" else []) ++ l_indent (fst ls) ++ l_num (fst ls) ++ [":"%char; SP] ++
  l_pre (fst ls) ++ join_sp (snd ls) ++ l_post (fst ls) ++ eol (l_cr (fst ls)).

Definition marker : text := s2t "ff: found legal plan as follows".

(* the surrounding log text: any line that does not begin with a step label
   (optional "step", blanks, a number, ": ") *)
Definition label_at (t : text) : bool :=
  let t2 := drop_while is_blank t in
  match take_while is_digit t2 with
  | [] => false
  | _ :: _ => match strip_prefix [":"%char; SP] (drop_while is_digit t2) with Some _ => true | None => false end
  end.

Definition has_step_label (l : text) : bool :=
  label_at l || match strip_prefix (s2t "step") l with Some r => label_at r | None => false end.

Definition no_lf (t : text) : Prop := Forall (fun c => c <> LF) t.

Definition log_line (l : text) : Prop := no_lf l /\ has_step_label l = false.

Definition render_lines (ls : list text) : text := flat_map (fun l => l ++ [LF]) ls.

(* header lines, the marker line, the step lines, trailer lines, and a last line without line end *)
Definition render_ff (header : list text) (mcr : bool) (steps : list (layout * step))
                     (trailer : list text) (last : text) : text :=
  render_lines header ++ marker ++ eol mcr ++ flat_map render_step steps ++ render_lines trailer ++ last.

Definition contains (needle hay : text) : Prop := exists pre post, hay = pre ++ needle ++ post.

(* ---------- ENHSP layout: one "(name args)" per line, line end LF, CRLF or CR ---------- *)
Inductive eolkind := ELF | ECRLF | ECR.
Definition eol_of (e : eolkind) : text :=
  match e with ELF => [LF] | ECRLF => [CR; LF] | ECR => [CR] end.

Definition render_enhsp_step (es : eolkind * step) : text :=
  LP :: join_sp (snd es) ++ RP :: eol_of (fst es).

Definition render_enhsp (steps : list (eolkind * step)) : text := flat_map render_enhsp_step steps.
