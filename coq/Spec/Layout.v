(* Spec for C11: what "the same tokens in another layout" means.
   A rendering of a token list interleaves separators (whitespace runs and ';' comments)
   with the tokens, each token in any letter case. *)
From Coq Require Import List Ascii String Bool.
From Verif Require Import Base.Result Base.Str Base.Sexp Model.Tokenizer.
Import ListNotations.

Definition atom_char (c : ascii) : bool :=
  negb (is_ws c) && negb (is_paren c) && negb (Ascii.eqb c SEMI).

(* separators: whitespace characters and terminated comments *)
Inductive is_sep (m : mode) : text -> Prop :=
| sep_nil : is_sep m []
| sep_ws c s : is_ws c = true -> is_sep m s -> is_sep m (c :: s)
| sep_comment body e s :
    Forall (fun c => ends_comment m c = false) body ->
    ends_comment m e = true -> is_sep m s ->
    is_sep m (SEMI :: body ++ e :: s).

(* what may follow the last token: a separator, optionally followed by an unterminated comment *)
Inductive is_trailer (m : mode) : text -> Prop :=
| tr_sep s : is_sep m s -> is_trailer m s
| tr_open s body :
    is_sep m s -> Forall (fun c => ends_comment m c = false) body ->
    is_trailer m (s ++ SEMI :: body).

Definition is_atom_text (t : text) : Prop := t <> [] /\ Forall (fun c => atom_char c = true) t.
Definition is_token_text (t : text) : Prop := t = [LP] \/ t = [RP] \/ is_atom_text t.

Definition nonnil (t : text) : bool := match t with [] => false | _ => true end.
Definition is_paren_text (t : text) : bool :=
  match t with [c] => is_paren c | _ => false end.

(* [valid_from pending items]: every separator is a separator, every token a token, and two
   adjacent non-parenthesis tokens are separated by a non-empty separator. *)
Fixpoint valid_from (m : mode) (pending : bool) (items : list (text * text)) : Prop :=
  match items with
  | [] => True
  | (s, t) :: r =>
      is_sep m s /\ is_token_text t /\
      (pending = true -> is_paren_text t = false -> s <> []) /\
      valid_from m (negb (is_paren_text t)) r
  end.

Definition render (items : list (text * text)) (trailer : text) : text :=
  flat_map (fun st => fst st ++ snd st) items ++ trailer.

(* atoms of a tree are non-empty and made of atom characters *)
Fixpoint atoms_ok (e : sexp) : Prop :=
  match e with
  | Atom s => is_atom_text (s2t s)
  | SList l => (fix go (l : list sexp) : Prop :=
                  match l with [] => True | x :: xs => atoms_ok x /\ go xs end) l
  end.

(* The reader the property asks for: the whole token stream must be one form. *)
Definition parse_tokens_strict (ts : list string) : result sexp :=
  match rd (2 * List.length ts + 2) ts with
  | Ok (e, []) => Ok e
  | Ok (_, _ :: _) => Err ESyntax
  | Err k => Err k
  end.
Definition parse_strict (m : mode) (s : text) : result sexp := parse_tokens_strict (tokenize m s).

(* ---------- round 3: input mode and line structure ---------- *)
(* a CR is followed by LF or stands at the very end of the text (no lone CR inside the text) *)
Fixpoint cr_then_lf (s : text) : bool :=
  match s with
  | [] => true
  | c :: r =>
      (if Ascii.eqb c CR then match r with [] => true | c2 :: _ => Ascii.eqb c2 LF end else true) && cr_then_lf r
  end.

(* lines joined by line feeds (the inverse of str.split("\n")) *)
Fixpoint join_lf (ls : list text) : text :=
  match ls with
  | [] => []
  | [l] => l
  | l :: r => l ++ LF :: join_lf r
  end.

(* a line without its comment: everything before the first ';' *)
Fixpoint before_semi (l : text) : text :=
  match l with
  | [] => []
  | c :: r => if Ascii.eqb c SEMI then [] else c :: before_semi r
  end.
