(* Spec side of property C01: what "the parsed domain declares exactly the source's vocabulary" and
   "denotes the same formula / the same effects" mean.  Independent of the library's object model: everything here
   speaks about the independent reading [Spec.Grammar.read_domain] of the text and about [Spec.Pddl.holds]. *)
From Coq Require Import List Ascii String Bool Arith PrimFloat Permutation.
From Verif Require Import Base.Str Base.Sexp Base.PyDict Spec.Pddl Spec.Grammar.
Import ListNotations.
Open Scope string_scope.
Open Scope list_scope.

(* ---------- vocabulary ---------- *)
Definition typed := list (string * string).              (* name -> type, in order *)

Record vocabulary := {
  vo_types : typed;                                       (* type -> parent; 'object' itself has no row *)
  vo_consts : typed;
  vo_preds : list (string * typed);
  vo_funcs : list (string * typed);
  vo_actions : list (string * typed)                      (* action name -> ordered typed parameters *)
}.

(* A list of declarations read as a table: a name declared again replaces the earlier declaration (at its
   place).  On declarations with pairwise distinct names this is the list itself ([dict_of_nodup]). *)
Definition dict_of {V} (l : list (string * V)) : list (string * V) := dupdate [] l.

(* the type table of a (:types ...) reading: every declared child with its parent, then every name that only
   occurs as a parent (it hangs under object), 'object' itself left out *)
Fixpoint dedup (l seen : list string) : list string :=
  match l with
  | [] => []
  | x :: r => if str_in x seen then dedup r seen else x :: dedup r (seen ++ [x])
  end.
Definition parent_only (rows : typed) : list string :=
  dedup (filter (fun p => negb (str_in p (map fst rows)) && negb (String.eqb p "object")) (map snd rows)) [].
Definition type_rows (tt : tytree) : typed :=
  let d := dict_of tt in
  filter (fun kv => negb (String.eqb (fst kv) "object")) (d ++ map (fun p => (p, "object")) (parent_only d)).

Definition decl_row (d : string * typed) : string * typed := (fst d, dict_of (snd d)).
(* PDDL is case-insensitive: an action is known by its lower-case name *)
Definition action_row (a : action) : string * typed := (lower_string (a_name a), dict_of (a_params a)).

Definition spec_vocabulary (sd : sdomain) : vocabulary :=
  {| vo_types := type_rows (sd_types sd);
     vo_consts := dict_of (sd_consts sd);
     vo_preds := dict_of (map decl_row (sd_preds sd));
     vo_funcs := dict_of (map decl_row (sd_funcs sd));
     vo_actions := dict_of (map action_row (sd_actions sd)) |}.

(* the same without any table reading: the declarations exactly as written *)
Definition plain_vocabulary (sd : sdomain) : vocabulary :=
  {| vo_types := filter (fun kv => negb (String.eqb (fst kv) "object"))
                        (sd_types sd ++ map (fun p => (p, "object")) (parent_only (sd_types sd)));
     vo_consts := sd_consts sd;
     vo_preds := sd_preds sd;
     vo_funcs := sd_funcs sd;
     vo_actions := map (fun a => (lower_string (a_name a), a_params a)) (sd_actions sd) |}.

(* every name is declared once (types, constants, predicates, functions, actions, and the parameters of each) *)
Definition distinct_names (sd : sdomain) : Prop :=
  NoDup (map fst (sd_types sd)) /\ NoDup (map fst (sd_consts sd)) /\
  NoDup (map fst (sd_preds sd)) /\ Forall (fun d => NoDup (map fst (snd d))) (sd_preds sd) /\
  NoDup (map fst (sd_funcs sd)) /\ Forall (fun d => NoDup (map fst (snd d))) (sd_funcs sd) /\
  NoDup (map (fun a => lower_string (a_name a)) (sd_actions sd)) /\
  Forall (fun a => NoDup (map fst (a_params a))) (sd_actions sd).

(* each optional section occurs at most once (the grammar allows each once) *)
Definition section_bodies (key : string) (sections : list sexp) : list (list sexp) :=
  flat_map (fun s => match s with
                     | SList (Atom h :: body) => if String.eqb h key then [body] else []
                     | _ => [] end) sections.
Definition sections_once (e : sexp) : Prop :=
  match e with
  | SList (_ :: sections) =>
      Forall (fun key => List.length (section_bodies key sections) <= 1)
             [":types"; ":constants"; ":predicates"; ":functions"]
  | _ => True
  end.

(* ---------- formulas and effects: "denote the same" ---------- *)
Definition form_equiv (f g : form) : Prop :=
  forall eps tt objs e s, holds eps tt objs e s f = holds eps tt objs e s g.

(* the same effect: the same groups up to the order of the primitives inside a group and of the groups
   (the library keeps both in sets), conditions equivalent *)
Inductive eff_rel : eff -> eff -> Prop :=
| ER_prims es es' : Permutation es es' -> eff_rel (EPrims es) (EPrims es')
| ER_when c c' es es' : form_equiv c c' -> Permutation es es' -> eff_rel (EWhen c es) (EWhen c' es')
| ER_forall v ty c c' es es' : form_equiv c c' -> Permutation es es' ->
    eff_rel (EForall v ty c es) (EForall v ty c' es').
Definition effs_rel (l l' : list eff) : Prop := exists l2, Permutation l l2 /\ Forall2 eff_rel l2 l'.

(* ---------- what the library stores although it cannot evaluate it (it raises at the first use) ---------- *)
(* '(= 1 2)': two numerals compared by '=' are a numeric comparison for the grammar; the library stores an object
   equality over the names "1" and "2" and raises KeyError when the action is grounded *)
Fixpoint form_ok (f : form) : bool :=
  match f with
  | FCmp CEq (NNum _) (NNum _) => false
  | FAnd l | FOr l => forallb form_ok l
  | FForall _ _ b => form_ok b
  | _ => true
  end.
(* '(increase (+ 1 2) 3)': the assigned term is a function application, its name is not a reserved word
   (the library stores the arithmetic node and raises AttributeError when the action is applied) *)
Definition prim_ok (p : prim) : bool :=
  match p with
  | PNum _ f _ _ => negb (str_in f keywords)
  | _ => true
  end.
Definition eff_ok (e : eff) : bool :=
  match e with
  | EPrims es => forallb prim_ok es
  | EWhen c es | EForall _ _ c es => form_ok c && forallb prim_ok es
  end.
Definition action_ok (a : action) : bool := form_ok (a_pre a) && forallb eff_ok (a_effs a).

(* predicate names are names: not a reserved word of the language, not the ':private' marker *)
Definition pred_names_ok (preds : list string) : bool :=
  forallb (fun p => negb (str_in p keywords) && negb (String.eqb p ":private")) preds.
