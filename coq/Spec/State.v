(* Spec for C14 / C10: what it means for two states to be "the same", independent of the library's data structures.
   A state (Spec.Pddl.state) is a collection of ground facts and a collection of valued ground fluents.
     - facts are a SET: order and repetition are irrelevant;
     - fluents are a set of (ground fluent, value) pairs; when every fluent occurs once ([functional]) this is a finite map;
     - two values are the same when they are the same binary64 datum ([float_beq]: NaNs identified, +0 and -0 distinct).
       IEEE comparison ([PrimFloat.eqb]) differs from it exactly on NaN (never equal to itself) and on the pair +0/-0;
       it is not reflexive, so it cannot be the meaning of "the same value" for an equivalence of states.
   Also: the independent reading of a serialized state "(:init|:state (= (f a) 1.0) ... (p a) ...)" as such a state,
   and of a serialized trajectory as states alternating with action calls. *)
From Coq Require Import List String Bool PrimFloat.
From Verif Require Import Base.Str Base.Sexp Base.Float Spec.Pddl.
Import ListNotations.
Open Scope string_scope.
Open Scope list_scope.

Definition same_value (x y : float) : bool := float_beq x y.

(* ---------- Prop reading ---------- *)
Definition same_facts (a b : list atom) : Prop := forall x, In x a <-> In x b.

Definition has_value (l : list (atom * float)) (k : atom) (v : float) : Prop :=
  exists v', In (k, v') l /\ same_value v v' = true.
Definition same_fluents (a b : list (atom * float)) : Prop := forall k v, has_value a k v <-> has_value b k v.

Definition State_same (a b : state) : Prop :=
  same_facts (facts a) (facts b) /\ same_fluents (fluents a) (fluents b).

(* every ground fluent has one value: the collection is a finite map *)
Definition functional (l : list (atom * float)) : Prop :=
  forall k v v', In (k, v) l -> In (k, v') l -> same_value v v' = true.

(* ---------- decidable reading (used by the correspondence; reflected in Proofs/C14_Spec.v) ---------- *)
Definition valued_in (kv : atom * float) (l : list (atom * float)) : bool :=
  existsb (fun kv' => atom_eqb (fst kv) (fst kv') && same_value (snd kv) (snd kv')) l.
Definition valued_subset (a b : list (atom * float)) : bool := forallb (fun kv => valued_in kv b) a.

Definition state_same (a b : state) : bool :=
  facts_equiv (facts a) (facts b) && valued_subset (fluents a) (fluents b) && valued_subset (fluents b) (fluents a).

(* ---------- independent reading of serialized text (token trees) ---------- *)
Fixpoint atoms_only (l : list sexp) : option (list string) :=
  match l with
  | [] => Some []
  | Atom s :: r => match atoms_only r with Some rs => Some (s :: rs) | None => None end
  | SList _ :: _ => None
  end.

Section Read.
  Variable num : string -> option float.             (* float(text) *)

  Inductive item := IFact (a : atom) | IFluent (a : atom) (v : float).

  Definition read_item (e : sexp) : option item :=
    match e with
    | SList (Atom h :: rest) =>
        if String.eqb h "=" then
          match rest with
          | [SList (Atom f :: args); Atom v] =>
              match atoms_only args, num v with
              | Some a, Some x => Some (IFluent (f, a) x)
              | _, _ => None
              end
          | _ => None
          end
        else match atoms_only rest with Some a => Some (IFact (h, a)) | None => None end
    | _ => None
    end.

  Fixpoint read_items (l : list sexp) : option state :=
    match l with
    | [] => Some {| facts := []; fluents := [] |}
    | e :: r =>
        match read_item e, read_items r with
        | Some (IFact a), Some s => Some {| facts := a :: facts s; fluents := fluents s |}
        | Some (IFluent a v), Some s => Some {| facts := facts s; fluents := (a, v) :: fluents s |}
        | _, _ => None
        end
    end.

  (* (:init ...) / (:state ...): is it the initial one, and the state *)
  Definition read_state (e : sexp) : option (bool * state) :=
    match e with
    | SList (Atom h :: items) =>
        if String.eqb h ":init" then option_map (fun s => (true, s)) (read_items items)
        else if String.eqb h ":state" then option_map (fun s => (false, s)) (read_items items)
        else None
    | _ => None
    end.

  (* a step: one call (operator: (name args)) or a joint action (operators: (name args) ... ), then the next state *)
  Definition call := (string * list string)%type.

  Definition read_call (e : sexp) : option call :=
    match e with
    | SList (Atom n :: args) => option_map (fun a => (n, a)) (atoms_only args)
    | _ => None
    end.

  Fixpoint read_calls (l : list sexp) : option (list call) :=
    match l with
    | [] => Some []
    | e :: r => match read_call e, read_calls r with Some c, Some cs => Some (c :: cs) | _, _ => None end
    end.

  Definition read_action (e : sexp) : option (list call) :=
    match e with
    | SList [Atom "operator:"; c] => option_map (fun x => [x]) (read_call c)
    | SList (Atom "operators:" :: cs) => read_calls cs
    | _ => None
    end.

  (* ((:init ...) (operator: ...) (:state ...) ... ): the first state and the list of (action, state) steps *)
  Fixpoint read_steps (l : list sexp) : option (list (list call * state)) :=
    match l with
    | [] => Some []
    | a :: s :: r =>
        match read_action a, read_state s, read_steps r with
        | Some c, Some (false, st), Some rest => Some ((c, st) :: rest)
        | _, _, _ => None
        end
    | [_] => None
    end.

  Definition read_trajectory (e : sexp) : option (state * list (list call * state)) :=
    match e with
    | SList (s0 :: rest) =>
        match read_state s0, read_steps rest with
        | Some (_, st), Some steps => Some (st, steps)
        | _, _ => None
        end
    | _ => None
    end.
End Read.

(* ---------- independent reading of the TYPED text of a state (State.typed_serialize, wave 3) ----------
   "((= (f a - t b - t) 1.0) ... (p a - t) ...)": every argument is followed by "- <type>"; dropping the types gives
   the items of the untyped text *)
Fixpoint untype (fuel : nat) (l : list sexp) : option (list sexp) :=
  match fuel with
  | O => None
  | S n =>
      match l with
      | [] => Some []
      | Atom a :: Atom d :: Atom _ :: r =>
          if String.eqb d "-" then option_map (fun rs => Atom a :: rs) (untype n r) else None
      | _ => None
      end
  end.

Definition untype_item (e : sexp) : option sexp :=
  match e with
  | SList (Atom h :: rest) =>
      if String.eqb h "=" then
        match rest with
        | [SList (Atom f :: args); v] => option_map (fun a => SList [Atom h; SList (Atom f :: a); v]) (untype (S (List.length args)) args)
        | _ => None
        end
      else option_map (fun a => SList (Atom h :: a)) (untype (S (List.length rest)) rest)
  | _ => None
  end.

Fixpoint untype_items (l : list sexp) : option (list sexp) :=
  match l with
  | [] => Some []
  | e :: r => match untype_item e, untype_items r with Some x, Some xs => Some (x :: xs) | _, _ => None end
  end.

Definition read_typed_state (num : string -> option float) (e : sexp) : option state :=
  match e with
  | SList items => match untype_items items with Some l => read_items num l | None => None end
  | _ => None
  end.
