(* binary64 helpers: bit-exact PrimFloat operations, the exact dyadic value of a finite float
   (via FloatOps.Prim2SF, computed in Z), Python's int(x), float.is_integer() and "{:.Nf}".format(x)
   (correctly rounded, half-even on the exact binary value) computed in Z -- no float arithmetic is used
   for printing.  Parsing decimal text to the nearest double (float(str)) is NOT modelled anywhere:
   numerals cross the model boundary as hexadecimal float literals.

   Only definitions and small computational lemmas here; no axioms (FloatAxioms is never imported:
   everything proved about primitive operations is either structural or by computation). *)
From Coq Require Import ZArith NArith List Bool Lia String Ascii PrimFloat FloatOps SpecFloat.
Import ListNotations.
Open Scope string_scope.
Open Scope Z_scope.

(* ------------------------------------------------------------------ classification *)
Definition f_is_finite (x : float) : bool := negb (is_nan x) && negb (is_infinity x).

(* bit equality (all NaNs identified, +0 and -0 distinguished) *)
Definition sf_eqb (a b : spec_float) : bool :=
  match a, b with
  | S754_nan, S754_nan => true
  | S754_zero s, S754_zero t => Bool.eqb s t
  | S754_infinity s, S754_infinity t => Bool.eqb s t
  | S754_finite s m e, S754_finite t n f => Bool.eqb s t && Pos.eqb m n && Z.eqb e f
  | _, _ => false
  end.
Definition float_beq (x y : float) : bool := sf_eqb (Prim2SF x) (Prim2SF y).

(* ------------------------------------------------------------------ exact value *)
(* value = (-1)^neg * m * 2^e with m >= 0 *)
Record dyadic := { dy_neg : bool; dy_m : Z; dy_e : Z }.

Definition sf_exact (f : spec_float) : option dyadic :=
  match f with
  | S754_zero s => Some {| dy_neg := s; dy_m := 0; dy_e := 0 |}
  | S754_finite s m e => Some {| dy_neg := s; dy_m := Zpos m; dy_e := e |}
  | _ => None
  end.
Definition exact (x : float) : option dyadic := sf_exact (Prim2SF x).

(* the value is an integer *)
Definition dy_is_integer (d : dyadic) : bool :=
  (0 <=? dy_e d) || (dy_m d mod 2 ^ (- dy_e d) =? 0).

(* magnitude truncated toward zero *)
Definition dy_trunc_abs (d : dyadic) : Z :=
  if 0 <=? dy_e d then dy_m d * 2 ^ dy_e d else dy_m d / 2 ^ (- dy_e d).
Definition dy_trunc (d : dyadic) : Z := if dy_neg d then - dy_trunc_abs d else dy_trunc_abs d.

(* float.is_integer(): False for inf and nan *)
Definition f_is_integer (x : float) : bool :=
  match exact x with Some d => dy_is_integer d | None => false end.
(* int(x) for finite x (Python raises for inf/nan: None) *)
Definition f_trunc (x : float) : option Z := option_map dy_trunc (exact x).

(* ------------------------------------------------------------------ round-half-even division, a >= 0, b > 0 *)
Definition div_rne (a b : Z) : Z :=
  let q := a / b in
  let r := a mod b in
  match 2 * r ?= b with
  | Lt => q
  | Gt => q + 1
  | Eq => if Z.even q then q else q + 1
  end.

(* |value| * 10^digits rounded to the nearest integer, ties to even *)
Definition scaled_rne (digits : nat) (d : dyadic) : Z :=
  let p := 10 ^ Z.of_nat digits in
  if 0 <=? dy_e d then dy_m d * 2 ^ dy_e d * p else div_rne (dy_m d * p) (2 ^ (- dy_e d)).

(* ------------------------------------------------------------------ decimal text *)
Definition digit_char (d : Z) : ascii := ascii_of_N (48 + Z.to_N d).

(* exactly w digits: n mod 10^w, most significant first *)
Fixpoint digits_fixed (w : nat) (n : Z) : string :=
  match w with
  | O => EmptyString
  | S w' => digits_fixed w' (n / 10) ++ String (digit_char (n mod 10)) EmptyString
  end.

(* n >= 0 without leading zeros ("0" for 0); [fuel] >= number of digits - 1 *)
Fixpoint digits_var (fuel : nat) (n : Z) : string :=
  match fuel with
  | O => String (digit_char (n mod 10)) EmptyString
  | S f =>
      if n <? 10 then String (digit_char n) EmptyString
      else digits_var f (n / 10) ++ String (digit_char (n mod 10)) EmptyString
  end.
Definition digits_of (n : Z) : string := digits_var (Z.to_nat (Z.log2 n)) n.

(* n = integer part * 10^digits + fraction : "ip.ffff" ("ip" when digits = 0) *)
Definition fixed_text (digits : nat) (n : Z) : string :=
  let p := 10 ^ Z.of_nat digits in
  match digits with
  | O => digits_of n
  | _ => digits_of (n / p) ++ String "." (digits_fixed digits (n mod p))
  end.

(* str(int) *)
Definition py_int_text (z : Z) : string :=
  if z <? 0 then String "-" (digits_of (- z)) else digits_of z.

(* "{:.Nf}".format(x) *)
Definition format_fixed (digits : nat) (x : float) : string :=
  match Prim2SF x with
  | S754_nan => "nan"
  | S754_infinity false => "inf"
  | S754_infinity true => "-inf"
  | f =>
      match sf_exact f with
      | Some d => let t := fixed_text digits (scaled_rne digits d) in if dy_neg d then String "-" t else t
      | None => ""
      end
  end.

(* ------------------------------------------------------------------ reading fixed-point text back, exactly *)
(* "[-]ddd[.ddd]" -> (negative?, all digits as one integer n, number k of digits after the point).
   The exact rational value of the text is (-1)^neg * n / 10^k. *)
Definition is_digit (c : ascii) : bool :=
  let n := N_of_ascii c in ((48 <=? n) && (n <=? 57))%N.
Definition digit_val (c : ascii) : Z := Z.of_N (N_of_ascii c) - 48.

Fixpoint all_digits (s : string) : bool :=
  match s with EmptyString => true | String c r => is_digit c && all_digits r end.

Fixpoint digits_val_acc (s : string) (acc : Z) : Z :=
  match s with EmptyString => acc | String c r => digits_val_acc r (acc * 10 + digit_val c) end.

Definition digits_value (s : string) : option Z :=
  if all_digits s then Some (digits_val_acc s 0) else None.

Fixpoint split_point (s : string) : string * option string :=
  match s with
  | EmptyString => (EmptyString, None)
  | String c r =>
      if Ascii.eqb c "." then (EmptyString, Some r)
      else let (a, b) := split_point r in (String c a, b)
  end.

Definition nonempty (s : string) : bool := match s with EmptyString => false | _ => true end.

Definition dec_parse_unsigned (body : string) : option (Z * nat) :=
  let (ip, fr) := split_point body in
  match fr with
  | None =>
      if nonempty ip then match digits_value ip with Some n => Some (n, O) | None => None end else None
  | Some f =>
      if nonempty ip && nonempty f
      then match digits_value (ip ++ f) with Some n => Some (n, String.length f) | None => None end
      else None
  end.

Definition dec_parse (s : string) : option (bool * Z * nat) :=
  match s with
  | EmptyString => None
  | String c r =>
      if Ascii.eqb c "-"
      then match dec_parse_unsigned r with Some (n, k) => Some (true, n, k) | None => None end
      else match dec_parse_unsigned s with Some (n, k) => Some (false, n, k) | None => None end
  end.
