(* ASCII text helpers.  Text is processed as [list ascii]; tokens are [string]. *)
From Coq Require Import List Ascii String NArith Bool Lia.
Import ListNotations.
Open Scope char_scope.

Definition text := list ascii.

Definition LF : ascii := "010".
Definition CR : ascii := "013".
Definition TAB : ascii := "009".
Definition SP : ascii := " ".
Definition LP : ascii := "(".
Definition RP : ascii := ")".
Definition SEMI : ascii := ";".

(* Python's str.split()/strip()/isspace() and re's \s on code points < 128:
   9-13 and 28-32 (checked against CPython 3.12 on every run by the C11 harness). *)
Definition is_ws (c : ascii) : bool :=
  let n := N_of_ascii c in
  (((9 <=? n) && (n <=? 13)) || ((28 <=? n) && (n <=? 32)))%N.

(* str.lower() on code points < 128 *)
Definition lower_ascii (c : ascii) : ascii :=
  let n := N_of_ascii c in
  if ((65 <=? n) && (n <=? 90))%N then ascii_of_N (n + 32) else c.

Definition upper_ascii (c : ascii) : ascii :=
  let n := N_of_ascii c in
  if ((97 <=? n) && (n <=? 122))%N then ascii_of_N (n - 32) else c.

Definition lower_text (t : text) : text := map lower_ascii t.

Definition t2s (t : text) : string := string_of_list_ascii t.
Definition s2t (s : string) : text := list_ascii_of_string s.

Definition lower_string (s : string) : string := t2s (lower_text (s2t s)).

Lemma t2s_s2t s : t2s (s2t s) = s.
Proof. apply string_of_list_ascii_of_string. Qed.
Lemma s2t_t2s t : s2t (t2s t) = t.
Proof. apply list_ascii_of_string_of_list_ascii. Qed.

Lemma t2s_inj a b : t2s a = t2s b -> a = b.
Proof. intros H. rewrite <- (s2t_t2s a), <- (s2t_t2s b), H. reflexivity. Qed.

(* every ascii: decided by enumeration of the 256 characters *)
Definition all_ascii : list ascii := map (fun n => ascii_of_nat n) (seq 0 256).

Lemma all_ascii_complete c : In c all_ascii.
Proof.
  unfold all_ascii. apply in_map_iff. exists (nat_of_ascii c). split.
  - apply ascii_nat_embedding.
  - apply in_seq. pose proof (nat_ascii_bounded c). lia.
Qed.

Lemma forall_ascii (P : ascii -> bool) :
  forallb P all_ascii = true -> forall c, P c = true.
Proof. intros H c. rewrite forallb_forall in H. apply H, all_ascii_complete. Qed.

(* join with a separator *)
Fixpoint join (sep : string) (l : list string) : string :=
  match l with
  | [] => EmptyString
  | [x] => x
  | x :: xs => (x ++ sep ++ join sep xs)%string
  end.

Fixpoint str_in (s : string) (l : list string) : bool :=
  match l with [] => false | x :: xs => String.eqb s x || str_in s xs end.

Lemma str_in_In s l : str_in s l = true <-> In s l.
Proof.
  induction l as [|x xs IH]; simpl; [intuition discriminate|].
  rewrite orb_true_iff, IH, String.eqb_eq. intuition congruence.
Qed.
