(* Python dict as an insertion-ordered association list: d[k] = v replaces in place or appends. *)
From Coq Require Import List String Bool.
Import ListNotations.
Open Scope string_scope.
Open Scope list_scope.

Definition pydict (V : Type) := list (string * V).

Fixpoint dget {V} (d : pydict V) (k : string) : option V :=
  match d with
  | [] => None
  | (k', v) :: r => if String.eqb k k' then Some v else dget r k
  end.

Definition dmem {V} (d : pydict V) (k : string) : bool :=
  match dget d k with Some _ => true | None => false end.

Fixpoint dset {V} (d : pydict V) (k : string) (v : V) : pydict V :=
  match d with
  | [] => [(k, v)]
  | (k', v') :: r => if String.eqb k k' then (k', v) :: r else (k', v') :: dset r k v
  end.

Fixpoint dpop {V} (d : pydict V) (k : string) : pydict V :=
  match d with
  | [] => []
  | (k', v') :: r => if String.eqb k k' then r else (k', v') :: dpop r k
  end.

Definition dupdate {V} (d : pydict V) (kvs : list (string * V)) : pydict V :=
  fold_left (fun acc kv => dset acc (fst kv) (snd kv)) kvs d.

Definition dkeys {V} (d : pydict V) : list string := map fst d.
Definition dvalues {V} (d : pydict V) : list V := map snd d.

Lemma dget_dset_same {V} (d : pydict V) k v : dget (dset d k v) k = Some v.
Proof.
  induction d as [|[k' v'] r IH]; simpl.
  - rewrite String.eqb_refl. reflexivity.
  - destruct (String.eqb k k') eqn:E; simpl; rewrite E; [reflexivity|exact IH].
Qed.

Lemma dget_dset_other {V} (d : pydict V) k k2 v : k2 <> k -> dget (dset d k v) k2 = dget d k2.
Proof.
  intros Hne. induction d as [|[k' v'] r IH]; simpl.
  - destruct (String.eqb k2 k) eqn:E; [apply String.eqb_eq in E; congruence|reflexivity].
  - destruct (String.eqb k k') eqn:E; simpl.
    + apply String.eqb_eq in E. subst k'.
      destruct (String.eqb k2 k) eqn:E2; [apply String.eqb_eq in E2; congruence|reflexivity].
    + destruct (String.eqb k2 k'); [reflexivity|exact IH].
Qed.
