(* Nested lists of tokens: the value returned by PDDLTokenizer.parse(). *)
From Coq Require Import List String Bool Arith Lia.
From Verif Require Import Base.Str.
Import ListNotations.
Open Scope string_scope.
Open Scope list_scope.

Inductive sexp :=
| Atom (s : string)
| SList (l : list sexp).

(* nested induction principle *)
Section SexpInd.
  Variable P : sexp -> Prop.
  Hypothesis HA : forall s, P (Atom s).
  Hypothesis HL : forall l, Forall P l -> P (SList l).
  Fixpoint sexp_ind' (e : sexp) : P e :=
    match e with
    | Atom s => HA s
    | SList l =>
        HL l ((fix go (l : list sexp) : Forall P l :=
                 match l with
                 | [] => Forall_nil _
                 | x :: xs => Forall_cons _ (sexp_ind' x) (go xs)
                 end) l)
    end.
End SexpInd.

Fixpoint flatten (e : sexp) : list string :=
  match e with
  | Atom s => [s]
  | SList l => "(" :: flat_map flatten l ++ [")"]
  end.

Fixpoint size (e : sexp) : nat :=
  match e with
  | Atom _ => 1
  | SList l => 2 + list_sum (map size l)
  end.

Definition is_paren_tok (s : string) : bool := String.eqb s "(" || String.eqb s ")".

(* well-formed: no atom is a parenthesis token *)
Fixpoint wf (e : sexp) : bool :=
  match e with
  | Atom s => negb (is_paren_tok s)
  | SList l => forallb wf l
  end.

Fixpoint sexp_map (f : string -> string) (e : sexp) : sexp :=
  match e with
  | Atom s => Atom (f s)
  | SList l => SList (map (sexp_map f) l)
  end.

Definition lower_sexp := sexp_map lower_string.

Fixpoint sexp_eqb (a b : sexp) : bool :=
  match a, b with
  | Atom x, Atom y => String.eqb x y
  | SList l, SList m =>
      (fix go (l m : list sexp) : bool :=
         match l, m with
         | [], [] => true
         | x :: xs, y :: ys => sexp_eqb x y && go xs ys
         | _, _ => false
         end) l m
  | _, _ => false
  end.

Lemma sexp_eqb_eq a : forall b, sexp_eqb a b = true <-> a = b.
Proof.
  induction a as [s|l IH] using sexp_ind'; intros [t|m]; simpl;
    try (split; [discriminate | intros H; discriminate H]).
  - rewrite String.eqb_eq. split; congruence.
  - revert m. induction IH as [|x xs Hx _ IHxs]; intros [|y ys];
      try (split; [discriminate | intros H; discriminate H]).
    + split; reflexivity.
    + rewrite andb_true_iff, Hx. split.
      * intros [-> H2]. apply IHxs in H2. congruence.
      * intros H. injection H as -> ->. split; [reflexivity|]. apply IHxs. reflexivity.
Qed.

Lemma flatten_length_size e : List.length (flatten e) = size e.
Proof.
  induction e as [s|l IH] using sexp_ind'; simpl; [reflexivity|].
  rewrite app_length. simpl. f_equal.
  induction IH as [|x xs Hx _ IHxs]; simpl; [reflexivity|].
  rewrite app_length, Hx. lia.
Qed.
