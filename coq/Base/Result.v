(* Results with an error kind: Python exceptions are modelled as [Err kind]. *)
From Coq Require Import List.
Import ListNotations.

Inductive errkind :=
| ESyntax | EValue | EKey | EIndex | EAssert | ERecursion | EFuel | EType | EAttr | EOther.

Inductive result (A : Type) :=
| Ok (a : A)
| Err (k : errkind).
Arguments Ok {A} a.
Arguments Err {A} k.

Definition bind {A B} (r : result A) (f : A -> result B) : result B :=
  match r with Ok a => f a | Err k => Err k end.

Notation "'do' x <- r ; k" := (bind r (fun x => k))
  (at level 200, x pattern, r at level 100, k at level 200, right associativity).

Definition is_ok {A} (r : result A) : bool :=
  match r with Ok _ => true | Err _ => false end.

Definition errkind_eqb (a b : errkind) : bool :=
  match a, b with
  | ESyntax, ESyntax | EValue, EValue | EKey, EKey | EIndex, EIndex
  | EAssert, EAssert | ERecursion, ERecursion | EFuel, EFuel | EType, EType
  | EAttr, EAttr | EOther, EOther => true
  | _, _ => false
  end.

(* map over a list with a failing function, left to right *)
Fixpoint mapM {A B} (f : A -> result B) (l : list A) : result (list B) :=
  match l with
  | [] => Ok []
  | x :: xs => do y <- f x; do ys <- mapM f xs; Ok (y :: ys)
  end.

Fixpoint foldM {A S} (f : S -> A -> result S) (l : list A) (s : S) : result S :=
  match l with
  | [] => Ok s
  | x :: xs => do s' <- f s x; foldM f xs s'
  end.

Lemma bind_ok_inv {A B} (r : result A) (f : A -> result B) b :
  bind r f = Ok b -> exists a, r = Ok a /\ f a = Ok b.
Proof. destruct r; simpl; intros H; [eauto | discriminate]. Qed.
