(* Property C03 - applying an applicable grounded action yields exactly the PDDL successor state, whatever the order
   in which the effect collections are visited.  Statements only; proofs in Proofs/C03_*.v.

   Reading guide.
     Model.Exec.apply_op d eps ga (Some objs) allow skip order uorder s   is Operator.apply(s, allow, skip) of the
       library, [order]/[uorder] being the iteration orders of Operator.grounded_effects (0 = the unconditional
       group, i = the i-th 'when') and of Action.universal_effects.
     Spec.Pddl.successor eps tt objs A args s = succ s (all_groups ...)   is the PDDL successor: [all_groups] lists,
       for every effect that fires in s, its primitive effects with conditions and right-hand sides evaluated in s;
       [succ] applies group after group, inside a group deletes first.  [consistent] is the side condition of the
       property: no fluent assigned twice, no atom added by one group and deleted by another.
     denote_effs a = Some effs   says which effect list the model's effect representation stands for;
       spec_action a effs is the spec action with the parameters of [a].
     state_eq: the same set of facts and the same finite map of fluents (values Leibniz-equal, hence bit-equal).
     is_order o n: o is a permutation of 0..n-1.
     evaluates: visiting the groups raises nothing (no division by zero in a condition or a firing right-hand side,
       quantified effects ground).  names_ok: no constant of the domain is also a parameter / quantified variable.

   Model.Exec.apply_op describes the library after repair D40 (commit 40d673f): the condition of a 'when' is evaluated
   WITH the problem objects, so a 'forall' inside it ranges over them (before that repair the statement was false for
   such conditions: witness in findings.d/C03.json, now a regression case; C03_when_forall_example below).
   C03_order_independent_model speaks about the model alone (consistency of the groups the model fires). *)
From Coq Require Import List String Bool PrimFloat Permutation.
From Verif Require Import Base.Sexp Spec.Grammar Spec.Faithful Proofs.C01_Defs.   (* before C03_Defs: its names win *)
From Verif Require Import Base.Result Base.Str Base.PyDict Model.Types Model.Domain Model.Exec Spec.Pddl
  Proofs.C03_Spec Proofs.C03_Defs Proofs.C03_Refine Proofs.C03_Main Proofs.C03_Inner Proofs.C03_Examples
  Corr.Core Proofs.C03_Judge Proofs.C03_Closed Proofs.C03_Parsed Proofs.C03_Seq Proofs.C03_Weak Proofs.C03_WeakModel
  Proofs.C03_Shadow Proofs.C03_NoTable.
Import ListNotations.

(* C03_successor.  For EVERY visiting order of the effect groups and of the universal effects the model returns a
   state, and it is the PDDL successor. *)
Theorem C03_successor :
  forall (d : mdomain) (eps : float) (a : maction) (effs : list eff) (args : list string) (ga : gaction)
         (objs : objects) (s : state),
    denote_effs a = Some effs -> names_ok d a = true ->
    ground_action d a args = Ok ga ->
    is_applicable d eps (Some objs) ga s = Ok true ->
    evaluates d eps objs ga s ->
    consistent (all_groups eps (d_types d) objs (spec_action a effs) args s) = true ->
    forall order uorder, is_order order (List.length (ga_groups ga)) -> is_order uorder (List.length (ma_univ a)) ->
    exists s', apply_op d eps ga (Some objs) false false order uorder s = Ok s' /\
               state_eq s' (successor eps (d_types d) objs (spec_action a effs) args s).
Proof. exact C03_successor_lemma. Qed.

(* The same, judged by the boolean comparator of the correspondence check (Corr.Core.state_equiv: facts as sets, fluent
   maps with bit-equal values): on a state whose fluent list has no repeated key the comparator answers true. *)
Theorem C03_successor_judged :
  forall (d : mdomain) (eps : float) (a : maction) (effs : list eff) (args : list string) (ga : gaction)
         (objs : objects) (s : state),
    denote_effs a = Some effs -> names_ok d a = true ->
    ground_action d a args = Ok ga ->
    is_applicable d eps (Some objs) ga s = Ok true ->
    evaluates d eps objs ga s ->
    consistent (all_groups eps (d_types d) objs (spec_action a effs) args s) = true ->
    NoDup (map fst (fluents s)) ->
    forall order uorder, is_order order (List.length (ga_groups ga)) -> is_order uorder (List.length (ma_univ a)) ->
    exists s', apply_op d eps ga (Some objs) false false order uorder s = Ok s' /\
               state_equiv s' (successor eps (d_types d) objs (spec_action a effs) args s) = true.
Proof. exact C03_successor_judged_lemma. Qed.

(* Partial-correctness form, without "evaluates" and without "applicable": WHATEVER a call of apply returns (default flags or
   allow_inapplicable_actions), in whatever visiting order, is the PDDL successor. *)
Theorem C03_returned_is_successor :
  forall (d : mdomain) (eps : float) (a : maction) (effs : list eff) (args : list string) (ga : gaction)
         (objs : objects) (s s1 : state) (allow : bool) (order uorder : list nat),
    denote_effs a = Some effs -> names_ok d a = true ->
    ground_action d a args = Ok ga ->
    is_order order (List.length (ga_groups ga)) -> is_order uorder (List.length (ma_univ a)) ->
    apply_op d eps ga (Some objs) allow false order uorder s = Ok s1 ->
    consistent (all_groups eps (d_types d) objs (spec_action a effs) args s) = true ->
    state_eq s1 (successor eps (d_types d) objs (spec_action a effs) args s).
Proof. exact C03_returned_is_successor_lemma. Qed.

(* The schedules quantifier.  Two visiting orders that are permutations of each other give set-equal states.
   Proved by commutation of consistent groups (C03_Spec.succ_rearr: induction on Permutation), not by enumeration. *)
Theorem C03_order_independent :
  forall (d : mdomain) (eps : float) (a : maction) (effs : list eff) (args : list string) (ga : gaction)
         (objs : objects) (s : state),
    denote_effs a = Some effs -> names_ok d a = true ->
    ground_action d a args = Ok ga ->
    is_applicable d eps (Some objs) ga s = Ok true ->
    evaluates d eps objs ga s ->
    consistent (all_groups eps (d_types d) objs (spec_action a effs) args s) = true ->
    forall order order' uorder uorder',
      is_order order (List.length (ga_groups ga)) -> Permutation order order' ->
      is_order uorder (List.length (ma_univ a)) -> Permutation uorder uorder' ->
      exists s1 s2,
        apply_op d eps ga (Some objs) false false order uorder s = Ok s1 /\
        apply_op d eps ga (Some objs) false false order' uorder' s = Ok s2 /\
        state_eq s1 s2.
Proof. exact C03_order_independent_lemma. Qed.

(* The same on the model alone, for every effect shape (also quantified 'when' conditions): consistency is asked of
   the groups the MODEL fires ([canon_groups], which C03_Refine.canon_groups_spec identifies with [all_groups]). *)
Theorem C03_order_independent_model :
  forall (d : mdomain) (eps : float) (ga : gaction) (objs : objects) (s : state) (allow b : bool),
    is_applicable d eps (Some objs) ga s = Ok b -> (b = true \/ allow = true) ->
    evaluates d eps objs ga s ->
    consistent (canon_groups d eps objs ga s) = true ->
    forall order order' uorder uorder',
      is_order order (List.length (ga_groups ga)) -> is_order order' (List.length (ga_groups ga)) ->
      is_order uorder (List.length (ma_univ (ga_action ga))) -> is_order uorder' (List.length (ma_univ (ga_action ga))) ->
      exists s1 s2,
        apply_op d eps ga (Some objs) allow false order uorder s = Ok s1 /\
        apply_op d eps ga (Some objs) allow false order' uorder' s = Ok s2 /\
        state_eq s1 s2.
Proof. exact C03_order_independent_model_lemma. Qed.

(* Spec level: consistent firing groups commute - any permutation of the groups and any permutation of the primitive
   effects inside each group gives the same successor (this also covers the iteration order of the sets of discrete
   and numeric effects inside one group). *)
Theorem C03_groups_commute :
  forall (s : state) (gs gs' : list (list gprim)),
    consistent gs = true -> rearr gs gs' -> state_eq (succ s gs) (succ s gs') /\ consistent gs' = true.
Proof. exact C03_groups_commute_lemma. Qed.

(* Order independence needs no separate "evaluates" hypothesis: if the call returns in ONE visiting order then it returns
   in every visiting order, with a set-equal result (consistency asked of the groups the model fires). *)
Theorem C03_order_independent_run :
  forall (d : mdomain) (eps : float) (objs : objects) (ga : gaction) (allow : bool) (order uorder : list nat) (s s1 : state),
    is_order order (List.length (ga_groups ga)) -> is_order uorder (List.length (ma_univ (ga_action ga))) ->
    apply_op d eps ga (Some objs) allow false order uorder s = Ok s1 ->
    consistent (canon_groups d eps objs ga s) = true ->
    forall order' uorder',
      is_order order' (List.length (ga_groups ga)) -> is_order uorder' (List.length (ma_univ (ga_action ga))) ->
      exists s2, apply_op d eps ga (Some objs) allow false order' uorder' s = Ok s2 /\ state_eq s1 s2.
Proof. exact C03_order_independent_run_lemma. Qed.

(* The collections INSIDE the action object (discrete effects, numeric effects, conditional effects, universal effects
   and the effect sets of each of them are hash sets in the library, lists in the model): two model actions that differ
   only by the order of these lists denote the same successor. *)
Theorem C03_stored_order :
  forall (eps : float) (tt : tytree) (objs : objects) (a a' : maction) (effs : list eff) (args : list string) (s : state),
    maction_perm a a' -> denote_effs a = Some effs ->
    consistent (all_groups eps tt objs (spec_action a effs) args s) = true ->
    exists effs', denote_effs a' = Some effs' /\
      state_eq (successor eps tt objs (spec_action a effs) args s) (successor eps tt objs (spec_action a' effs') args s) /\
      consistent (all_groups eps tt objs (spec_action a' effs') args s) = true.
Proof. exact C03_stored_order_lemma. Qed.

(* Spec level: the order of the effects of an action and of the primitive effects inside each is immaterial. *)
Theorem C03_effects_order :
  forall (eps : float) (tt : tytree) (objs : objects) (A A' : action) (args : list string) (s : state),
    a_params A = a_params A' -> effs_perm (a_effs A) (a_effs A') ->
    consistent (all_groups eps tt objs A args s) = true ->
    state_eq (successor eps tt objs A args s) (successor eps tt objs A' args s) /\
    consistent (all_groups eps tt objs A' args s) = true.
Proof. exact C03_effects_order_lemma. Qed.

(* Refusal: an inapplicable call raises ValueError unless allowed ... *)
Theorem C03_refused :
  forall (d : mdomain) (eps : float) (ga : gaction) (objs : objects) (s : state) (order uorder : list nat),
    is_applicable d eps (Some objs) ga s = Ok false ->
    apply_op d eps ga (Some objs) false false order uorder s = Err EValue.
Proof. exact C03_refused_lemma. Qed.

(* ... and with allow_inapplicable_actions the forced successor is returned. *)
Theorem C03_forced :
  forall (d : mdomain) (eps : float) (a : maction) (effs : list eff) (args : list string) (ga : gaction)
         (objs : objects) (s : state) (b : bool),
    denote_effs a = Some effs -> names_ok d a = true ->
    ground_action d a args = Ok ga ->
    is_applicable d eps (Some objs) ga s = Ok b ->
    evaluates d eps objs ga s ->
    consistent (all_groups eps (d_types d) objs (spec_action a effs) args s) = true ->
    forall order uorder, is_order order (List.length (ga_groups ga)) -> is_order uorder (List.length (ma_univ a)) ->
    exists s', apply_op d eps ga (Some objs) true false order uorder s = Ok s' /\
               state_eq s' (successor eps (d_types d) objs (spec_action a effs) args s).
Proof. exact C03_forced_lemma. Qed.

(* ---------- corollaries about the state that apply returns (same hypotheses as C03_successor) ---------- *)
Section Returned.
  Variables (d : mdomain) (eps : float) (a : maction) (effs : list eff) (args : list string) (ga : gaction)
            (objs : objects) (s s' : state) (order uorder : list nat).
  Hypothesis Hd : denote_effs a = Some effs.
  Hypothesis Hn : names_ok d a = true.
  Hypothesis Hg : ground_action d a args = Ok ga.
  Hypothesis Happ : is_applicable d eps (Some objs) ga s = Ok true.
  Hypothesis Hev : evaluates d eps objs ga s.
  Hypothesis Hc : consistent (all_groups eps (d_types d) objs (spec_action a effs) args s) = true.
  Hypothesis Ho : is_order order (List.length (ga_groups ga)).
  Hypothesis Hu : is_order uorder (List.length (ma_univ a)).
  Hypothesis Hret : apply_op d eps ga (Some objs) false false order uorder s = Ok s'.

  Let G := all_groups eps (d_types d) objs (spec_action a effs) args s.

  (* a fact is in the returned state iff a firing effect adds it, or it was there and no firing effect deletes it *)
  Theorem C03_facts : forall x,
    atom_in x (facts s') = atom_in x (flat_map adds_of G) || (atom_in x (facts s) && negb (atom_in x (flat_map dels_of G))).
  Proof. exact (C03_facts_lemma d eps a effs args ga objs s s' order uorder Hd Hn Hg Happ Hev Hc Ho Hu Hret). Qed.

  (* frame: every other fact and fluent is unchanged *)
  Theorem C03_frame_fact : forall x, ~ In x (flat_map adds_of G) -> ~ In x (flat_map dels_of G) ->
    atom_in x (facts s') = atom_in x (facts s).
  Proof. exact (C03_frame_fact_lemma d eps a effs args ga objs s s' order uorder Hd Hn Hg Happ Hev Hc Ho Hu Hret). Qed.

  Theorem C03_frame_fluent : forall x, ~ In x (flat_map sets_of G) -> fluent_get x (fluents s') = fluent_get x (fluents s).
  Proof. exact (C03_frame_fluent_lemma d eps a effs args ga objs s s' order uorder Hd Hn Hg Happ Hev Hc Ho Hu Hret). Qed.

  (* delete then add: an atom that a firing group adds is present, even when the same group deletes it *)
  Theorem C03_delete_then_add : forall x, In x (flat_map adds_of G) -> atom_in x (facts s') = true.
  Proof. exact (C03_delete_then_add_lemma d eps a effs args ga objs s s' order uorder Hd Hn Hg Happ Hev Hc Ho Hu Hret). Qed.

  Theorem C03_deleted : forall x, ~ In x (flat_map adds_of G) -> In x (flat_map dels_of G) -> atom_in x (facts s') = false.
  Proof. exact (C03_deleted_lemma d eps a effs args ga objs s s' order uorder Hd Hn Hg Happ Hev Hc Ho Hu Hret). Qed.

  (* numeric effects read the state BEFORE the action: target and right-hand side are evaluated in s *)
  Theorem C03_numeric_prestate : forall ps rest k f fargs rhs,
    effs = EPrims ps :: rest -> In (PNum k f fargs rhs) ps ->
    let e := bind_args (spec_action a effs) args in
    let tgt := (f, map (subst e) fargs) in
    let old := match fluent_get tgt (fluents s) with Some v => v | None => 0%float end in
    let v := neval e s rhs in
    fluent_get tgt (fluents s') =
    Some (match k with AAssign => v | AIncrease => old + v | ADecrease => old - v end)%float.
  Proof. exact (C03_numeric_prestate_lemma d eps a effs args ga objs s s' order uorder Hd Hn Hg Happ Hev Hc Ho Hu Hret). Qed.
  (* conditional effects fire on the state BEFORE the action: a 'when' whose condition holds there adds its atoms, whatever
     the other effects do to the atoms the condition reads ... *)
  Theorem C03_when_adds : forall c ps p pargs,
    In (EWhen c ps) effs -> In (PAdd p pargs) ps ->
    let e := bind_args (spec_action a effs) args in
    holds eps (d_types d) objs e s c = true ->
    atom_in (p, map (subst e) pargs) (facts s') = true.
  Proof. exact (C03_when_adds_lemma d eps a effs args ga objs s s' order uorder Hd Hn Hg Happ Hev Hc Ho Hu Hret). Qed.

  (* ... and so does every instance of a 'forall-when', the variable ranging over the objects of the type and its subtypes *)
  Theorem C03_forall_when_adds : forall v ty c ps p pargs o,
    In (EForall v ty c ps) effs -> In (PAdd p pargs) ps ->
    In o (objects_of_type (d_types d) objs ty) ->
    let e := (v, o) :: bind_args (spec_action a effs) args in
    holds eps (d_types d) objs e s c = true ->
    atom_in (p, map (subst e) pargs) (facts s') = true.
  Proof. exact (C03_forall_when_adds_lemma d eps a effs args ga objs s s' order uorder Hd Hn Hg Happ Hev Hc Ho Hu Hret). Qed.
End Returned.

(* a 'forall' inside the condition of a 'when' (the class of the repaired defect D40): (p o1) is false, so
   (when (forall (?z - t0) (and (p ?z))) (q)) does not fire; with (p o1) it does *)
Theorem C03_when_forall_example :
  denote_effs d40_act = Some d40_effs /\ forallb eff_when_qfree d40_effs = false /\
  apply_op d40_dom ex_eps d40_ga (Some d40_objs) false false [0; 1] [] d40_state = Ok d40_state /\
  (exists s', apply_op d40_dom ex_eps d40_ga (Some d40_objs) false false [1; 0] [] d40_state2 = Ok s' /\
              atom_in ("q", []) (facts s') = true).
Proof. exact when_forall_example. Qed.

(* the hypotheses are satisfiable by a non-trivial action (add, delete, delete+add of one atom, increase, a firing
   'when', a non-firing 'when', a 'forall-when' over a type with a subtype), visited in the order [2;0;1] *)
Theorem C03_example :
  exists s', apply_op ex_dom ex_eps ex_ga (Some ex_objs) false false [2; 0; 1] [0] ex_state = Ok s' /\
             state_eq s' (successor ex_eps (d_types ex_dom) ex_objs (spec_action ex_act ex_effs) ex_args ex_state).
Proof. exact C03_example_lemma. Qed.

(* ---------- parsed domains: the denotation hypothesis discharged, the successor of the INDEPENDENT reading ----------
   For a domain text e that the model's parser accepts (parse_domain num e = Ok m) and that the independent grammar
   (Spec.Grammar.read_domain) reads as sd, every action ma of the object model has a counterpart sa in sd, and if sa is
   free of the two stored-but-unusable forms of C01 (action_ok: '(= 1 2)' between numerals, a numeric effect on a
   reserved word), then ma denotes an effect list (C03_Defs.denote_effs - the hypothesis of C03_successor) that is "the
   same effects" as sa's (Spec.Faithful.effs_rel: order of the groups, order inside a group, equivalent conditions).
   sections_once / C01_Defs.names_ok are C01's side conditions on the text (each section once; declared names are not
   reserved words). *)
Theorem C03_parsed_denotes : forall num e m sd n ma,
  parse_domain num e = Ok m -> read_domain num e = Some sd -> sections_once e -> C01_Defs.names_ok sd ->
  dget (d_actions m) n = Some ma ->
  exists sa, In sa (sd_actions sd) /\ n = lower_string (a_name sa) /\
             (action_ok sa = true ->
              ma_sig ma = dict_of (a_params sa) /\
              exists effs, C03_Defs.denote_effs ma = Some effs /\ effs_rel effs (a_effs sa)).
Proof. exact parsed_denotes. Qed.

(* "the same effects" have the same successor (and consistency transfers) *)
Theorem C03_same_effects_same_successor : forall eps tt objs A A' args s,
  map fst (a_params A) = map fst (a_params A') -> effs_rel (a_effs A) (a_effs A') ->
  consistent (all_groups eps tt objs A' args s) = true ->
  state_eq (successor eps tt objs A args s) (successor eps tt objs A' args s) /\
  consistent (all_groups eps tt objs A args s) = true.
Proof. exact successor_effs_rel. Qed.

(* C03_successor for parsed domains: no hypothesis about the object model's effect representation; consistency and the
   successor are those of the action sa as the independent grammar reads it from the text. *)
Theorem C03_successor_parsed : forall num e (m : mdomain) sd n (ma : maction),
  parse_domain num e = Ok m -> read_domain num e = Some sd -> sections_once e -> C01_Defs.names_ok sd ->
  dget (d_actions m) n = Some ma ->
  exists sa, In sa (sd_actions sd) /\ n = lower_string (a_name sa) /\
    (action_ok sa = true -> NoDup (map fst (a_params sa)) ->
     forall (eps : float) (args : list string) (ga : gaction) (objs : objects) (s : state),
       C03_Defs.names_ok m ma = true ->
       ground_action m ma args = Ok ga ->
       is_applicable m eps (Some objs) ga s = Ok true ->
       evaluates m eps objs ga s ->
       consistent (all_groups eps (d_types m) objs sa args s) = true ->
       forall order uorder, is_order order (List.length (ga_groups ga)) -> is_order uorder (List.length (ma_univ ma)) ->
       exists s', apply_op m eps ga (Some objs) false false order uorder s = Ok s' /\
                  state_eq s' (successor eps (d_types m) objs sa args s)).
Proof. exact successor_parsed. Qed.

(* ---------- call sequences on one grounded action (one Operator object) ----------
   model_chain s allows = what k = |allows| calls of apply return, each call applied to the state the previous call
   returned (to the state that call was given when it refused); allows = the allow_inapplicable_actions flag of each call.
   spec_chain = PDDL: Some successor when the call is applicable or forced, None (an error) otherwise.
   chain_hyps = at the states the model's chain visits: the library's applicability test answers as PDDL says (this is
   the statement of C02, taken as a premise here), visiting the groups raises nothing, the firing effects are consistent.
   step_rel r o: r = Ok s' and o = Some t' with state_eq s' t', or r = Err EValue (ValueError) and o = None.
   The model keeps nothing between two calls - that the library's Operator object does not either is what the
   correspondence check tests with the same sequences (Corr/C03.v seq3; seeded change C03_A). *)
Theorem C03_repeated_application :
  forall (d : mdomain) (eps : float) (a : maction) (effs : list eff) (args : list string) (ga : gaction)
         (objs : objects) (order uorder : list nat),
    denote_effs a = Some effs -> names_ok d a = true -> ground_action d a args = Ok ga ->
    is_order order (List.length (ga_groups ga)) -> is_order uorder (List.length (ma_univ a)) ->
    forall (allows : list bool) (s t : state),
      state_eq s t -> chain_hyps d eps args ga objs order uorder (spec_action a effs) s allows ->
      Forall2 step_rel (model_chain d eps ga objs order uorder s allows)
                       (spec_chain d eps args objs (spec_action a effs) t allows).
Proof. exact chain_refines. Qed.

(* the hypotheses are satisfiable: (increase (ticks) 1), a 'when' and a 'forall-when' that READ (ticks); four calls -
   applicable, applicable (forced flag irrelevant), refused ((ticks) = 2: ValueError), forced; every condition and
   right-hand side reads the value (ticks) had BEFORE its call *)
Theorem C03_repeated_application_example :
  chain_hyps tk_dom ex_eps tk_args tk_ga tk_objs [1; 0] [0] (spec_action tk_act tk_effs) tk_state tk_allows /\
  map (fun r => match r with
                | Ok s => Some (fluent_get ("ticks", []) (fluents s), fluent_get ("stamp", ["a"]) (fluents s),
                                fluent_get ("stamp", ["b"]) (fluents s), atom_in ("running", ["w1"]) (facts s))
                | Err _ => None end)
      (model_chain tk_dom ex_eps tk_ga tk_objs [1; 0] [0] tk_state tk_allows)
  = [Some (Some 1%float, Some 0%float, Some 7%float, true);
     Some (Some 2%float, Some 1%float, Some 7%float, false);
     None;
     Some (Some 3%float, Some 2%float, Some 7%float, false)] /\
  Forall2 step_rel (model_chain tk_dom ex_eps tk_ga tk_objs [1; 0] [0] tk_state tk_allows)
                   (spec_chain tk_dom ex_eps tk_args tk_objs (spec_action tk_act tk_effs) tk_state tk_allows).
Proof. exact (conj tk_hyps (conj (proj1 tk_chain) tk_refines)). Qed.

(* ---------- calls whose firing groups are INCONSISTENT (outside the property: PDDL defines no successor there) ----------
   The correspondence check judges what the library returns for such calls by weak_succ_ok (Proofs/C03_Weak.v): an atom
   that a group adds and no OTHER group deletes is present, an atom that is only deleted is absent, an atom added by one
   group and deleted by another may be either, a fluent that firing effects set holds one of the values they computed
   in the pre-state, every other fact and fluent is unchanged.  The oracle raises no false alarm: the outcome of the
   firing groups applied one after another in ANY order passes it ... *)
Theorem C03_inconsistent_oracle_sound :
  forall (s : state) (gs gs' : list (list gprim)), Permutation gs gs' -> weak_succ_ok s gs (succ s gs') = true.
Proof. exact weak_succ_sound. Qed.

(* ... and so does what the model returns, in every visiting order, with or without consistency *)
Theorem C03_inconsistent_model_passes :
  forall (d : mdomain) (eps : float) (a : maction) (effs : list eff) (args : list string) (ga : gaction)
         (objs : objects) (s : state) (allow b : bool),
    denote_effs a = Some effs -> names_ok d a = true -> ground_action d a args = Ok ga ->
    evaluates d eps objs ga s ->
    is_applicable d eps (Some objs) ga s = Ok b -> (b = true \/ allow = true) ->
    forall order uorder, is_order order (List.length (ga_groups ga)) -> is_order uorder (List.length (ma_univ a)) ->
    exists s', apply_op d eps ga (Some objs) allow false order uorder s = Ok s' /\
               weak_succ_ok s (all_groups eps (d_types d) objs (spec_action a effs) args s) s' = true.
Proof. exact inconsistent_passes. Qed.

(* ---------- SHADOWING: a quantified variable named like an action parameter / like an enclosing quantified variable ----------
   Nothing above excludes it (names_ok speaks about the domain's CONSTANTS only): inside the quantifier the name is the object
   ranged over (Model.Exec binds it last: dset (ga_pm ga) v o; Spec.Pddl innermost: (v, o) :: env), outside the parameter keeps
   its meaning.  The example is parsed by the model's parser from
     (:action sweep :parameters (?x - t0) :precondition (and (not (p ?x)))
       :effect (and (mark ?x) (forall (?x - t0) (when (p ?x) (and (not (p ?x)) (assign (f ?x) 0))))
                    (when (forall (?x - t0) (and (q ?x))) (done ?x))
                    (forall (?z - t0) (when (and (r ?z) (forall (?z - t1) (and (p ?z)))) (not (r ?z))))))
   called as (sweep o0) where (p o1), (p o2) hold and (p o0) does not: every hypothesis of C03_successor holds, the model returns
   the successor, and in it o1 and o2 - objects OTHER than the argument - are reset while (mark o0), (done o0) speak about the
   argument (seeded change C03_F, which let the action's own bindings win over the quantified one, is reported by the
   correspondence check: stream 'shadow' and the shadowing bodies of the small scope). *)
Theorem C03_shadow_example :
  names_ok sh_dom sh_act = true /\ dkeys (ma_sig sh_act) = ["?x"] /\ map ue_var (ma_univ sh_act) = ["?x"; "?z"] /\
  exists s', apply_op sh_dom ex_eps sh_ga (Some sh_objs) false false [1; 0] [1; 0] sh_state = Ok s' /\
             state_eq s' (successor ex_eps (d_types sh_dom) sh_objs (spec_action sh_act sh_effs) sh_args sh_state) /\
             atom_in ("p", ["o1"]) (facts s') = false /\ atom_in ("p", ["o2"]) (facts s') = false /\
             atom_in ("mark", ["o0"]) (facts s') = true /\ atom_in ("done", ["o0"]) (facts s') = true /\
             fluent_get ("f", ["o0"]) (fluents s') = Some 1%float /\ fluent_get ("f", ["o1"]) (fluents s') = Some 0%float.
Proof. exact shadow_example. Qed.

(* ---------- an Operator built WITHOUT an object table (problem_objects=None) ----------
   The library cannot range over anything then: a quantified condition reads true, universal effects are skipped (a warning is
   logged).  On the model this is EXACTLY the behaviour of the EMPTY table - same state or same exception for every action,
   state, flags and visiting orders ... *)
Theorem C03_no_table_is_empty_table :
  forall (d : mdomain) (eps : float) (ga : gaction) (allow skip : bool) (order uorder : list nat) (s : state),
    apply_op d eps ga None allow skip order uorder s = apply_op d eps ga (Some []) allow skip order uorder s.
Proof. exact no_table_is_empty_table. Qed.

(* ... so whatever such a call returns is the PDDL successor of the action WITHOUT its quantified parts (strip_action: every
   (forall ...) condition replaced by truth, every forall-when dropped - the oracle of the correspondence check for such calls),
   which is the action's successor over the empty universe (C03_no_table_oracle).
   This is about None only: an EMPTY table that the caller does hand over ({}: a problem that declares no object) is a table -
   the Operator ranges over quantification_objects d [] = the domain's constants, and C03_successor applies with objs := d_consts d
   (seeded change C02_E, 'not problem_objects' for 'is None', is reported by the stream 'object-table' of the check). *)
Theorem C03_no_table_successor :
  forall (d : mdomain) (eps : float) (a : maction) (effs : list eff) (args : list string) (ga : gaction)
         (s s1 : state) (allow : bool) (order uorder : list nat) (objs : objects),
    denote_effs a = Some effs -> names_ok d a = true ->
    ground_action d a args = Ok ga ->
    is_order order (List.length (ga_groups ga)) -> is_order uorder (List.length (ma_univ a)) ->
    apply_op d eps ga None allow false order uorder s = Ok s1 ->
    consistent (all_groups eps (d_types d) objs (strip_action (spec_action a effs)) args s) = true ->
    state_eq s1 (successor eps (d_types d) objs (strip_action (spec_action a effs)) args s).
Proof. exact no_table_successor. Qed.

(* an EMPTY table is a table: the Operator of a problem without objects ranges over the domain's constants (C03_successor & co. apply
   with objs := quantification_objects d [] - what the correspondence check passes to the model for such problems) *)
Theorem C03_empty_table_is_constants : forall d : mdomain, quantification_objects d [] = d_consts d.
Proof. exact empty_table_is_constants. Qed.

Theorem C03_no_table_oracle : forall eps tt objs A args s,
  successor eps tt objs (strip_action A) args s = successor eps tt [] A args s /\
  applicable eps tt objs (strip_action A) args s = applicable eps tt [] A args s.
Proof. exact strip_successor. Qed.

Print Assumptions C03_successor.
Print Assumptions C03_shadow_example.
Print Assumptions C03_no_table_is_empty_table.
Print Assumptions C03_no_table_successor.
Print Assumptions C03_no_table_oracle.
Print Assumptions C03_empty_table_is_constants.
Print Assumptions C03_inconsistent_oracle_sound.
Print Assumptions C03_inconsistent_model_passes.
Print Assumptions C03_repeated_application.
Print Assumptions C03_repeated_application_example.
Print Assumptions C03_parsed_denotes.
Print Assumptions C03_same_effects_same_successor.
Print Assumptions C03_successor_parsed.
Print Assumptions C03_successor_judged.
Print Assumptions C03_returned_is_successor.
Print Assumptions C03_order_independent.
Print Assumptions C03_order_independent_model.
Print Assumptions C03_groups_commute.
Print Assumptions C03_order_independent_run.
Print Assumptions C03_stored_order.
Print Assumptions C03_effects_order.
Print Assumptions C03_refused.
Print Assumptions C03_forced.
Print Assumptions C03_facts.
Print Assumptions C03_frame_fact.
Print Assumptions C03_frame_fluent.
Print Assumptions C03_delete_then_add.
Print Assumptions C03_deleted.
Print Assumptions C03_numeric_prestate.
Print Assumptions C03_when_adds.
Print Assumptions C03_forall_when_adds.
Print Assumptions C03_when_forall_example.
Print Assumptions C03_example.
