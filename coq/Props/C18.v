(* C18 - renaming the parameters of an action does not change what the action does.
   "Renaming the parameters of an action by any injective map - including maps whose new names overlap the old
    ones - yields a schema with the same number, order and types of parameters that is applicable in the same
    states and produces the same successors for every argument tuple as the original."
   Statements only; proofs in Proofs/C18_*.v.

   Model.ChangeSignature.change_signature is the renaming as repaired by D23 (e740ca9); since eb5fde6 (repair of the
   quantified-variable half of D75) the code additionally renames a quantified variable out of the way when a new name
   equals it: the model of the code is Model.ChangeSignatureAlpha.change_signature_a, which returns exactly
   change_signature's result under the side condition below (C18_alpha_step_inactive, C18_repaired_model) - so the
   theorems, stated for change_signature, are theorems about the code on the fragment they cover.
   The side condition [renaming_ok dom a m] (Proofs/C18_Check.v, a boolean) reads: the action is well formed (no
   repeated argument in a literal, operators at the root of numeric conditions - what the parser guarantees), the
   mapping m is injective on the parameters and on every other name the action mentions, and a name it moves is
   not a constant and does not land on a constant or on a quantified variable of the action.  Fresh names,
   permutations of the parameter names and chains ?a->?b->?c->fresh satisfy it (Examples below); the Examples
   C18_*_needed show that none of its clauses can be dropped FOR change_signature (for the code, landing on a
   quantified variable has become harmless: C18_capture_repaired; landing on a constant has not: C18_refuted). *)
From Coq Require Import List String Bool PrimFloat.
From Verif Require Import Base.Result Base.PyDict Model.Domain Model.Exec Model.ChangeSignature
  Spec.Pddl Spec.Rename
  Base.Sexp Model.Types
  Proofs.C18_Dict Proofs.C18_Alpha Proofs.C18_Denote Proofs.C18_Exec Proofs.C18_Check Proofs.C18_Parser Proofs.C18_Legacy
  Proofs.C18_Main Proofs.C18_Seq Proofs.C18_ParsedDomain
  Model.ChangeSignatureAlpha Proofs.C18_AlphaStep Proofs.C18_Repaired
  Proofs.C18_AlphaSem Proofs.C18_AlphaCorrect Proofs.C18_AlphaWF Proofs.C18_AlphaTotal.
Import ListNotations.
Open Scope string_scope.
Open Scope list_scope.

(* ---- spec lemma: alpha-invariance.  An admissibly renamed action (Spec.Rename) is applicable in the same states
        and has the same successors, for every state and every argument tuple of the right length ---- *)
Theorem C18_alpha (eps : float) (tt : tytree) (objs : objects) (rho : ren) (a : action) (args : list name) (s : state) :
  admissible rho a -> List.length args = List.length (a_params a) ->
  applicable eps tt objs (ren_action rho a) args s = applicable eps tt objs a args s /\
  successor eps tt objs (ren_action rho a) args s = successor eps tt objs a args s.
Proof. intros H L. split; [exact (alpha_applicable eps tt objs rho a args s H L)|exact (alpha_successor eps tt objs rho a args s H L)]. Qed.

(* ---- same number, order and types of parameters ---- *)
Theorem C18_signature (m : renaming) (a : maction) :
  NoDup (dkeys (ma_sig a)) ->
  (forall x y, In x (dkeys (ma_sig a)) -> In y (dkeys (ma_sig a)) -> rn m x = rn m y -> x = y) ->
  ma_sig (change_signature m a) = map (rn_item m) (ma_sig a).
Proof. exact (signature_renamed m a). Qed.

(* ---- the main theorem: the model of change_signature is the simultaneous substitution, and the renamed action
        behaves as the original on the executable model (same_behaviour: same grounding errors, same
        is_applicable, same apply_op for every call, state, tolerance, object table, flags and effect orders) ---- *)
Theorem C18_rename (dom : mdomain) (m : renaming) (a : maction) :
  renaming_ok dom a m = true ->
  ma_sig (change_signature m a) = map (rn_item m) (ma_sig a) /\
  denote_pre (ma_pre (change_signature m a)) = option_map (ren_form (rn m)) (denote_pre (ma_pre a)) /\
  denote_effs (change_signature m a) = option_map (map (ren_eff (rn m))) (denote_effs a) /\
  denote_action (change_signature m a) = option_map (ren_action (rn m)) (denote_action a) /\
  same_behaviour dom a (change_signature m a).
Proof. exact (rename_correct dom m a). Qed.

(* ---- the side condition in words: for a well-formed action (what the parser produces) a mapping passes as soon as
        it moves parameters only, is injective on them, and sends a moved parameter to another parameter's name
        (overlap is fine) or to a name the action does not mention, never to a quantified variable or a constant ---- *)
Theorem C18_side_condition (dom : mdomain) (a : maction) (m : renaming) :
  let ps := dkeys (ma_sig a) in
  well_formed a = true ->
  (forall n, ~ In n ps -> rn m n = n) ->
  (forall x y, In x ps -> In y ps -> rn m x = rn m y -> x = y) ->
  (forall p, In p ps -> rn m p <> p ->
     (In (rn m p) ps \/ ~ In (rn m p) (names_action a)) /\
     ~ In (rn m p) (bound_maction a) /\ dmem (d_consts dom) (rn m p) = false /\ dmem (d_consts dom) p = false) ->
  renaming_ok dom a m = true.
Proof. exact (renaming_ok_intro dom a m). Qed.

(* ---- the well-formedness half of the side condition is what the (model of the) domain parser guarantees, whenever
        the declared functions have distinct parameter names (true of every table built by parse_domain,
        Proofs.C18_Parser.parsed_funcs_NoDup), none is named like a comparison/assignment operator, and no numeral
        starts with '<' or '>' (Python's float() accepts none) ---- *)
Theorem C18_parser_well_formed (num : numparser) (tt : typetable) (consts : pydict string) (preds funcs : pydict signature)
        (e : list sexp) (a : maction) :
  wf_funcs funcs -> num_ok num -> parse_action num tt consts preds funcs e = Ok a -> well_formed a = true.
Proof. exact (fun W K => parse_action_well_formed num tt consts preds funcs W K e a). Qed.

(* ---- hence, for every action the parser returns, C18_rename applies under a condition on the mapping alone ---- *)
Theorem C18_rename_parsed (num : numparser) (dom : mdomain) (e : list sexp) (a : maction) (m : renaming) :
  wf_funcs (d_funcs dom) -> num_ok num ->
  parse_action num (d_types dom) (d_consts dom) (d_preds dom) (d_funcs dom) e = Ok a ->
  let ps := dkeys (ma_sig a) in
  (forall n, ~ In n ps -> rn m n = n) ->
  (forall x y, In x ps -> In y ps -> rn m x = rn m y -> x = y) ->
  (forall p, In p ps -> rn m p <> p ->
     (In (rn m p) ps \/ ~ In (rn m p) (names_action a)) /\
     ~ In (rn m p) (bound_maction a) /\ dmem (d_consts dom) (rn m p) = false /\ dmem (d_consts dom) p = false) ->
  ma_sig (change_signature m a) = map (rn_item m) (ma_sig a) /\
  denote_action (change_signature m a) = option_map (ren_action (rn m)) (denote_action a) /\
  same_behaviour dom a (change_signature m a).
Proof. exact (rename_parsed num dom e a m). Qed.

(* ---- the same for the actions of a PARSED DOMAIN, with no assumption on tables left: every action registered in the
        domain returned by parse_domain is well formed as soon as no (:functions ...) section of the text declares a
        function named like a comparison / assignment operator (funcs_heads_ok, a decidable condition on the text:
        funcs_heads_okb) and no numeral starts with '<' or '>' ---- *)
Theorem C18_parsed_domain_well_formed (num : numparser) (e : sexp) (dom : mdomain) :
  num_ok num -> funcs_heads_ok e -> parse_domain num e = Ok dom ->
  forall n a, dget (d_actions dom) n = Some a -> well_formed a = true.
Proof. exact (parsed_domain_well_formed num e dom). Qed.

Theorem C18_rename_parsed_domain (num : numparser) (e : sexp) (dom : mdomain) (name : string) (a : maction) (m : renaming) :
  num_ok num -> funcs_heads_ok e -> parse_domain num e = Ok dom -> dget (d_actions dom) name = Some a ->
  let ps := dkeys (ma_sig a) in
  (forall n, ~ In n ps -> rn m n = n) ->
  (forall x y, In x ps -> In y ps -> rn m x = rn m y -> x = y) ->
  (forall p, In p ps -> rn m p <> p ->
     (In (rn m p) ps \/ ~ In (rn m p) (names_action a)) /\
     ~ In (rn m p) (bound_maction a) /\ dmem (d_consts dom) (rn m p) = false /\ dmem (d_consts dom) p = false) ->
  ma_sig (change_signature m a) = map (rn_item m) (ma_sig a) /\
  denote_action (change_signature m a) = option_map (ren_action (rn m)) (denote_action a) /\
  same_behaviour dom a (change_signature m a).
Proof. exact (rename_parsed_domain num e dom name a m). Qed.

(* its hypotheses are satisfiable: a domain text read by the model's tokenizer and parser, whose action holds the mirrored
   literals (p ?x ?y) (p ?y ?x), a forall condition, a when and a forall-when effect; swapped ?x <-> ?y *)
Example C18_example_parsed :
  Tokenizer.parse Tokenizer.MFile (Base.Str.s2t exd_text) = Ok exd_sexp /\
  parse_domain exd_num exd_sexp = Ok exd_dom /\ dget (d_actions exd_dom) "act" = Some exd_act /\
  num_ok exd_num /\ funcs_heads_ok exd_sexp /\
  List.length (ma_cond exd_act) = 1 /\ List.length (ma_univ exd_act) = 1.
Proof. exact exd_parsed. Qed.

Example C18_example_parsed_swap :
  same_behaviour exd_dom exd_act (change_signature [("?x", "?y"); ("?y", "?x")] exd_act).
Proof. exact exd_swap_behaviour. Qed.

(* ---- model and spec together: the action denoted by the renamed object model has the applicability and the
        successors of the action denoted by the original ---- *)
Theorem C18_denoted_behaviour (dom : mdomain) (m : renaming) (a : maction) (A : action) :
  renaming_ok dom a m = true -> denote_action a = Some A -> admissible (rn m) A ->
  exists A', denote_action (change_signature m a) = Some A' /\
    forall eps tt objs args s, List.length args = List.length (a_params A) ->
      applicable eps tt objs A' args s = applicable eps tt objs A args s /\
      successor eps tt objs A' args s = successor eps tt objs A args s.
Proof. exact (denoted_behaviour dom m a A). Qed.

(* ---- several calls in a row (the same mapping again, another one, the inverse): when every step passes the side
        condition on the action it is applied to (ok_seq), the final object model denotes the original action under the
        composed substitution and behaves as the original ---- *)
Theorem C18_rename_seq (dom : mdomain) (ms : list renaming) (a : maction) :
  ok_seq dom a ms = true ->
  denote_action (cs_seq ms a) = option_map (ren_seq ms) (denote_action a) /\
  same_behaviour dom a (cs_seq ms a).
Proof. exact (rename_seq_correct dom ms a). Qed.

(* ---- the round trip is exact: a mapping that passes the side condition followed by ANY mapping that sends every new
        name back to the old one returns the action itself (the same object model, not only the same behaviour) ---- *)
Theorem C18_roundtrip (dom : mdomain) (a : maction) (m m' : renaming) :
  renaming_ok dom a m = true ->
  (forall n, In n (names_action a) -> rn m' (rn m n) = n) ->
  change_signature m' (change_signature m a) = a.
Proof. exact (roundtrip_exact dom a m m'). Qed.

Example C18_example_roundtrip :
  change_signature (turned ex_rotation) (change_signature ex_rotation ex_act) = ex_act /\
  change_signature (turned ex_swap) (change_signature ex_swap ex_act) = ex_act /\
  change_signature (turned ex_chain) (change_signature ex_chain ex_act) = ex_act /\
  change_signature (turned ex_fresh) (change_signature ex_fresh ex_act) = ex_act /\
  change_signature ex_swap (change_signature ex_swap ex_act) = ex_act.
Proof. exact ex_roundtrip. Qed.

Example C18_example_seq :
  ok_seq ex_dom ex_act [ex_rotation; ex_rotation; ex_rotation] = true /\
  cs_seq [ex_rotation; ex_rotation; ex_rotation] ex_act = ex_act /\
  ok_seq ex_dom ex_act [ex_chain; turned ex_chain; ex_swap; ex_fresh] = true.
Proof. exact ex_seq_ok. Qed.

(* ---- the hypotheses are satisfiable: a 3-parameter action with a nested or, a forall condition, a when and a
        forall-when effect and a constant, under a rotation of its parameter names, a swap, a chain, fresh names ---- *)
Example C18_example_ok :
  renaming_ok ex_dom ex_act ex_rotation = true /\ renaming_ok ex_dom ex_act ex_swap = true /\
  renaming_ok ex_dom ex_act ex_chain = true /\ renaming_ok ex_dom ex_act ex_fresh = true.
Proof. exact (conj ex_rotation_ok (conj ex_swap_ok (conj ex_chain_ok ex_fresh_ok))). Qed.

Example C18_example_behaviour : same_behaviour ex_dom ex_act (change_signature ex_rotation ex_act).
Proof. exact ex_rotation_behaviour. Qed.

Example C18_example_run : ex_run (change_signature ex_rotation ex_act) = ex_run ex_act /\ is_ok (ex_run ex_act) = true.
Proof. split; [exact ex_run_renamed|rewrite ex_run_original; reflexivity]. Qed.

(* ---- every clause of the side condition is needed ---- *)
Example C18_injective_needed :
  ma_sig (change_signature [("?x", "?n"); ("?y", "?n")] ex_act) = [("?n", "t0"); ("?z", "t0")] /\
  renaming_ok ex_dom ex_act [("?x", "?n"); ("?y", "?n")] = false.
Proof. exact collapse_when_not_injective. Qed.

Example C18_no_capture_needed :
  renaming_ok ex_dom ex_act [("?z", "?u")] = false /\
  (do ga <- ground_action ex_dom ex_act ["o0"; "o1"; "o2"];
   is_applicable ex_dom ex_eps (Some ex_objs) ga ex_state) = Ok true /\
  (do ga <- ground_action ex_dom (change_signature [("?z", "?u")] ex_act) ["o0"; "o1"; "o2"];
   is_applicable ex_dom ex_eps (Some ex_objs) ga
     {| facts := ("p", ["c0"; "c0"]) :: facts ex_state; fluents := fluents ex_state |}) <>
  (do ga <- ground_action ex_dom ex_act ["o0"; "o1"; "o2"];
   is_applicable ex_dom ex_eps (Some ex_objs) ga
     {| facts := ("p", ["c0"; "c0"]) :: facts ex_state; fluents := fluents ex_state |}).
Proof. exact capture_changes_behaviour. Qed.

Example C18_no_constant_needed :
  renaming_ok ex_dom ex_act [("?z", "c0")] = false /\
  ex_run (change_signature [("?z", "c0")] ex_act) <> ex_run ex_act.
Proof. exact constant_changes_behaviour. Qed.

(* ================================================================================================== *)
(* The code as it is since /repo eb5fde6 (repair of the quantified-variable half of finding D75)          *)
(* ================================================================================================== *)
(* Since eb5fde6 a quantifier of the action renames its own variable to a fresh name (?u_0, ?u_1, ...) when a new
   parameter name equals it.  The model of Action.change_signature is Model.ChangeSignatureAlpha.change_signature_a
   (fuelled: Err EFuel beyond nesting depth alpha_fuel = 200); Model.ChangeSignature.change_signature, about which the
   theorems above speak, is the same renaming without that step.  ---- Wherever no entry of the mapping lands on a
   quantified variable of the action - in particular under the side condition of C18_rename, for a dict (distinct keys)
   whose moved keys are names of the action - the code's model returns, and returns exactly what change_signature
   returns: every theorem above is a theorem about the code on the fragment it covers ---- *)
Theorem C18_alpha_step_inactive (dom : mdomain) (a a' : maction) (m : renaming) :
  renaming_ok dom a m = true -> NoDup (dkeys m) ->
  (forall k x, In (k, x) m -> k <> x -> In k (names_action a)) ->
  change_signature_a m a = Ok a' -> a' = change_signature m a.
Proof. exact (change_signature_a_ok dom a a' m). Qed.

Theorem C18_repaired_model (dom : mdomain) (a : maction) (m : renaming) :
  renaming_ok dom a m = true -> NoDup (dkeys m) ->
  (forall k x, In (k, x) m -> k <> x -> In k (names_action a)) ->
  depth_action a <= alpha_fuel ->
  change_signature_a m a = Ok (change_signature m a).
Proof. exact (change_signature_a_total dom a m). Qed.

(* ---- the property read literally, for the code's model: ANY mapping that moves parameters only and is injective on
        them.  It is still false of the code (recorded finding D75, now its constant half only: nothing compares the new
        names with the constants of the domain - an Action does not know them); C18_rename_partial is the partial theorem
        on the largest fragment proved - the side condition renaming_ok adds "a moved name is not a constant and does
        not land on a constant, on a quantified variable or on another name the action mentions" - and C18_refuted the
        refutation (witness: ?z -> c0, a constant of the domain; evaluated by vm_compute).  Mappings that land on a
        quantified variable are outside renaming_ok but no longer refute anything: the code now makes room for them
        (Example C18_capture_repaired; tied to /repo by the correspondence, where they are judged like every
        admissible mapping) ---- *)
Definition C18_full_statement : Prop :=
  forall (dom : mdomain) (a a' : maction) (m : renaming),
    well_formed a = true ->
    (forall n, ~ In n (dkeys (ma_sig a)) -> rn m n = n) ->
    (forall x y, In x (dkeys (ma_sig a)) -> In y (dkeys (ma_sig a)) -> rn m x = rn m y -> x = y) ->
    change_signature_a m a = Ok a' ->
    same_behaviour dom a a'.

Theorem C18_rename_partial (dom : mdomain) (m : renaming) (a : maction) :
  renaming_ok dom a m = true -> NoDup (dkeys m) ->
  (forall k x, In (k, x) m -> k <> x -> In k (names_action a)) ->
  depth_action a <= alpha_fuel ->
  exists a', change_signature_a m a = Ok a' /\
    ma_sig a' = map (rn_item m) (ma_sig a) /\
    denote_action a' = option_map (ren_action (rn m)) (denote_action a) /\
    same_behaviour dom a a'.
Proof. exact (rename_repaired_correct dom m a). Qed.

Theorem C18_refuted : ~ C18_full_statement.
Proof. exact full_statement_a_refuted. Qed.

(* the witness of the finding as it was recorded before eb5fde6 (?z -> ?u, the variable of
   (forall (?u - t0) (or (p ?u ?z) (q ?u)))): the quantified variable moves to ?u_0 and the renamed action behaves as the
   original, also in the state where the unrepaired renaming differs (C18_no_capture_needed) *)
Example C18_capture_repaired :
  exists a', change_signature_a [("?z", "?u")] ex_act = Ok a' /\
    In (MUniv "?u_0" "t0" (MPre "or" [MLit true "p" ["?u_0"; "?u"]; MLit true "q" ["?u_0"]] [] []))
       (match ma_pre a' with MPre _ os _ _ => os end) /\
    ex_run a' = ex_run ex_act /\
    (do ga <- ground_action ex_dom a' ["o0"; "o1"; "o2"]; is_applicable ex_dom ex_eps (Some ex_objs) ga ex_state_cc) =
    (do ga <- ground_action ex_dom ex_act ["o0"; "o1"; "o2"]; is_applicable ex_dom ex_eps (Some ex_objs) ga ex_state_cc).
Proof. exact capture_repaired. Qed.

(* ---- the alpha step is CORRECT (wave 2): mappings that DO land on a quantified variable.  Whenever the code's model
        returns on a well-formed action whose object model denotes the action A (Spec.Pddl), under a mapping that moves
        parameters only and is injective on the names in sight (the parameters and the free names of A) - with NO clause
        about the quantified variables: a new name may be one of them, and may be one of the fresh names ?v_0, ?v_1 ... the
        library would pick - the result denotes an action A' with the renamed parameter list (same number, order, types)
        that is applicable in the same states and has the same successors as A for every argument tuple.  A' is
        Spec.Rename.ren_action (rn m) A up to the names of the bound variables: the proof relates the two formulas by
        Proofs.C18_AlphaSem.simf (truth under environments that agree through the substitution), the generalisation of the
        lemma behind C18_alpha (Proofs.C18_Alpha.holds_ren) to quantifiers whose variable changes name; what it uses of
        fresh_variable_name is what that function tests (not a token of the printed quantifier, neither a key nor a value
        of the mapping in force).  "Returns": see C18_alpha_returns / C18_alpha_total below ---- *)
Theorem C18_alpha_correct (m : renaming) (a a' : maction) (A : action) :
  nodup_action a -> denote_action a = Some A ->
  (forall n, ~ In n (params A) -> rn m n = n) ->
  inj_on (rn m) (params A ++ free_action A) ->
  change_signature_a m a = Ok a' ->
  exists A', denote_action a' = Some A' /\
    a_name A' = a_name A /\
    a_params A' = map (fun pt => (rn m (fst pt), snd pt)) (a_params A) /\
    forall eps tt objs args s, List.length args = List.length (a_params A) ->
      applicable eps tt objs A' args s = applicable eps tt objs A args s /\
      successor eps tt objs A' args s = successor eps tt objs A args s.
Proof. exact (change_signature_a_correct m a a' A). Qed.

(* the same with computable hypotheses: well_formed is what the parser guarantees (C18_parsed_domain_well_formed),
   alpha_okb decides the two conditions on the mapping *)
Theorem C18_alpha_correct_checked (m : renaming) (a a' : maction) (A : action) :
  well_formed a = true -> denote_action a = Some A -> alpha_okb A m = true ->
  change_signature_a m a = Ok a' ->
  exists A', denote_action a' = Some A' /\
    a_name A' = a_name A /\
    a_params A' = map (fun pt => (rn m (fst pt), snd pt)) (a_params A) /\
    forall eps tt objs args s, List.length args = List.length (a_params A) ->
      applicable eps tt objs A' args s = applicable eps tt objs A args s /\
      successor eps tt objs A' args s = successor eps tt objs A args s.
Proof. exact (change_signature_a_correct_b m a a' A). Qed.

(* ---- the code's model RETURNS: fresh_variable_name's loop ends within the fuel of its model (the candidates ?v_0, ?v_1 ...
        are pairwise distinct, a blocked one is a non-empty substring of a token or a key or a value of the mapping, and there
        are fewer of those than the fuel: pigeonhole), so Err EFuel can only come from conditions nested deeper than
        alpha_fuel = 200.  Together with C18_alpha_correct: for every well-formed action of nesting depth <= 200 and every
        mapping that moves parameters only and is injective on the names in sight, change_signature_a returns an object model
        that denotes an action with the renamed parameter list, the same applicability and the same successors ---- *)
Theorem C18_fresh_name_total (v : string) (toks : list string) (m : renaming) : exists c, fresh_name v toks m = Ok c.
Proof. exact (fresh_name_total v toks m). Qed.

Theorem C18_alpha_returns (m : renaming) (a : maction) :
  depth_action a <= alpha_fuel -> exists a', change_signature_a m a = Ok a'.
Proof. exact (change_signature_a_returns m a). Qed.

Theorem C18_alpha_total (m : renaming) (a : maction) (A : action) :
  nodup_action a -> denote_action a = Some A -> depth_action a <= alpha_fuel ->
  (forall n, ~ In n (params A) -> rn m n = n) ->
  inj_on (rn m) (params A ++ free_action A) ->
  exists a' A', change_signature_a m a = Ok a' /\ denote_action a' = Some A' /\
    a_name A' = a_name A /\
    a_params A' = map (fun pt => (rn m (fst pt), snd pt)) (a_params A) /\
    forall eps tt objs args s, List.length args = List.length (a_params A) ->
      applicable eps tt objs A' args s = applicable eps tt objs A args s /\
      successor eps tt objs A' args s = successor eps tt objs A args s.
Proof. exact (change_signature_a_total_correct m a A). Qed.

(* the step underneath, for one condition: the renamed condition holds in e' exactly when the original holds in e, for
   all environments that agree through the mapping on the free names *)
Theorem C18_alpha_condition (fuel : nat) (m : renaming) (p p' : mpre) (F : form) :
  rename_pre_a fuel m p = Ok p' -> denote_pre p = Some F -> nodup_pre p -> inj_on (rn m) (free_form F) ->
  exists F', denote_pre p' = Some F' /\
    forall eps tt objs s e e', agree_on (rn m) e e' (free_form F) ->
      holds eps tt objs e' s F' = holds eps tt objs e s F.
Proof. exact (rename_pre_a_sim fuel m p p' F). Qed.

(* its hypotheses are satisfiable by a mapping OUTSIDE renaming_ok: an action with a quantified precondition that nests a
   second quantifier and a quantified effect, a parameter already named ?x_1; ?a -> ?x (the quantified variable),
   ?b -> ?x_0 (the first fresh name the library would try), ?x_1 -> ?x_2 (the inner quantifier's variable).  The
   quantifiers move to ?x_3 and ?x_2_0 *)
Example C18_example_alpha :
  well_formed al_act = true /\ denote_action al_act = Some al_A /\ alpha_okb al_A al_map = true /\
  (forall dom, renaming_ok dom al_act al_map = false) /\
  exists a', change_signature_a al_map al_act = Ok a' /\
    ma_sig a' = [("?x", "t0"); ("?x_0", "t0"); ("?x_2", "t0")] /\
    In (MUniv "?x_3" "t0" (MPre "or" [MLit true "p" ["?x_3"; "?x"]; MLit true "q" ["?x_0"];
                                      MUniv "?x_2_0" "t0" (MPre "and" [MLit true "p" ["?x_2_0"; "?x_3"]; MLit true "q" ["?x_2"]] [] [])] [] []))
       (match ma_pre a' with MPre _ os _ _ => os end).
Proof. exact al_example. Qed.

(* why the fresh name must stay clear of the VALUES of the mapping (the capture a weaker test would allow) *)
Example C18_alpha_values_needed :
  let A := {| a_name := "a"; a_params := [("?a", "t"); ("?b", "t")];
              a_pre := FForall "?x" "t" (FOr [FAtom "p" ["?x"]; FAtom "q" ["?b"]]); a_effs := [] |} in
  let captured := {| a_name := "a"; a_params := [("?x", "t"); ("?x_0", "t")];
                     a_pre := FForall "?x_0" "t" (FOr [FAtom "p" ["?x_0"]; FAtom "q" ["?x_0"]]); a_effs := [] |} in
  let s := {| facts := [("q", ["o1"])]; fluents := [] |} in
  applicable 0%float [] [("o1", "t"); ("o2", "t")] A ["o1"; "o1"] s = true /\
  applicable 0%float [] [("o1", "t"); ("o2", "t")] captured ["o1"; "o1"] s = false.
Proof. exact al_values_matter. Qed.

(* ---- the code before eb5fde6 (Model.ChangeSignature.change_signature is its model): the literal reading was refuted
        by a quantified variable as well (witness ?z -> ?u; finding D75b, fixed) ---- *)
Definition C18_before_D75b_full_statement : Prop :=
  forall (dom : mdomain) (a : maction) (m : renaming),
    well_formed a = true ->
    (forall n, ~ In n (dkeys (ma_sig a)) -> rn m n = n) ->
    (forall x y, In x (dkeys (ma_sig a)) -> In y (dkeys (ma_sig a)) -> rn m x = rn m y -> x = y) ->
    same_behaviour dom a (change_signature m a).

Theorem C18_before_D75b_partial (dom : mdomain) (m : renaming) (a : maction) :
  renaming_ok dom a m = true -> same_behaviour dom a (change_signature m a).
Proof. exact (rename_same_behaviour dom a m). Qed.

Theorem C18_before_D75b_refuted : ~ C18_before_D75b_full_statement.
Proof. exact full_statement_refuted. Qed.

(* ---- what the repair changed (model of the code before D23, Model.ChangeSignature.legacy_change_signature) ---- *)
(* the old in-place loop was right exactly where the repository's tests used it: every key to a fresh name *)
Theorem C18_legacy_partial {V} (m : renaming) (sg : pydict V) :
  (forall k, In k (dkeys sg) -> dget m k <> None) ->
  (forall k, In k (dkeys sg) -> ~ In (rn m k) (dkeys sg)) ->
  NoDup (map (rn m) (dkeys sg)) ->
  pop_insert m sg = Ok (rebuild m sg) /\ rebuild m sg = map (rn_item m) sg.
Proof. exact (legacy_partial m sg). Qed.

(* ... and wrong for overlapping names, constants and conditional effects (witnesses computed by vm_compute) *)
Theorem C18_legacy_refuted :
  (exists a', legacy_change_signature lg_swap lg_act = Ok a' /\
              ma_sig a' = [("?x", "t0"); ("?z", "t0")] /\
              ma_pre a' = MPre "and" [MLit true "p" ["?x"]] [] [] /\
              ma_cond a' = ma_cond lg_act) /\
  (exists a', legacy_change_signature lg_chain lg_act = Ok a' /\ ma_sig a' = [("?w", "t0")]) /\
  legacy_rename_args [("?x", "?p0")] ["?x"; "c0"] = Err EKey /\
  ma_sig (change_signature lg_swap lg_act) = [("?y", "t0"); ("?x", "t0"); ("?z", "t0")] /\
  ma_pre (change_signature lg_swap lg_act) = MPre "and" [MLit true "p" ["?y"; "?x"]] [] [] /\
  ma_sig (change_signature lg_chain lg_act) = [("?y", "t0"); ("?z", "t0"); ("?w", "t0")] /\
  rename_args [("?x", "?p0")] ["?x"; "c0"] = ["?p0"; "c0"].
Proof. exact legacy_refuted. Qed.

Print Assumptions C18_alpha.
Print Assumptions C18_signature.
Print Assumptions C18_rename.
Print Assumptions C18_side_condition.
Print Assumptions C18_parser_well_formed.
Print Assumptions C18_rename_parsed.
Print Assumptions C18_parsed_domain_well_formed.
Print Assumptions C18_rename_parsed_domain.
Print Assumptions C18_denoted_behaviour.
Print Assumptions C18_rename_seq.
Print Assumptions C18_roundtrip.
Print Assumptions C18_rename_partial.
Print Assumptions C18_refuted.
Print Assumptions C18_alpha_step_inactive.
Print Assumptions C18_repaired_model.
Print Assumptions C18_alpha_correct.
Print Assumptions C18_alpha_correct_checked.
Print Assumptions C18_alpha_condition.
Print Assumptions C18_fresh_name_total.
Print Assumptions C18_alpha_returns.
Print Assumptions C18_alpha_total.
Print Assumptions C18_before_D75b_partial.
Print Assumptions C18_before_D75b_refuted.
Print Assumptions C18_legacy_partial.
Print Assumptions C18_legacy_refuted.
