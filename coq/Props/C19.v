(* Property C19 — planner logs yield exactly the plan's steps, in order.
   Statements only; proofs live in Proofs/C19_FF.v and Proofs/C19_Enhsp.v.

   The model (Model/PlannerLogs.v) is that of the repository AFTER the repair of D24
   (PLAN_COMPONENT_REGEX anchored to the line, no line breaks in its character class); on that code the
   property holds at full strength, so there is no _partial/_refuted pair for the current code; the refutation of
   the pattern as it was before the repair is kept as C19_ff_before_D24_refuted.  The pattern text is compared with
   the imported module's on every run of the check.

   Spec (Spec/PlannerLogs.v): render_ff header mcr steps trailer last is a Metric-FF log whose
   header/trailer lines are ANY lines not beginning with a step label (optional "step", blanks, a number, ": "),
   whose step lines carry an optional "step", any indentation of blanks/tabs, a step number of any width, blanks
   around the action, LF or CRLF, and which may end in an unterminated line of any content. *)
From Coq Require Import List Ascii String.
From Verif Require Import Base.Result Base.Str Model.PlannerLogs Spec.PlannerLogs Proofs.C19_FF Proofs.C19_Enhsp
  Proofs.C19_Shipped Proofs.C19_Original.
Import ListNotations.

(* A log containing a plan: status ok, exactly the plan's steps, in order, lower-cased, arguments in order;
   the written plan file is their concatenation (no file for the empty plan). *)
Theorem C19_ff : forall (header : list text) (mcr : bool) (steps : list (layout * step))
                        (trailer : list text) (last : text),
  Forall log_line header ->
  Forall (fun ls => layout_ok (fst ls) /\ step_ok (snd ls)) steps ->
  Forall log_line trailer -> no_lf last ->
  get_solving_status (render_ff header mcr steps trailer last) = (StOk, map expected_action (map snd steps)) /\
  parse_plan_file (render_ff header mcr steps trailer last) =
    match steps with [] => None | _ => Some (List.concat (map expected_action (map snd steps))) end.
Proof. exact C19_ff_lemma. Qed.

(* A log without the plan marker — any text at all — is classified no-solution or timeout and yields no actions. *)
Theorem C19_ff_noplan : forall t : text,
  ~ contains marker t ->
  (fst (get_solving_status t) = StNoSolution \/ fst (get_solving_status t) = StTimeout) /\
  snd (get_solving_status t) = [].
Proof. exact C19_ff_noplan_lemma. Qed.

(* The raw matches: group 1 of re.finditer on a rendered log is, per step, the action text with its padding. *)
Theorem C19_ff_matches : forall header mcr steps trailer last,
  Forall log_line header -> steps_ok steps -> Forall log_line trailer -> no_lf last ->
  finditer_groups (render_ff header mcr steps trailer last) = map group_of steps.
Proof. exact finditer_render_ff. Qed.

(* ENHSP: one "(name args)" per line, line ends LF / CRLF / CR in any mixture. *)
Theorem C19_enhsp : forall steps : list (eolkind * step),
  Forall step_ok (map snd steps) ->
  enhsp_parse_plan_content (render_enhsp steps) = map expected_action (map snd steps) /\
  enhsp_plan_file (render_enhsp steps) = List.concat (map expected_action (map snd steps)).
Proof. exact C19_enhsp_lemma. Qed.

(* The log shipped in tests/exporters_tests/output.out is a rendering within the hypotheses of C19_ff
   (Proofs/C19_Shipped.v), so its 19 steps come out by the theorem, not by evaluation. *)
Theorem C19_shipped_log :
  get_solving_status (s2t shipped_log) = (StOk, map expected_action (map snd shipped_steps)) /\
  List.length shipped_steps = 19.
Proof. exact C19_shipped_log_lemma. Qed.

(* Finding D24 (repaired): with the pattern as it was (Model: parse_plan_content_orig, r"\d: ([\w+\s?-]+)\n")
   the statement of C19_ff is false inside the same grammar. *)
Theorem C19_ff_before_D24_refuted :
  exists header mcr steps trailer last,
    Forall log_line header /\ steps_ok steps /\ Forall log_line trailer /\ no_lf last /\
    parse_plan_content_orig (render_ff header mcr steps trailer last) <> map expected_action (map snd steps).
Proof. exact C19_ff_before_D24_refuted_lemma. Qed.

Print Assumptions C19_ff.
Print Assumptions C19_ff_noplan.
Print Assumptions C19_ff_matches.
Print Assumptions C19_enhsp.
Print Assumptions C19_shipped_log.
Print Assumptions C19_ff_before_D24_refuted.
