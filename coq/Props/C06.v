(* Property C06 — the subtype relation of a parsed domain is the reflexive-transitive closure of its
   'child - parent' declarations with 'object' as the root, whatever the order or grouping in which the
   declarations are written; every place that checks or ranges over types accepts an object exactly when its
   declared type is a subtype of the required type.

   Statements only; proofs live in Proofs/C06_*.v.  Vocabulary (Spec/Types.v):
     a section      = groups 'c1 ... ck - parent' (gs) followed by trailing untyped names (tr); render gs tr is the
                      token list after ':types', decls gs tr its (child, parent) pairs;
     subtype ds     = clos_refl_trans (declared pairs of ds  ∪  {(t, object) for every t});
     wf_section     = no name is the dash token, each child has ONE declared parent, object is nobody's child;
     acyclic/cyclic = no / some type is its own proper ancestor by declared pairs;  forest = wf + acyclic.
   Model (Model/Types.v): parse_types (DomainParser.parse_types), walk / is_sub_type (PDDLType.is_sub_type).
   All theorems are unbounded (any number of types, any depth).  On the current tree (after the repairs D03, D14,
   D19c, D30) the code satisfies the property on every forest at every site.  D30 (repaired): the object table an
   Operator's quantifiers range over held the problem's objects only, so a quantifier never ranged over a domain
   CONSTANT although its type is a subtype of the quantified type; now it is constants + objects
   (C06_quantifier_range, _objects, _constants, _only; C06_quantifier_range_before_D30_refuted for the pinned code).
   Sections that are NOT well-formed (a child with several declared parents, object on a left-hand side) are covered by
   the C06_any_section_* theorems: the last declaration of a child wins, a declaration of object is dropped
   (effective ds), and everything above holds with effective (decls gs tr) in place of decls gs tr; every accepted token
   list made of names and dashes is such a section (C06_accepted_names_are_sections).
   D31 (repaired, 3c74fae): TrajectoryParser checked a state fluent's argument types through a dict keyed by the object
   NAME; now argument i is checked against parameter i (C06_site_trajectory_fluent, C06_sites_trajectory_fluent_accepts_subtypes).
   The old check was the positional rule only without a repeated argument (C06_site_trajectory_fluent_before_D31_agrees); with one
   it accepted an ill-typed fluent and refused a well-typed one (C06_site_trajectory_fluent_before_D31_refuted).
   TrajectoryParser performs NO type check on facts (Model/TypeSites.trajectory_fact): not a place that checks types, so
   the property's sentence does not speak about it; the check compares it with the model only. *)
From Coq Require Import List String Bool Relations Permutation PrimFloat.
From Verif Require Import Base.Result Base.Str Base.Sexp Base.PyDict Model.Types Model.Domain Model.Exec
  Model.TypeSites Spec.Pddl Spec.Types
  Proofs.C06_Walk Proofs.C06_Parse Proofs.C06_Main Proofs.C06_Sites Proofs.C06_Oracle Proofs.C06_Examples
  Proofs.C06_Constants Proofs.C06_Extra Proofs.C06_Trajectory Proofs.C06_AnySection Proofs.C06_Quantifiers.
Import ListNotations.
Open Scope string_scope.
Open Scope list_scope.

(* ---------------------------------------------------------------------------------------------- closure *)
(* C06_closure: whenever the parser accepts a well-formed section, is_sub_type on the table it returns IS the
   closure of the declarations - for ALL names x y (declared or not). *)
Theorem C06_closure : forall (gs : list group) (tr : list tname) (T : typetable),
  wf_section gs tr ->
  parse_types (render gs tr) = Ok T ->
  forall x y, is_sub_type T x y = true <-> subtype (decls gs tr) x y.
Proof. exact closure_lemma. Qed.

(* C06_forest: the same in one piece, from the spec-level hypothesis alone - every forest is accepted, the answer
   of is_sub_type is the closure for all x y, the walk never runs out of fuel, the keys are the section's names *)
Theorem C06_forest : forall gs tr,
  plain_section gs tr -> forest (decls gs tr) ->
  exists T, parse_types (render gs tr) = Ok T /\
            (forall x y, is_sub_type T x y = true <-> subtype (decls gs tr) x y) /\
            (forall x y, exists b, walk (S (S (List.length T))) T x y = Ok b) /\
            (forall n, In n (type_names T) <-> is_type_name (decls gs tr) n).
Proof. exact forest_lemma. Qed.

(* every forest is accepted ... *)
Theorem C06_forest_accepted : forall gs tr,
  wf_section gs tr -> acyclic (decls gs tr) -> exists T, parse_types (render gs tr) = Ok T.
Proof. exact accepts_lemma. Qed.

(* ... and every cyclic section is rejected with a SyntaxError *)
Theorem C06_cyclic_rejected : forall gs tr,
  wf_section gs tr -> cyclic (decls gs tr) -> parse_types (render gs tr) = Err ESyntax.
Proof. exact cyclic_rejected_lemma. Qed.

(* the fuel of is_sub_type suffices on EVERY table the parser returns (any token list): no RecursionError *)
Theorem C06_fuel_sufficient : forall (toks : list sexp) (T : typetable),
  parse_types toks = Ok T ->
  forall x y, exists b, walk (S (S (List.length T))) T x y = Ok b.
Proof. exact fuel_lemma. Qed.

(* the keys of Domain.types are exactly the names that occur in the section, and object *)
Theorem C06_type_names : forall gs tr T,
  wf_section gs tr -> parse_types (render gs tr) = Ok T ->
  forall n, In n (type_names T) <-> is_type_name (decls gs tr) n.
Proof. exact type_names_lemma. Qed.

(* ---------------------------------------------------------------------------------------------- order *)
(* C06_order: two well-formed sections with the same declared pairs (in any order, any grouping) give the same
   relation and the same set of type names; and one is rejected iff the other is. *)
Theorem C06_order : forall gs tr gs' tr' T,
  wf_section gs tr -> wf_section gs' tr' ->
  same_decls (decls gs tr) (decls gs' tr') ->
  parse_types (render gs tr) = Ok T ->
  exists T', parse_types (render gs' tr') = Ok T' /\
             (forall x y, is_sub_type T x y = is_sub_type T' x y) /\
             (forall n, In n (type_names T) <-> In n (type_names T')).
Proof. exact order_lemma. Qed.

Theorem C06_order_rejection : forall gs tr gs' tr',
  wf_section gs tr -> wf_section gs' tr' ->
  same_decls (decls gs tr) (decls gs' tr') ->
  is_ok (parse_types (render gs tr)) = is_ok (parse_types (render gs' tr')).
Proof. exact order_rejection_lemma. Qed.

(* the rewritings the property names produce such a pair: *)
(* any permutation of the groups (and of the trailing names) *)
Theorem C06_order_permutation : forall gs gs' tr tr',
  Permutation gs gs' -> Permutation tr tr' -> wf_section gs tr ->
  wf_section gs' tr' /\ same_decls (decls gs tr) (decls gs' tr').
Proof. exact permuted_section. Qed.

(* splitting a group, merging two adjacent groups with the same parent, permuting the children of a group *)
Theorem C06_order_regrouping : forall gs gs' tr,
  regroup1 gs gs' -> wf_section gs tr ->
  wf_section gs' tr /\ same_decls (decls gs tr) (decls gs' tr).
Proof. exact regrouped_section. Qed.

(* trailing untyped names versus an explicit last group '... - object' *)
Theorem C06_order_trailing : forall gs tr,
  wf_section gs tr ->
  wf_section (gs ++ [(tr, "object")]) [] /\ same_decls (decls gs tr) (decls (gs ++ [(tr, "object")]) []).
Proof. exact trailing_section. Qed.

(* ---------------------------------------------------------------------------------------------- sites *)
(* the spec core's executable subtype test and the model's are the same function of ANY table *)
Theorem C06_subtypeb_is_sub_type : forall (T : typetable) x y, subtypeb T x y = is_sub_type T x y.
Proof. exact subtypeb_is_sub_type_lemma. Qed.

(* ... and the spec core's test evaluated directly on a forest's declarations is the closure (this is the oracle
   Corr/Core.v uses for C01-C03: Spec.Pddl.subtypeb on the declared rows) *)
Theorem C06_subtypeb_is_closure : forall (ds : list decl) x y,
  forest ds -> (subtypeb ds x y = true <-> subtype ds x y).
Proof. exact subtypeb_forest_lemma. Qed.

(* forall condition (GroundedPrecondition._validate_universal_precondition): the result is the fold of the body
   over exactly the objects o with is_sub_type (type o) (quantified type), in the order of the object table *)
Theorem C06_site_forall_condition : forall (dom : mdomain) (eps : float) (os : objects) s pm v ty body,
  eval_lifted_cond dom eps (Some os) s pm (MUniv v ty body) =
  fold_all (univ_body dom eps os s pm v body) (filter (in_range dom ty) os) true.
Proof. exact forall_condition_range_lemma. Qed.

(* forall-when effect (Operator._apply_universal_effects): for each object exactly the universal effects whose
   quantified type is a supertype of the object's type are grounded and applied *)
Theorem C06_site_forall_effect : forall (dom : mdomain) (eps : float) ga (os : objects) uorder prev cur,
  apply_universal dom eps ga (Some os) uorder prev cur =
  foldM (fun cur1 o =>
           foldM (univ_effect_step dom eps ga os prev o)
                 (filter (fun ue => in_range dom (ue_ty ue) o) (reorder (ma_univ (ga_action ga)) uorder)) cur1)
        os cur.
Proof. exact forall_effect_range_lemma. Qed.

(* the spec's range of a quantifier (Spec.Pddl.objects_of_type) is the same list of objects *)
Theorem C06_site_spec_range : forall (dom : mdomain) (os : objects) ty,
  objects_of_type (d_types dom) os ty = map fst (filter (in_range dom ty) os).
Proof. exact objects_of_type_range_lemma. Qed.

(* problem facts / goal facts / constants (ProblemParser.parse_grounded_predicate + _validate_object_types):
   accepted iff declared, right arity, known names, and every argument's type passes is_sub_type positionally *)
Theorem C06_site_problem_fact : forall (dom : mdomain) objs p args,
  problem_fact dom objs p args = Ok tt <->
  exists sg tys, dget (d_preds dom) p = Some sg /\ List.length args = List.length sg /\
                 mapM (type_of_name dom objs) args = Ok tys /\
                 forall t r, In (t, r) (combine tys (dvalues sg)) -> is_sub_type (d_types dom) t r = true.
Proof. exact problem_fact_lemma. Qed.

(* initial fluents (ProblemParser.parse_grounded_numeric_fluent, after the repair D19c): the same, positionally *)
Theorem C06_site_problem_fluent : forall (dom : mdomain) objs f args,
  problem_fluent dom objs f args = Ok tt <->
  exists sg tys, dget (d_funcs dom) f = Some sg /\ List.length args = List.length sg /\
                 mapM (type_of_name dom objs) args = Ok tys /\
                 forall t r, In (t, r) (combine tys (dvalues sg)) -> is_sub_type (d_types dom) t r = true.
Proof. exact problem_fluent_lemma. Qed.

(* trajectory fluents (TrajectoryParser.parse_grounded_numeric_fluent with a problem, after the repair D31): the same *)
Theorem C06_site_trajectory_fluent : forall (dom : mdomain) objs f args,
  trajectory_fluent dom objs f args = Ok tt <->
  exists sg tys, dget (d_funcs dom) f = Some sg /\ List.length args = List.length sg /\
                 mapM (type_of_name dom objs) args = Ok tys /\
                 forall t r, In (t, r) (combine tys (dvalues sg)) -> is_sub_type (d_types dom) t r = true.
Proof. exact trajectory_fluent_lemma. Qed.

(* ... and on a domain whose types come from a well-formed section, "passes is_sub_type" means "is a subtype":
   an object is in the range of a quantifier over ty exactly when its declared type is a subtype of ty *)
Theorem C06_sites_select_subtypes : forall gs tr (dom : mdomain) (os : objects) ty o,
  wf_section gs tr -> parse_types (render gs tr) = Ok (d_types dom) ->
  (In o (objects_of_type (d_types dom) os ty) <->
   exists t, In (o, t) os /\ subtype (decls gs tr) t ty).
Proof. exact sites_select_subtypes_lemma. Qed.

(* problem facts / goals / constants and initial fluents on such a domain: accepted iff every argument's declared
   type is a subtype of the parameter's type at the same position *)
Theorem C06_sites_fact_accepts_subtypes : forall gs tr (dom : mdomain) objs p args,
  wf_section gs tr -> parse_types (render gs tr) = Ok (d_types dom) ->
  (problem_fact dom objs p args = Ok tt <->
   exists sg tys, dget (d_preds dom) p = Some sg /\ List.length args = List.length sg /\
                  mapM (type_of_name dom objs) args = Ok tys /\
                  forall t r, In (t, r) (combine tys (dvalues sg)) -> subtype (decls gs tr) t r).
Proof. exact site_fact_subtype_lemma. Qed.

Theorem C06_sites_fluent_accepts_subtypes : forall gs tr (dom : mdomain) objs f args,
  wf_section gs tr -> parse_types (render gs tr) = Ok (d_types dom) ->
  (problem_fluent dom objs f args = Ok tt <->
   exists sg tys, dget (d_funcs dom) f = Some sg /\ List.length args = List.length sg /\
                  mapM (type_of_name dom objs) args = Ok tys /\
                  forall t r, In (t, r) (combine tys (dvalues sg)) -> subtype (decls gs tr) t r).
Proof. exact site_fluent_subtype_lemma. Qed.

Theorem C06_sites_trajectory_fluent_accepts_subtypes : forall gs tr (dom : mdomain) objs f args,
  wf_section gs tr -> parse_types (render gs tr) = Ok (d_types dom) ->
  (trajectory_fluent dom objs f args = Ok tt <->
   exists sg tys, dget (d_funcs dom) f = Some sg /\ List.length args = List.length sg /\
                  mapM (type_of_name dom objs) args = Ok tys /\
                  forall t r, In (t, r) (combine tys (dvalues sg)) -> subtype (decls gs tr) t r).
Proof. exact site_trajectory_fluent_subtype_lemma. Qed.

(* the check before the repair D31 (name-keyed dict) agreed with the current one on every argument list WITHOUT a repeat ... *)
Theorem C06_site_trajectory_fluent_before_D31_agrees : forall (dom : mdomain) objs f args,
  NoDup args -> trajectory_fluent_before_D31 dom objs f args = trajectory_fluent dom objs f args.
Proof. exact trajectory_fluent_nodup_lemma. Qed.

(* ... and not with one.  With f (?x - a ?y - b), g (?x - a ?y - a ?z - b), oa - a, ob - b: (f oa oa) was accepted although
   oa is no b, the well-typed (g oa oa ob) was refused (finding D31, repaired; the witness is a regression case of every run) *)
Theorem C06_site_trajectory_fluent_before_D31_refuted :
  exists (dom : mdomain) (objs : pydict string),
    (exists f args, trajectory_fluent_before_D31 dom objs f args = Ok tt /\
                    trajectory_fluent dom objs f args = Err EAssert) /\
    (exists f args, trajectory_fluent_before_D31 dom objs f args = Err EAssert /\
                    trajectory_fluent dom objs f args = Ok tt).
Proof. exact trajectory_fluent_refuted_lemma. Qed.

Example C06_site_trajectory_fluent_example :
  trajectory_fluent t_dom t_objs "f" ["oa"; "oa"] = Err EAssert /\
  trajectory_fluent t_dom t_objs "g" ["oa"; "oa"; "ob"] = Ok tt /\
  trajectory_fluent t_dom t_objs "f" ["oa"; "ob"] = Ok tt /\
  trajectory_fluent t_dom t_objs "f" ["ob"; "oa"] = Err EAssert.
Proof. exact trajectory_fluent_example_lemma. Qed.

(* several quantified effects in ONE action: which effects are applied for an object is decided by the effects' types
   alone (C06_site_forall_effect filters by ue_ty), so two effects that bind the same variable name to different types
   keep their own ranges; computed example: (forall (?x - a) .. hit1) and (forall (?x - b) .. hit2), either visiting order *)
Theorem C06_site_effects_selected_by_type : forall (dom : mdomain) (o : string * string) (us us' : list muniveff),
  map ue_ty us = map ue_ty us' ->
  map (fun ue => in_range dom (ue_ty ue) o) us = map (fun ue => in_range dom (ue_ty ue) o) us'.
Proof. exact effects_selected_by_type_lemma. Qed.

Example C06_site_two_quantifiers_example :
  forall uorder, uorder = [0; 1] \/ uorder = [1; 0] ->
  exists ga st, ground_action q_dom q_action [] = Ok ga /\
    apply_op q_dom 0%float ga (Some (pipeline_objects q_dom q_objs)) false false [0] uorder q_state = Ok st /\
    q_hits "hit1" st = ["ka"; "oa"; "oc"] /\ q_hits "hit2" st = ["kb"; "ob"].
Proof. exact two_quantifiers_example_lemma. Qed.

(* ---------------------------------------------------------------------------------------------- any section *)
(* Sections with several declared parents for one child, or with object on a left-hand side: the parser accepts them.
   last_wins ds  = the dict of the first pass (every child once, with the parent of its LAST declaration);
   effective ds  = last_wins ds without a declaration of object.  These are the declarations that count: *)
Theorem C06_effective_last_wins : forall (ds : list decl) c p,
  In (c, p) (effective ds) <-> c <> "object" /\ dget (rev ds) c = Some p.
Proof. exact effective_last_wins_lemma. Qed.

Theorem C06_effective_shape : forall ds, one_parent (effective ds) /\ object_is_root (effective ds).
Proof. exact (fun ds => conj (effective_one_parent ds) (effective_object_is_root ds)). Qed.

(* nothing is overwritten or dropped in a well-formed section: the theorems below contain C06_closure etc. *)
Theorem C06_effective_wf : forall ds, one_parent ds -> object_is_root ds -> effective ds = ds.
Proof. exact effective_wf_lemma. Qed.

(* closure for EVERY section that reads as groups + trailing names *)
Theorem C06_any_section_closure : forall gs tr,
  plain_section gs tr -> forall T, parse_types (render gs tr) = Ok T ->
  forall x y, is_sub_type T x y = true <-> subtype (effective (decls gs tr)) x y.
Proof. exact any_closure_lemma. Qed.

(* accepted exactly when the effective declarations are acyclic; a cycle among them is a SyntaxError *)
Theorem C06_any_section_accepted_iff : forall gs tr,
  plain_section gs tr ->
  ((exists T, parse_types (render gs tr) = Ok T) <-> acyclic (effective (decls gs tr))).
Proof. exact any_accepted_iff_lemma. Qed.

Theorem C06_any_section_cyclic_rejected : forall gs tr,
  plain_section gs tr -> cyclic (effective (decls gs tr)) -> parse_types (render gs tr) = Err ESyntax.
Proof. exact any_cyclic_rejected_lemma. Qed.

(* the keys of Domain.types: object, the children, and the parents of the declarations that survive the first pass
   (a parent named only in an overwritten declaration is no type; the p of 'object - p' is one) *)
Theorem C06_any_section_type_names : forall gs tr,
  plain_section gs tr -> forall T, parse_types (render gs tr) = Ok T ->
  forall n, In n (type_names T) <-> is_type_name (last_wins (decls gs tr)) n.
Proof. exact any_type_names_lemma. Qed.

(* order / grouping: two such sections with the same effective declarations give the same relation *)
Theorem C06_any_section_order : forall gs tr gs' tr' T,
  plain_section gs tr -> plain_section gs' tr' ->
  same_decls (effective (decls gs tr)) (effective (decls gs' tr')) ->
  parse_types (render gs tr) = Ok T ->
  exists T', parse_types (render gs' tr') = Ok T' /\ (forall x y, is_sub_type T x y = is_sub_type T' x y).
Proof. exact any_order_lemma. Qed.

(* and these are ALL the sections: an accepted token list made of names and dashes is render gs tr of a plain section *)
Theorem C06_accepted_names_are_sections : forall toks T,
  names_only toks -> parse_types toks = Ok T ->
  exists gs tr, plain_section gs tr /\ toks = render gs tr.
Proof. exact accepted_names_are_sections_lemma. Qed.

Example C06_example_two_parents :
  plain_section ex_two_parents [] /\ ~ one_parent (decls ex_two_parents []) /\
  effective (decls ex_two_parents []) = [("a", "c"); ("c", "d")] /\
  parse_types (render ex_two_parents []) = Ok [("a", "c"); ("c", "d"); ("d", "object")] /\
  subtype (effective (decls ex_two_parents [])) "a" "d" /\ ~ subtype (effective (decls ex_two_parents [])) "a" "b".
Proof. exact ex_two_parents_lemma. Qed.

Example C06_example_object_child :
  plain_section ex_object_child [] /\ ~ object_is_root (decls ex_object_child []) /\
  effective (decls ex_object_child []) = [("a", "foo")] /\
  parse_types (render ex_object_child []) = Ok [("a", "foo"); ("foo", "object")].
Proof. exact ex_object_child_lemma. Qed.

(* the local copy of parse_types with the corner '(:types - (x))' (Model/TypeSites.parse_types_code; the check compares
   token lists that are NOT sections with it): it is the shared model on every rendered section and wherever the shared
   model accepts; the corner itself *)
Theorem C06_types_code_on_sections : forall gs tr, parse_types_code (render gs tr) = parse_types (render gs tr).
Proof. exact parse_types_code_render_lemma. Qed.

Theorem C06_types_code_extends : forall toks T, parse_types toks = Ok T -> parse_types_code toks = Ok T.
Proof. exact parse_types_code_extends_lemma. Qed.

Example C06_types_code_corner :
  parse_types_code [Atom "-"; SList [Atom "x"]] = Ok [] /\ parse_types [Atom "-"; SList [Atom "x"]] = Err EType.
Proof. exact parse_types_code_corner_lemma. Qed.

(* ---------------------------------------------------------------------------------------------- constants (D30) *)
(* the objects a quantifier ranges over (Operator.quantification_objects, after the repair of D30) are the problem's
   objects AND the domain's constants: exact content of the table ... *)
Theorem C06_quantifier_range : forall (dom : mdomain) (objs : pydict string) n,
  dget (pipeline_objects dom objs) n =
  match dget (rev objs) n with Some t => Some t | None => dget (d_consts dom) n end.
Proof. exact pipeline_objects_exact_lemma. Qed.

(* ... hence every problem object is in it with its declared type ... *)
Theorem C06_quantifier_range_objects : forall (dom : mdomain) (objs : pydict string) o t,
  NoDup (map fst objs) -> dget objs o = Some t -> dget (pipeline_objects dom objs) o = Some t.
Proof. exact pipeline_objects_partial_lemma. Qed.

(* ... every constant that no object shadows is in it with its declared type ... *)
Theorem C06_quantifier_range_constants : forall (dom : mdomain) (objs : pydict string) k t,
  dget objs k = None -> dget (d_consts dom) k = Some t -> dget (pipeline_objects dom objs) k = Some t.
Proof. exact pipeline_objects_constants_lemma. Qed.

(* ... and nothing else. *)
Theorem C06_quantifier_range_only : forall (dom : mdomain) (objs : pydict string) n t,
  dget (pipeline_objects dom objs) n = Some t -> (exists t', dget objs n = Some t') \/ dget (d_consts dom) n = Some t.
Proof. exact pipeline_objects_only_lemma. Qed.

(* the pinned code handed the problem's objects only: a domain with (:constants k - t), a forall over t whose body
   fails for k only: PDDL says false (Spec.Pddl.holds over constants + objects), that evaluation said true
   (finding D30, repaired; the witness is a regression case of the check). *)
Theorem C06_quantifier_range_before_D30_refuted :
  exists (dom : mdomain) (objs : objects) (s : state) (c : mcond) (f : form),
    denote_cond c = Some f /\
    (exists k kt, dget (d_consts dom) k = Some kt /\ is_sub_type (d_types dom) kt "t" = true) /\
    eval_lifted_cond dom 0%float (Some (pipeline_objects_before_D30 dom objs)) s [] c = Ok true /\
    holds 0%float (d_types dom) (d_consts dom ++ objs) [] s f = false.
Proof. exact constants_before_D30_refuted_lemma. Qed.

(* the same witness on the current table: false without (m k), true with it *)
Theorem C06_quantifier_range_example :
  denote_cond w_cond = Some w_form /\
  eval_lifted_cond w_dom 0%float (Some (pipeline_objects w_dom w_objs)) w_state [] w_cond = Ok false /\
  holds 0%float (d_types w_dom) (pipeline_objects w_dom w_objs) [] w_state w_form = false /\
  eval_lifted_cond w_dom 0%float (Some (pipeline_objects w_dom w_objs))
     {| facts := [("m", ["o"]); ("m", ["k"])]; fluents := [] |} [] w_cond = Ok true.
Proof. exact constants_example_lemma. Qed.

(* ---------------------------------------------------------------------------------------------- oracle *)
(* the executable closure the correspondence check uses as its oracle IS the spec relation, for every
   declaration list (forest or not) *)
Theorem C06_oracle_is_closure : forall ds x y, closure_b ds x y = true <-> subtype ds x y.
Proof. exact closure_b_lemma. Qed.

(* the executable tests that tell the check what to expect of a generated section are the spec's predicates *)
Theorem C06_oracle_forest : forall ds, forest_b ds = true <-> forest ds.
Proof. exact forest_b_lemma. Qed.

Theorem C06_oracle_cyclic : forall ds, cyclic_b ds = true <-> cyclic ds.
Proof. exact cyclic_b_lemma. Qed.

(* ---------------------------------------------------------------------------------------------- examples *)
(* the hypotheses are satisfiable by a non-trivial forest: children declared before parents, depth 4, a parent
   never on a left-hand side, a trailing untyped name *)
Example C06_example_forest :
  wf_section ex_groups ex_trailing /\ forest (decls ex_groups ex_trailing) /\
  parse_types (render ex_groups ex_trailing) =
    Ok [("a", "b"); ("b", "c"); ("c", "d"); ("c2", "d"); ("e", "object"); ("d", "object")] /\
  subtype (decls ex_groups ex_trailing) "a" "d" /\ ~ subtype (decls ex_groups ex_trailing) "d" "a".
Proof. exact (conj ex_wf (conj ex_forest (conj ex_parse (conj ex_subtype_deep ex_not_subtype)))). Qed.

Example C06_example_reordered :
  wf_section ex_groups' [] /\ same_decls (decls ex_groups ex_trailing) (decls ex_groups' []).
Proof. exact (conj ex_wf' ex_same). Qed.

Example C06_example_cyclic : wf_section ex_cyclic [] /\ cyclic (decls ex_cyclic []).
Proof. exact (conj ex_cyclic_wf ex_cyclic_cyclic). Qed.

Print Assumptions C06_closure.
Print Assumptions C06_forest.
Print Assumptions C06_forest_accepted.
Print Assumptions C06_cyclic_rejected.
Print Assumptions C06_fuel_sufficient.
Print Assumptions C06_type_names.
Print Assumptions C06_order.
Print Assumptions C06_order_rejection.
Print Assumptions C06_order_permutation.
Print Assumptions C06_order_regrouping.
Print Assumptions C06_order_trailing.
Print Assumptions C06_subtypeb_is_sub_type.
Print Assumptions C06_site_forall_condition.
Print Assumptions C06_site_forall_effect.
Print Assumptions C06_site_spec_range.
Print Assumptions C06_site_problem_fact.
Print Assumptions C06_site_problem_fluent.
Print Assumptions C06_site_trajectory_fluent.
Print Assumptions C06_sites_select_subtypes.
Print Assumptions C06_sites_fact_accepts_subtypes.
Print Assumptions C06_sites_fluent_accepts_subtypes.
Print Assumptions C06_quantifier_range.
Print Assumptions C06_quantifier_range_objects.
Print Assumptions C06_quantifier_range_constants.
Print Assumptions C06_quantifier_range_only.
Print Assumptions C06_quantifier_range_before_D30_refuted.
Print Assumptions C06_quantifier_range_example.
Print Assumptions C06_subtypeb_is_closure.
Print Assumptions C06_oracle_is_closure.
Print Assumptions C06_oracle_forest.
Print Assumptions C06_oracle_cyclic.
Print Assumptions C06_sites_trajectory_fluent_accepts_subtypes.
Print Assumptions C06_site_trajectory_fluent_before_D31_agrees.
Print Assumptions C06_site_trajectory_fluent_before_D31_refuted.
Print Assumptions C06_site_trajectory_fluent_example.
Print Assumptions C06_site_effects_selected_by_type.
Print Assumptions C06_site_two_quantifiers_example.
Print Assumptions C06_effective_last_wins.
Print Assumptions C06_effective_shape.
Print Assumptions C06_effective_wf.
Print Assumptions C06_any_section_closure.
Print Assumptions C06_any_section_accepted_iff.
Print Assumptions C06_any_section_cyclic_rejected.
Print Assumptions C06_any_section_type_names.
Print Assumptions C06_any_section_order.
Print Assumptions C06_accepted_names_are_sections.
Print Assumptions C06_example_two_parents.
Print Assumptions C06_example_object_child.
Print Assumptions C06_types_code_on_sections.
Print Assumptions C06_types_code_extends.
Print Assumptions C06_types_code_corner.
