(* Property C07 — queries and transitions are pure: inputs and earlier results are never modified.
   Statements only; proofs in Proofs/C07_Frame.v and Proofs/C07_Interleave.v; the model is Model/Store.v (an
   ownership / footprint model: values are abstract, cells carry stamps; see the header of Model/Store.v).

   Full statement = frame (contents of every cell reachable from an input or an earlier result never change)
                  + separation (a value reaches only cells of its own region: no mutable state is shared between
                    values) + repeat + interleave.
   The model has one switch per repair (fix15, fix16, fix17, fix18).
     - C07_frame, C07_repeat hold in every configuration with fix15, fix16, fix18 (the tree after the three
       proposed repairs; D17 only aliases, it never writes);
     - C07_frame_refuted_D15/D16/D18: each unrepaired configuration violates the frame statement (the witness
       histories are the replays of the defects on the original code);
     - separation is FALSE of the code as it stands (finding D17, open): C07_separation_refuted; it is compared
       case by case in the correspondence run (the model's `separated`/`sharing` against the implementation's
       sharing graph); a general C07_separation_partial for fix17 = true is not proved here. *)
From Coq Require Import List Bool Arith.
From Verif Require Import Model.Store Proofs.C07_Frame Proofs.C07_Interleave.
Import ListNotations.

(* every write of an operation targets an operator's own cell or a cell of a value the call itself creates *)
Theorem C07_writes_private : forall c m p, writes_fixed c = true ->
  Forall (okw (length (doms m)) (length (sts m))) (writes (snd (step c m p))).
Proof. exact step_writes_ok. Qed.

(* frame: for every finite history h1 ++ h2, every cell reachable (after h1) from the module, a domain or a state
   -- inputs and every earlier result -- has after h2 the contents it had after h1 *)
Theorem C07_frame : forall c, writes_fixed c = true -> frame_statement c.
Proof. exact frame_holds. Qed.

(* ... and the value keeps reaching exactly the same cells, and stays live *)
Theorem C07_frame_reach : forall c h2 m st v, writes_fixed c = true -> Inv m -> In v (values m) ->
  let r := run c h2 (m, st) in
  In v (values (fst r)) /\ reach (fst r) v = reach m v /\ forall l, In l (reach m v) -> snd r l = st l.
Proof. exact frame_history. Qed.

(* repeat: whatever a call computes from the cells reachable from its input values vs, it computes the same
   after any further history h2 (same cells, same contents) *)
Theorem C07_repeat : forall c h1 h2 vs, writes_fixed c = true ->
  let r1 := run c h1 start in
  let r2 := run c h2 r1 in
  Forall (fun v => In v (values (fst r1))) vs ->
  flat_map (reach (fst r2)) vs = flat_map (reach (fst r1)) vs /\
  map (snd r2) (flat_map (reach (fst r1)) vs) = map (snd r1) (flat_map (reach (fst r1)) vs).
Proof. exact repeat_lemma. Qed.

(* interleave: if every thread writes only cells private to it and reads no cell private to another thread, then
   in ANY interleaving each thread observes exactly what it observes running alone (from any store that agrees
   with the shared one on what the thread may look at) *)
Theorem C07_interleave : forall (priv : nat -> loc -> Prop) s i a b,
  sched_ok priv s -> agree priv i a b -> observe i s a = observe i (mine i s) b.
Proof. exact interleave_lemma. Qed.

Theorem C07_interleave_example : sched_ok ex_priv ex_sched.
Proof. exact ex_sched_ok. Qed.

Theorem C07_frame_refuted_D15 : ~ frame_statement (only false true true true).
Proof. exact refuted_D15. Qed.
Theorem C07_frame_refuted_D16 : ~ frame_statement (only true false true true).
Proof. exact refuted_D16. Qed.
Theorem C07_frame_refuted_D18 : ~ frame_statement (only true true true false).
Proof. exact refuted_D18. Qed.
Theorem C07_separation_refuted : ~ separation_statement (only true true false true).
Proof. exact refuted_D17. Qed.

Print Assumptions C07_writes_private.
Print Assumptions C07_frame.
Print Assumptions C07_frame_reach.
Print Assumptions C07_repeat.
Print Assumptions C07_interleave.
Print Assumptions C07_interleave_example.
Print Assumptions C07_frame_refuted_D15.
Print Assumptions C07_frame_refuted_D16.
Print Assumptions C07_frame_refuted_D18.
Print Assumptions C07_separation_refuted.
