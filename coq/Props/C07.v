(* Property C07 — queries and transitions are pure: inputs and earlier results are never modified.
   Statements only; proofs in Proofs/C07_Frame.v, C07_Interleave.v, C07_Sep.v, C07_Threads.v; the model is
   Model/Store.v (an ownership / footprint model: values are abstract, cells carry stamps; see its header).

   Full statement = frame (contents of every cell reachable from an input or an earlier result never change)
                  + repeat (hence a repeated call sees the same cells with the same contents)
                  + separation (a value reaches only cells of its own region: no mutable state is shared between
                    values)
                  + interleave (threads sharing a domain see what they see alone, under ANY interleaving of the
                    container-level events of their calls).
   Process-wide objects are cells of the module region: (OMod, 0) = DEFAULT_TYPES, (OMod, 1) = every other static object of
   the library (module globals, class attributes, default-argument objects such as the dict of
   PDDLFunction.__init__(repeating_variables={})); C07_module_frame: no operation writes them.
   The model has one switch per repair (fix15, fix16, fix17, fix18); the tree as it stands (/repo at 3ad2e15 and later)
   carries all four repairs: cfg_current = all_fixed = (true, true, true, true).
     - C07_frame, C07_frame_reach, C07_repeat, C07_writes_private, C07_thread_discipline, C07_interleave_threads hold
       in every configuration with fix15, fix16, fix18 -- in particular for the tree as it stands;
     - separation at full strength for the tree as it stands: C07_separation (no value reaches a cell outside its own
       region, after every history); C07_separation_partial is the same for every configuration with D16, D17, D18
       repaired;
     - statements about EARLIER configurations, kept as the record of the repaired findings:
       C07_frame_refuted_D15/D16/D18 (each unrepaired configuration violates the frame statement; the witness
       histories are the replays of the defects on the original code), C07_separation_refuted (the configuration
       before D17b, (true, true, false, true): the result of a refused trajectory step IS its input's dicts) and
       C07_separation_weak (what still held there: a domain reaches only its own cells, a state only cells of states);
     - joint actions (apply_actions, create_multi_agent_triplet, MultiAgentTrajectoryExporter.parse_plan) are histories
       of the model's operations (Model/Store.v apply_actions_at / ma_triplet_at / ma_plan_at; their temporaries are
       handles), so all of the above speaks about them; C07_joint_frame instantiates the frame theorem,
       C07_apply_actions_fresh / C07_apply_actions_unshared: the state apply_actions returns is a handle created by
       the call -- never the state it was given -- and shares no cell with any value live before the call.
   Not modelled: CPython's scheduler, the GIL and byte-code atomicity -- the interleaving theorems are about
   interleavings of container-level Read/Write events. *)
From Coq Require Import List Bool Arith.
From Verif Require Import Model.Store Proofs.C07_Frame Proofs.C07_Interleave Proofs.C07_Sep Proofs.C07_Threads
  Proofs.C07_Joint.
Import ListNotations.

(* every write of an operation targets an operator's own cell or a cell of a value the call itself creates *)
Theorem C07_writes_private : forall c m p, writes_fixed c = true ->
  Forall (okw (length (doms m)) (length (sts m))) (writes (snd (step c m p))).
Proof. exact step_writes_ok. Qed.

(* frame: for every finite history h1 ++ h2, every cell reachable (after h1) from the module, a domain or a state
   -- inputs and every earlier result -- has after h2 the contents it had after h1 *)
Theorem C07_frame : forall c, writes_fixed c = true -> frame_statement c.
Proof. exact frame_holds. Qed.

(* ... and the value keeps reaching exactly the same cells, and stays live *)
Theorem C07_frame_reach : forall c h2 m st v, writes_fixed c = true -> Inv m -> In v (values m) ->
  let r := run c h2 (m, st) in
  In v (values (fst r)) /\ reach (fst r) v = reach m v /\ forall l, In l (reach m v) -> snd r l = st l.
Proof. exact frame_history. Qed.

(* the process-wide objects of the library -- (OMod, 0) = DEFAULT_TYPES, (OMod, 1) = module globals, class attributes
   and default-argument objects such as the dict of PDDLFunction.__init__(repeating_variables={}) -- are written by no
   operation, whatever the model state and store the history starts from: what one domain's calls leave there is what
   every other domain of the process finds there *)
Theorem C07_module_frame : forall c h m st i, writes_fixed c = true ->
  snd (run c h (m, st)) (OMod, i) = st (OMod, i).
Proof. exact module_frame. Qed.

(* repeat: whatever a call computes from the cells reachable from its input values vs, it computes the same
   after any further history h2 (same cells, same contents) *)
Theorem C07_repeat : forall c h1 h2 vs, writes_fixed c = true ->
  let r1 := run c h1 start in
  let r2 := run c h2 r1 in
  Forall (fun v => In v (values (fst r1))) vs ->
  flat_map (reach (fst r2)) vs = flat_map (reach (fst r1)) vs /\
  map (snd r2) (flat_map (reach (fst r1)) vs) = map (snd r1) (flat_map (reach (fst r1)) vs).
Proof. exact repeat_lemma. Qed.

(* Example (non-vacuity): the hypotheses are satisfiable (here by the configuration before D17b), on a history that really
   writes (operator leaves, fresh states) and really aliases (D17) *)
Theorem C07_frame_nonvacuous :
  writes_fixed (only true true false true) = true /\
  let r := run (only true true false true) ex_hist start in
  (Nat.leb 5 (length (sts (fst r))) && Nat.leb 4 (length (doms (fst r))) &&
   Nat.ltb 2 (snd r (OOp 0, 2)) && negb (separated (fst r))) = true.
Proof. exact (conj eq_refl ex_hist_nontrivial). Qed.

(* separation: independent values share no mutable cell.  Full statement, for the tree as it stands *)
Theorem C07_separation : separation_statement cfg_current.
Proof. exact separation_current. Qed.

Theorem C07_current_configuration :
  cfg_current = all_fixed /\ writes_fixed cfg_current = true /\ sep_fixed cfg_current = true.
Proof. exact (conj eq_refl cfg_current_fixed). Qed.

(* ... and for every configuration with D16, D17, D18 repaired *)
Theorem C07_separation_partial : forall c, sep_fixed c = true -> separation_statement c.
Proof. exact (fun c F h => separation_holds c h F). Qed.

(* what holds without the D17 repair too (the configuration before 3ad2e15) *)
Theorem C07_separation_weak : forall c h, fix16 c = true -> fix18 c = true ->
  weakly_separated (fst (run c h start)).
Proof. exact weak_separation_holds. Qed.

(* joint actions: frame for apply_actions / create_multi_agent_triplet / parse_plan (rendered by the model from the call's
   arguments, Model/Store.v) from any model state satisfying the invariant *)
Theorem C07_joint_frame : forall c j m st v, writes_fixed c = true -> Inv m -> In v (values m) ->
  let r := run c (jrender m j) (m, st) in
  In v (values (fst r)) /\ reach (fst r) v = reach m v /\ forall l, In l (reach m v) -> snd r l = st l.
Proof. exact joint_frame. Qed.

(* the state apply_actions returns is a handle the call creates: never the state it was given, whatever the joint
   action (nobody acts, one member, several; refused calls return nothing) *)
Theorem C07_apply_actions_fresh : forall c m d s objs ms allow r,
  snd (apply_actions_ops m d s objs ms allow) = Some r ->
  length (sts m) <= r < length (sts (mrun c (fst (apply_actions_ops m d s objs ms allow)) m)).
Proof. exact apply_actions_fresh. Qed.

(* ... and (tree as it stands) it shares no mutable cell with the input state nor with any other value live before *)
Theorem C07_apply_actions_unshared : forall h d s objs ms allow r v,
  let m := fst (run cfg_current h start) in
  let m' := mrun cfg_current (fst (apply_actions_ops m d s objs ms allow)) m in
  snd (apply_actions_ops m d s objs ms allow) = Some r -> In v (values m) ->
  In (OSt r) (values m') /\ ~ In (OSt r) (values m) /\ shares m' (OSt r) v = false.
Proof. exact apply_actions_unshared. Qed.

(* Example: two members act and one idles (result = handle 3, two intermediate states), nobody acts (result = the copy),
   one inapplicable member without permission (no result) *)
Theorem C07_joint_example :
  let m := fst (run cfg_current ex_joint_prefix start) in
  snd (apply_actions_ops m 0 0 (Some 0) ex_members false) = Some 3 /\
  length (sts (mrun cfg_current (fst (apply_actions_ops m 0 0 (Some 0) ex_members false)) m)) = 4 /\
  snd (apply_actions_ops m 0 0 (Some 0) [None; None] false) = Some 1 /\
  snd (apply_actions_ops m 0 0 None [Some {| mb_act := 0; mb_sh := ex_sh; mb_app := false |}] false) = None.
Proof. exact ex_joint. Qed.

(* the two per-step observables the correspondence run compares with the implementation (Corr/C07.v: may_change =
   "values this call may have changed", sharing = "pairs of roots with a common mutable cell") are provably clean for
   EVERY history: an implementation run showing a changed value, or (D17 repaired) two values sharing a mutable object,
   can never agree with the model *)
Theorem C07_predicts_no_change : forall c h p, writes_fixed c = true ->
  may_change (fst (run c h start)) (snd (step c (fst (run c h start)) p)) = [].
Proof. exact no_change_predicted. Qed.

Theorem C07_predicts_no_value_sharing : forall c h, sep_fixed c = true ->
  existsb (fun p => protected (fst p) && protected (snd p)) (sharing (fst (run c h start))) = false.
Proof. exact no_value_sharing_predicted. Qed.

(* interleave (abstract): if every thread writes only cells private to it and reads no cell private to another
   thread, then in ANY interleaving each thread observes exactly what it observes running alone (from any store
   that agrees with the shared one on what the thread may look at) *)
Theorem C07_interleave : forall (priv : nat -> loc -> Prop) s i a b,
  sched_ok priv s -> agree priv i a b -> observe i s a = observe i (mine i s) b.
Proof. exact interleave_lemma. Qed.

Theorem C07_interleave_example : sched_ok ex_priv ex_sched.
Proof. exact ex_sched_ok. Qed.

(* a log of accesses to containers that are private to no thread (the shared domain) satisfies the hypothesis of
   C07_interleave iff nobody writes: decided on the deterministic scheduler's logs by the correspondence run *)
Theorem C07_shared_log_discipline : forall s, no_writes s = true <-> sched_ok nobody s.
Proof. exact no_writes_sched_ok. Qed.

(* interleave (tied to the operations): the events of a well-threaded tagged history -- every thread hands to its
   calls only shared values and values / operator objects of its own -- satisfy that discipline ... *)
Theorem C07_thread_discipline : forall own c th m, own OMod = None -> writes_fixed c = true ->
  TInv own m -> wt_hist own c m th -> sched_ok (tpriv own) (sched_of c m th).
Proof. exact (fun own c th m H => hist_sched_ok own H c th m). Qed.

(* ... the invariant holds when the threads start from any reachable model state whose handles are all shared ... *)
Theorem C07_thread_start : forall own c h0, own OMod = None -> writes_fixed c = true ->
  let m0 := fst (run c h0 start) in
  (forall v, In v (handles m0) -> own v = None) -> TInv own m0.
Proof. exact (fun own c h0 H => TInv_reachable own H c h0). Qed.

(* ... hence every interleaving s' of the threads' event sequences (not only the operation-level one) shows each
   thread what its own events show it when run alone *)
Theorem C07_interleave_threads : forall own c m th s' i a b, own OMod = None -> writes_fixed c = true ->
  TInv own m -> wt_hist own c m th ->
  (forall j, mine j s' = mine j (sched_of c m th)) -> agree (tpriv own) i a b ->
  observe i s' a = observe i (mine i (sched_of c m th)) b.
Proof. exact (fun own c m th s' i a b H => thread_interleave own H c m th s' i a b). Qed.

(* Example (non-vacuity): two threads on one shared domain in the configuration of the tree as it stands *)
Theorem C07_threads_nonvacuous :
  TInv ex_own ex_m0 /\ wt_hist ex_own ex_cfg ex_m0 ex_threads /\
  observe 0 (mine 1 ex_s ++ mine 0 ex_s) st0 = observe 0 (mine 0 ex_s) st0.
Proof. exact (conj ex_TInv (conj ex_wt ex_other_order)). Qed.

Theorem C07_frame_refuted_D15 : ~ frame_statement (only false true true true).
Proof. exact refuted_D15. Qed.
Theorem C07_frame_refuted_D16 : ~ frame_statement (only true false true true).
Proof. exact refuted_D16. Qed.
Theorem C07_frame_refuted_D18 : ~ frame_statement (only true true true false).
Proof. exact refuted_D18. Qed.
Theorem C07_separation_refuted : ~ separation_statement (only true true false true).
Proof. exact refuted_D17. Qed.

Print Assumptions C07_writes_private.
Print Assumptions C07_frame.
Print Assumptions C07_frame_reach.
Print Assumptions C07_module_frame.
Print Assumptions C07_repeat.
Print Assumptions C07_frame_nonvacuous.
Print Assumptions C07_separation.
Print Assumptions C07_current_configuration.
Print Assumptions C07_joint_frame.
Print Assumptions C07_apply_actions_fresh.
Print Assumptions C07_apply_actions_unshared.
Print Assumptions C07_joint_example.
Print Assumptions C07_separation_partial.
Print Assumptions C07_separation_weak.
Print Assumptions C07_predicts_no_change.
Print Assumptions C07_predicts_no_value_sharing.
Print Assumptions C07_interleave.
Print Assumptions C07_interleave_example.
Print Assumptions C07_shared_log_discipline.
Print Assumptions C07_thread_discipline.
Print Assumptions C07_thread_start.
Print Assumptions C07_interleave_threads.
Print Assumptions C07_threads_nonvacuous.
Print Assumptions C07_frame_refuted_D15.
Print Assumptions C07_frame_refuted_D16.
Print Assumptions C07_frame_refuted_D18.
Print Assumptions C07_separation_refuted.
