(* C13 — simplified numeric conditions are valid PDDL and mean the same as the originals.
   Level: translation validation.  sympy is an untrusted oracle; every output is validated by the checker of
   Spec/Poly.v, which is proved sound here; the glue around sympy is modelled (Model/SymbolicGlue.v).
   NOT proved: that the simplifier is right on inputs that were not run (that would be a theorem about sympy). *)
From Coq Require Import List String ZArith QArith Qabs.
From Verif Require Import Base.Result Spec.Poly Model.SymbolicGlue Proofs.C13_Poly Proofs.C13_Glue.
Import ListNotations.
Open Scope Q_scope.

(* the polynomial normal form means the same as the expression, for every valuation *)
Theorem C13_norm_sound : forall rho e p, pnorm e = Some p -> eval rho e == peval rho p.
Proof. exact pnorm_sound. Qed.

(* the rational-function normal form: wherever no divisor vanishes, the denominator is non-zero and the
   quotient is the value of the expression *)
Theorem C13_ratfun_sound : forall rho e, defined rho e ->
  ~ peval rho (snd (rnorm e)) == 0 /\ eval rho e == peval rho (fst (rnorm e)) / peval rho (snd (rnorm e)).
Proof. exact rnorm_sound. Qed.

(* THE CHECKER IS SOUND (a precondition's set of numeric conditions, with elimination by its equalities):
   if check_pre accepts (conds, out) there are "mid" conditions such that
   - for every valuation where no divisor vanishes, conds hold exactly when the mid conditions hold
     (conditions omitted from the output are implied, eliminations are justified by the kept equalities),
   - every mid condition is printed: some output condition is it, with each polynomial coefficient rounded by
     at most half a unit of the d-th decimal (or is it verbatim, when nothing had to be rounded),
   - every output condition is such a rounding of a mid condition (nothing is invented).
   That the output uses only binary + - * / is by construction: [cond] has no other operators and
   [cond_of_sexp] rejects everything else. *)
Theorem C13_checker_sound : forall d conds out,
  check_pre d conds out = true ->
  exists mid : list mcond,
    (forall rho, defined_all rho conds -> defined_all rho out ->
                 (sat_all rho conds <-> Forall (msat rho) mid)) /\
    (forall m, In m mid -> exists o, In o out /\ rounded d m o) /\
    (forall o, In o out -> exists m, In m mid /\ rounded d m o).
Proof. exact check_pre_sound. Qed.

(* one inequality simplified under explicitly given assumptions (simplify_inequality) *)
Theorem C13_inequality_sound : forall d assumptions c o m,
  check_under d assumptions c o = Some m ->
  rounded d m o /\
  forall rho, sat_all rho assumptions -> cdefined rho c -> cdefined rho o -> (sat rho c <-> msat rho m).
Proof. exact check_under_sound. Qed.

(* a bare expression (simplify_complex_numeric_expression) *)
Theorem C13_expression_sound : forall d e o,
  check_expr d e o = true ->
  (exists p q, (forall rho, eval rho e == peval rho p) /\ (forall rho, eval rho o == peval rho q) /\
               poly_close (tol_of d) p q)
  \/ (forall rho, defined rho e -> defined rho o -> eval rho o == eval rho e).
Proof. exact check_expr_sound. Qed.

(* full-strength glue statement, refuted on the pinned tree by symbol collisions (finding D21): two different
   fluents are printed as the same fluent *)
Definition C13_glue_injective_naming : Prop :=
  forall a b : string, symbol_name a = symbol_name b -> a = b.
Theorem C13_glue_naming_refuted : ~ C13_glue_injective_naming.
Proof. exact naming_refuted. Qed.

Print Assumptions C13_norm_sound.
Print Assumptions C13_ratfun_sound.
Print Assumptions C13_checker_sound.
Print Assumptions C13_inequality_sound.
Print Assumptions C13_expression_sound.
Print Assumptions C13_glue_naming_refuted.
