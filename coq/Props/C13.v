(* C13 — simplified numeric conditions are valid PDDL and mean the same as the originals.
   Level: translation validation.  sympy is an untrusted oracle; every output is validated by the checker of
   Spec/Poly.v, which is proved sound here; the glue around sympy is modelled (Model/SymbolicGlue.v) and proved.
   NOT proved: that the simplifier is right on inputs that were not run (that would be a theorem about sympy). *)
From Coq Require Import List String ZArith QArith Qabs.
From Verif Require Import Base.Result Base.Str Base.Sexp Model.Tokenizer Spec.Poly Model.SymbolicGlue Proofs.C13_Poly Proofs.C13_Glue
  Proofs.C13_Readback Model.Elimination Proofs.C13_Elim.
Import ListNotations.
Open Scope Q_scope.

(* the polynomial normal form means the same as the expression, for every valuation *)
Theorem C13_norm_sound : forall rho e p, pnorm e = Some p -> eval rho e == peval rho p.
Proof. exact pnorm_sound. Qed.

(* the rational-function normal form: wherever no divisor vanishes, the denominator is non-zero and the
   quotient is the value of the expression *)
Theorem C13_ratfun_sound : forall rho e, defined rho e ->
  ~ peval rho (snd (rnorm e)) == 0 /\ eval rho e == peval rho (fst (rnorm e)) / peval rho (snd (rnorm e)).
Proof. exact rnorm_sound. Qed.

(* THE CHECKER IS SOUND (a precondition's set of numeric conditions, with elimination by its equalities):
   if check_pre accepts (conds, out) - whatever untrusted hints hs it was given - there are "mid" conditions with
   - for every valuation where no divisor of conds or mid vanishes, conds hold exactly when the mid conditions hold
     (an omitted condition is an identity or is implied by the equalities of conds, which are themselves covered;
     eliminations are justified by those equalities),
   - every mid condition is printed: some output condition is it with every constant rounded by at most half a unit
     of the d-th decimal - coefficientwise on polynomial normal forms (MPoly) or constant by constant on the same
     expression tree, terms whose constant factor rounds to zero dropped (MExact, relation cround/eround),
   - every output condition is such a rounding of a mid condition (nothing is invented).
   That the output uses only binary + - * / is by construction: [cond] has no other operators and
   [cond_of_sexp] rejects everything else. *)
Theorem C13_checker_sound : forall d hs conds out,
  check_pre d hs conds out = true ->
  exists mid : list mcond,
    (forall rho, defined_all rho conds -> Forall (mdefined rho) mid ->
                 (sat_all rho conds <-> Forall (msat rho) mid)) /\
    (forall m, In m mid -> exists o, In o out /\ rounded d m o) /\
    (forall o, In o out -> exists m, In m mid /\ rounded d m o).
Proof. exact check_pre_sound. Qed.

(* one inequality simplified under explicitly given assumptions (simplify_inequality) ... *)
Theorem C13_inequality_sound : forall d assumptions hs c o m,
  check_under d assumptions hs c o = Some m ->
  rounded d m o /\
  forall rho, sat_all rho assumptions -> cdefined rho c -> mdefined rho m -> (sat rho c <-> msat rho m).
Proof. exact check_under_sound. Qed.

(* ... or omitted by it: only if the assumptions imply it *)
Theorem C13_omitted_only_if_implied : forall assumptions c,
  implied (filter is_eq assumptions) c = true ->
  forall rho, sat_all rho assumptions -> cdefined rho c -> sat rho c.
Proof. exact implied_under_sound. Qed.

(* "A condition is omitted only if it is implied by the ones kept", explicitly: an input condition that no output
   condition covers holds whenever the equalities of the input hold (an uncovered equality is an identity); the
   equalities themselves are covered - kept - by C13_checker_sound unless they are identities. *)
Theorem C13_omitted_condition_implied : forall d hs conds out,
  check_pre d hs conds out = true ->
  forall c, In c conds ->
    cover d (if is_eq c then [] else filter is_eq conds) hs out c = [] ->
    forall rho, cdefined rho c -> sat_all rho (if is_eq c then [] else filter is_eq conds) -> sat rho c.
Proof. exact check_pre_omitted. Qed.

(* the numeric conditions of an (or ...) node (Precondition.print on a disjunction, also under forall): if check_or accepts
   there are mid conditions - one per validated pair - such that, wherever no divisor vanishes, SOME input condition holds
   exactly when SOME mid condition holds; every mid is printed (rounded) as an output condition and every output condition
   is such a rounding.  Nothing is eliminated and nothing omitted (before D21p the library did both). *)
Theorem C13_disjunction_sound : forall d hs conds out,
  check_or d hs conds out = true ->
  exists mid : list mcond,
    (forall rho, defined_all rho conds -> Forall (mdefined rho) mid ->
                 (Exists (sat rho) conds <-> Exists (msat rho) mid)) /\
    (forall m, In m mid -> exists o, In o out /\ rounded d m o) /\
    (forall o, In o out -> exists m, In m mid /\ rounded d m o).
Proof. exact check_or_sound. Qed.

(* a bare expression (simplify_complex_numeric_expression) *)
Theorem C13_expression_sound : forall d hs e o,
  check_expr d hs e o = true ->
  (exists p q, (forall rho, eval rho e == peval rho p) /\ (forall rho, eval rho o == peval rho q) /\
               poly_close (tol_of d) p q)
  \/ (exists h, eround (tol_of d) h o /\ forall rho, defined rho e -> defined rho h -> eval rho h == eval rho e).
Proof. exact check_expr_sound. Qed.

(* the run's evidence says by which part of the checker an output was validated: the traced variants used for that
   decide exactly what check_pre / check_expr decide, and a reported path names a mid condition of the cover *)
Theorem C13_traced_pre_same : forall d hs conds out, fst (check_pre_tr d hs conds out) = check_pre d hs conds out.
Proof. exact check_pre_tr_same. Qed.

Theorem C13_traced_expr_same : forall d hs e o,
  check_expr d hs e o = match check_expr_path d hs e o with Some _ => true | None => false end.
Proof. exact check_expr_path_same. Qed.

(* sanity of the structural rounding relation: with tolerance 0 it preserves the value *)
Theorem C13_eround_zero : forall rho h o, eround 0 h o -> eval rho h == eval rho o.
Proof. exact eround_zero_same. Qed.

(* THE GLUE AROUND SYMPY (model of extract_atom / _convert_internal_expression_to_pddl / convert_expr_to_pddl):
   whenever the printer returns for a sympy tree t - Add / Mul n-ary, integer powers, Float / Rational / Integer /
   Symbol atoms; anything else raises - there is an expression h with
   - h has exactly the value of the tree (sums, products, powers; a Rational atom counts with its exact value - it is
     printed from it since D21o; a Float atom counts with its reference value [href]: the exact value when its
     rounding is integral, else the 15-digit decimal sympy's str() shows and format() rounds; a symbol counts as the
     function text it is printed as),
   - what is printed is a structural rounding of h to d decimals (every constant within half a unit of the d-th
     decimal, terms whose constant factor rounds to zero dropped, a product with such a factor dropped as a whole) and
     uses only binary + * / (pe_expr succeeds); if nothing is left (None, printed "0") h itself vanishes up to rounding. *)
Theorem C13_glue : forall d flag m t r,
  conv d flag m t = Ok r ->
  exists h : expr,
    (wf_tree t = true -> forall rho, eval rho h == seval d m rho t) /\
    match r with
    | Some p => exists e, pe_expr p = Some e /\ eround (tol_of d) h e
    | None => vanishing (tol_of d) h = true
    end.
Proof. exact glue_sound. Qed.

(* THE GLUE DOWN TO THE TEXT: for every tree the printer accepts, with a symbol table whose function texts have the shape
   "(" name blanks/arguments ")" (fl_ok_b; proved for the tables transform_expression builds, C13_symbol_table_shape, and
   checked on every table of a run), the printed TEXT is read by the tokenizer model (C11) and the restricted grammar
   expr_of_sexp - numbers, functions, binary + - * / only - as an expression e that is a structural d-decimal rounding of
   an expression with exactly the value of the tree, every function named by its canonical text [canon]. *)
Theorem C13_glue_readback : forall d flag m t p,
  conv d flag m t = Ok (Some p) -> Forall fl_ok (map fst m) ->
  exists (s : sexp) (e h : expr),
    parse MStr (s2t (show_pexpr p)) = Ok s /\ expr_of_sexp s = Some e /\
    eround (tol_of d) (ren canon h) e /\
    (wf_tree t = true -> forall rho, eval rho (ren canon h) == seval d m (fun v => rho (canon v)) t).
Proof. exact glue_readback_sound. Qed.

(* a printed number is read back exactly (decimal printing / reading round trip, any magnitude, any number of decimals) *)
Theorem C13_printed_number_read_back : forall x, pnum_ok x -> exists q, read_number (show_pnum x) = Some q /\ q == pnum_value x.
Proof. exact read_show_pnum. Qed.

(* the dictionary transform_expression builds - given entries of the right shape plus the function applications its regular
   expression finds in the text - has keys of the right shape *)
Theorem C13_symbol_table_shape : forall given text m,
  Forall fl_ok (map fst given) -> transform_map given (fluents_in text) = Ok m -> Forall fl_ok (map fst m).
Proof. exact transform_map_ok. Qed.

Theorem C13_glue_text : forall d flag m t s,
  convert_expr_to_pddl d flag m t = Ok s ->
  exists r, conv d flag m t = Ok r /\ s = match r with Some p => show_pexpr p | None => "0"%string end.
Proof. exact convert_text. Qed.

(* every printed number is within half a unit of the d-th decimal of the atom's reference value *)
Theorem C13_number_rounding : forall d v tv, Qabs (href d v tv - pnum_value (number_atom d v tv)) <= tol_of d.
Proof. exact number_atom_close. Qed.

(* a Rational atom p/q is printed from its exact value: within half a unit of the d-th decimal of p/q itself, however
   many digits that takes (before D21o it went through a 15-digit Float: -250000000000000000000/399999 at 5 decimals
   was printed as -625001562503906.00000) *)
Theorem C13_rational_rounding : forall d v, Qabs (v - pnum_value (number_atom d v v)) <= tol_of d.
Proof. exact rat_atom_close. Qed.

(* the reference value of a Float atom (the decimal that str(Float) shows: 15 significant digits) is within 5e-15,
   relative, of the exact binary value, for 1e-400 <= |v| < 1e400 *)
Theorem C13_float_reference_close : forall d v,
  (v == 0 \/ (q10 (-400) <= Qabs v /\ Qabs v < q10 400)) ->
  Qabs (href d v (sig15 v) - v) <= (5 # 1) * q10 (-15) * Qabs v.
Proof. exact href_close. Qed.

(* transform_expression (after the repair of D21): the symbol table stays injective - every function text has its own
   symbol, and a symbol is printed back as the one text it was made for.  (Before the repair the full-strength
   statement was refuted by (f-x ?a) / (fx ?a).) *)
Theorem C13_naming_injective : forall given found m,
  transform_map given found = Ok m -> inj_map given -> inj_map m.
Proof. exact transform_map_injective. Qed.

(* ... and the naming loop always finds a free name (the model's Err EFuel is impossible) *)
Theorem C13_naming_total : forall given found, exists m, transform_map given found = Ok m.
Proof. exact transform_map_total. Qed.

Theorem C13_symbol_printed_back : forall m s1 s2 t,
  inj_map m -> lookup_sym m s1 = Some t -> lookup_sym m s2 = Some t -> s1 = s2.
Proof. exact lookup_sym_injective. Qed.

(* THE ELIMINATION DECISION (Model/Elimination.v: NumericalExpressionTree.extract_eliminated_expressions and the skeleton of
   Precondition._simplify_numeric_preconditions, compared with the code on every call of a run).
   The assumption "A = R" extracted from an equality of the conjunction holds wherever that equality holds - whatever the
   shape of the equality (only (= (+ A B) R) is used: A = R - B, and A = -1 * B when R is the number zero) ... *)
Theorem C13_assumption_follows : forall c a r rho,
  extract_eliminated c = Some (a, r) -> sat rho c -> eval rho a == eval rho r.
Proof. exact extract_eliminated_sound. Qed.

(* ... so every assumption handed to simplify_inequality follows from the equalities of the conjunction *)
Theorem C13_assumptions_follow : forall conds rho,
  sat_all rho (filter is_eq conds) -> Forall (holds_assumption rho) (assumptions_of conds).
Proof. exact assumptions_follow. Qed.

(* the skeleton of _simplify_numeric_preconditions (which condition goes to which printer, with which assumptions, what is
   returned) preserves the meaning of the conjunction when the two printers are exact: a printed condition means the same as
   its input (an inequality: wherever the assumptions hold) and a condition is dropped only when it holds (an inequality:
   wherever the assumptions hold).  The printers themselves go through sympy: their outputs are validated per run by the
   checker above, with rounding; this theorem is about the composition only. *)
Theorem C13_composition_exact : forall (S : Type) (ssat : valuation -> S -> Prop)
    (simp_eq : cond -> option S) (simp_ineq : cond -> list (expr * expr) -> option S),
  (forall c o rho, is_eq c = true -> simp_eq c = Some o -> (ssat rho o <-> sat rho c)) ->
  (forall c rho, is_eq c = true -> simp_eq c = None -> sat rho c) ->
  (forall c asm o rho, is_eq c = false -> simp_ineq c asm = Some o ->
                       Forall (holds_assumption rho) asm -> (ssat rho o <-> sat rho c)) ->
  (forall c asm rho, is_eq c = false -> simp_ineq c asm = None -> Forall (holds_assumption rho) asm -> sat rho c) ->
  forall conds rho,
    Forall (ssat rho) (simplify_numeric_preconditions simp_eq simp_ineq conds) <-> sat_all rho conds.
Proof. exact composition_exact. Qed.

(* its hypotheses are satisfiable by a printer that really substitutes and really drops (Proofs/C13_Elim.v: subst_printer) *)
Theorem C13_composition_example : forall conds rho,
  Forall (sat rho) (simplify_numeric_preconditions (fun c => Some c) subst_printer conds) <-> sat_all rho conds.
Proof. exact composition_with_substituting_printer. Qed.

Print Assumptions C13_norm_sound.
Print Assumptions C13_glue.
Print Assumptions C13_glue_text.
Print Assumptions C13_glue_readback.
Print Assumptions C13_printed_number_read_back.
Print Assumptions C13_symbol_table_shape.
Print Assumptions C13_disjunction_sound.
Print Assumptions C13_number_rounding.
Print Assumptions C13_rational_rounding.
Print Assumptions C13_float_reference_close.
Print Assumptions C13_naming_injective.
Print Assumptions C13_naming_total.
Print Assumptions C13_symbol_printed_back.
Print Assumptions C13_ratfun_sound.
Print Assumptions C13_checker_sound.
Print Assumptions C13_inequality_sound.
Print Assumptions C13_omitted_condition_implied.
Print Assumptions C13_expression_sound.
Print Assumptions C13_omitted_only_if_implied.
Print Assumptions C13_eround_zero.
Print Assumptions C13_traced_pre_same.
Print Assumptions C13_traced_expr_same.
Print Assumptions C13_assumption_follows.
Print Assumptions C13_assumptions_follow.
Print Assumptions C13_composition_exact.
Print Assumptions C13_composition_example.
