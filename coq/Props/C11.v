(* Property C11 — the S-expression reader returns the text's parenthesis structure, all of it.
   Statements only; proofs live in Proofs/C11_*.v. *)
From Coq Require Import List Ascii String.
From Verif Require Import Base.Result Base.Str Base.Sexp Model.Tokenizer Spec.Layout Proofs.C11_Main
  Proofs.C11_Reader.
Import ListNotations.

(* Layout, comment and case invariance; tokens never merge or split (both input modes). *)
Theorem C11_sound : forall (m : mode) (t : sexp) (seps : list text) (trailer : text),
  atoms_ok t ->
  List.length seps = List.length (flatten t) ->
  valid_from m false (combine seps (map s2t (flatten t))) ->
  is_trailer m trailer ->
  parse m (render (combine seps (map s2t (flatten t))) trailer) = Ok (lower_sexp t).
Proof. exact C11_sound_lemma. Qed.

(* Whatever is returned is the whole token stream. *)
Theorem C11_complete : forall (m : mode) (s : text) (t : sexp),
  parse m s = Ok t -> tokenize m s = flatten t /\ wf t = true.
Proof. exact C11_complete_lemma. Qed.

(* Unbalanced text, and text continuing after the top-level form, is an error (never out-of-fuel). *)
Theorem C11_reject : forall (m : mode) (s : text),
  (forall t, wf t = true -> tokenize m s <> flatten t) ->
  exists k, parse m s = Err k /\ k <> EFuel.
Proof. exact C11_reject_lemma. Qed.

Theorem C11_no_fuel : forall ts, parse_tokens ts <> Err EFuel.
Proof. exact parse_tokens_no_fuel. Qed.

Print Assumptions C11_sound.
Print Assumptions C11_complete.
Print Assumptions C11_reject.
Print Assumptions C11_no_fuel.
