(* Property C11 — the S-expression reader returns the text's parenthesis structure, all of it.
   Statements only; proofs live in Proofs/C11_*.v.

   Full statement = C11_sound + "parse m s = Ok t -> tokenize m s = flatten t".  The second half is
   FALSE of the code (finding D02: no end-of-input check), so it is given as
     - C11_complete_strict   : it holds of the strict reader (the spec),
     - C11_agree_unless_trailing : the code's reader equals the strict one except on inputs that leave
                                tokens unread (exactly the class of the recorded finding),
     - C11_complete_partial  : what the code's reader does guarantee (prefix),
     - C11_complete_refuted  : the witness replayed on the implementation as the finding. *)
From Coq Require Import List Ascii String.
From Verif Require Import Base.Result Base.Str Base.Sexp Model.Tokenizer Spec.Layout Proofs.C11_Main
  Proofs.C11_Reader Proofs.C11_Lines.
Import ListNotations.

(* Layout, comment and case invariance; tokens never merge or split (both input modes). *)
Theorem C11_sound : forall (m : mode) (t : sexp) (seps : list text) (trailer : text),
  atoms_ok t ->
  List.length seps = List.length (flatten t) ->
  valid_from m false (combine seps (map s2t (flatten t))) ->
  is_trailer m trailer ->
  parse m (render (combine seps (map s2t (flatten t))) trailer) = Ok (lower_sexp t).
Proof. exact C11_sound_lemma. Qed.

Theorem C11_complete_strict : forall (m : mode) (s : text) (t : sexp),
  parse_strict m s = Ok t <-> (tokenize m s = flatten t /\ wf t = true).
Proof. exact C11_complete_strict_lemma. Qed.

Theorem C11_agree_unless_trailing : forall (m : mode) (s : text),
  parse m s = parse_strict m s \/
  (exists t, parse m s = Ok t /\ unread_tokens (tokenize m s) <> [] /\ parse_strict m s = Err ESyntax).
Proof. exact C11_agree_unless_trailing_lemma. Qed.

Theorem C11_complete_partial : forall (m : mode) (s : text) (t : sexp),
  parse m s = Ok t -> tokenize m s = flatten t ++ unread_tokens (tokenize m s) /\ wf t = true.
Proof. exact C11_complete_partial_lemma. Qed.

Theorem C11_complete_refuted :
  exists s t, parse MStr (s2t s) = Ok t /\ tokenize MStr (s2t s) <> flatten t.
Proof. exact C11_complete_refuted_lemma. Qed.

(* Text that does not start with a complete form (unclosed "(", stray ")", no token) is an error. *)
Theorem C11_reject : forall (m : mode) (s : text),
  (forall t rest, wf t = true -> tokenize m s <> flatten t ++ rest) ->
  exists k, parse m s = Err k /\ k <> EFuel.
Proof. exact C11_reject_lemma. Qed.

Theorem C11_no_fuel : forall ts, parse_tokens ts <> Err EFuel.
Proof. exact parse_tokens_no_fuel. Qed.

(* Round 3.  The token stream does not depend on the line structure: cutting the text after any line feed and
   tokenizing the pieces one after the other gives the same tokens ... *)
Theorem C11_split_at_newline : forall (m : mode) (a b : text),
  tokenize m (a ++ LF :: b) = tokenize m a ++ tokenize m b.
Proof. exact tokenize_split_at_newline. Qed.

(* ... so the automaton of the model IS the loop of the code: split into lines, cut each line at its first ';',
   tokenize what is left (lines: free of line ends, of CR too in file mode). *)
Theorem C11_line_by_line : forall (m : mode) (ls : list text),
  Forall (Forall (fun c => ends_comment m c = false)) ls ->
  tokenize m (join_lf ls) = flat_map (fun l => tokenize m (before_semi l)) ls.
Proof. exact tokenize_line_by_line. Qed.

Example C11_line_by_line_nonvacuous :
  Forall (Forall (fun c => ends_comment MStr c = false)) [s2t "(a ;x ("; s2t "; y"; s2t " B)"] /\
  tokenize MStr (join_lf [s2t "(a ;x ("; s2t "; y"; s2t " B)"]) = ["("; "a"; "b"; ")"]%string.
Proof. exact line_by_line_example. Qed.

(* File input and string input read the same tokens from every text without a lone CR ... *)
Theorem C11_modes_agree : forall s : text,
  cr_then_lf s = true -> parse MFile s = parse MStr s /\ tokenize MFile s = tokenize MStr s.
Proof. exact parse_modes_agree. Qed.

(* ... and the hypothesis is needed: a lone CR inside a comment ends the comment in file mode only. *)
Theorem C11_modes_differ_on_lone_cr :
  exists s, cr_then_lf s = false /\ tokenize MFile s <> tokenize MStr s.
Proof. exact modes_differ_witness. Qed.

Example C11_modes_agree_nonvacuous : cr_then_lf (s2t "(a ;c" ++ CR :: LF :: s2t " b)" ++ [CR]) = true.
Proof. exact cr_then_lf_example. Qed.

Print Assumptions C11_sound.
Print Assumptions C11_complete_strict.
Print Assumptions C11_agree_unless_trailing.
Print Assumptions C11_complete_partial.
Print Assumptions C11_complete_refuted.
Print Assumptions C11_reject.
Print Assumptions C11_no_fuel.
Print Assumptions C11_split_at_newline.
Print Assumptions C11_line_by_line.
Print Assumptions C11_modes_agree.
Print Assumptions C11_modes_differ_on_lone_cr.
