(* Property C11 — the S-expression reader returns the text's parenthesis structure, all of it.
   Statements only; proofs live in Proofs/C11_*.v.

   Full statement = C11_sound + "parse m s = Ok t -> tokenize m s = flatten t".  The second half is
   FALSE of the code (finding D02: no end-of-input check), so it is given as
     - C11_complete_strict   : it holds of the strict reader (the spec),
     - C11_agree_unless_trailing : the code's reader equals the strict one except on inputs that leave
                                tokens unread (exactly the class of the recorded finding),
     - C11_complete_partial  : what the code's reader does guarantee (prefix),
     - C11_complete_refuted  : the witness replayed on the implementation as the finding. *)
From Coq Require Import List Ascii String.
From Verif Require Import Base.Result Base.Str Base.Sexp Model.Tokenizer Spec.Layout Proofs.C11_Main
  Proofs.C11_Reader.
Import ListNotations.

(* Layout, comment and case invariance; tokens never merge or split (both input modes). *)
Theorem C11_sound : forall (m : mode) (t : sexp) (seps : list text) (trailer : text),
  atoms_ok t ->
  List.length seps = List.length (flatten t) ->
  valid_from m false (combine seps (map s2t (flatten t))) ->
  is_trailer m trailer ->
  parse m (render (combine seps (map s2t (flatten t))) trailer) = Ok (lower_sexp t).
Proof. exact C11_sound_lemma. Qed.

Theorem C11_complete_strict : forall (m : mode) (s : text) (t : sexp),
  parse_strict m s = Ok t <-> (tokenize m s = flatten t /\ wf t = true).
Proof. exact C11_complete_strict_lemma. Qed.

Theorem C11_agree_unless_trailing : forall (m : mode) (s : text),
  parse m s = parse_strict m s \/
  (exists t, parse m s = Ok t /\ unread_tokens (tokenize m s) <> [] /\ parse_strict m s = Err ESyntax).
Proof. exact C11_agree_unless_trailing_lemma. Qed.

Theorem C11_complete_partial : forall (m : mode) (s : text) (t : sexp),
  parse m s = Ok t -> tokenize m s = flatten t ++ unread_tokens (tokenize m s) /\ wf t = true.
Proof. exact C11_complete_partial_lemma. Qed.

Theorem C11_complete_refuted :
  exists s t, parse MStr (s2t s) = Ok t /\ tokenize MStr (s2t s) <> flatten t.
Proof. exact C11_complete_refuted_lemma. Qed.

(* Text that does not start with a complete form (unclosed "(", stray ")", no token) is an error. *)
Theorem C11_reject : forall (m : mode) (s : text),
  (forall t rest, wf t = true -> tokenize m s <> flatten t ++ rest) ->
  exists k, parse m s = Err k /\ k <> EFuel.
Proof. exact C11_reject_lemma. Qed.

Theorem C11_no_fuel : forall ts, parse_tokens ts <> Err EFuel.
Proof. exact parse_tokens_no_fuel. Qed.

Print Assumptions C11_sound.
Print Assumptions C11_complete_strict.
Print Assumptions C11_agree_unless_trailing.
Print Assumptions C11_complete_partial.
Print Assumptions C11_complete_refuted.
Print Assumptions C11_reject.
Print Assumptions C11_no_fuel.
