(* Property C04 - a plan is turned into the trajectory that the transition function dictates.  Statements only;
   proofs in Proofs/C04_*.v.

   Reading guide
     Model.Plan.parse_plan d eps allow objs sch init lines   TrajectoryExporter(domain, allow).parse_plan(problem, lines)
        d: the parsed domain, objs: problem.objects, init: the problem's initial state, lines: the plan lines (any text),
        sch: for the k-th line, the order in which Operator.apply visits its effect collections (hash sets): the theorems
        hold for EVERY schedule.  A triplet is (t_prev, t_op, t_next); a state carries its is_init flag.
     Model.Plan.apply_action d eps (Some objs) allow o a args s   Operator(action a, domain, args, objs).apply(s, allow):
        the library's transition function.  Model.Exec.is_applicable is Operator.is_applicable.
     run_effects (Proofs/C04_Plan.v): what apply() does once its guard has let the call through.
   The theorems are about the model's own step function; C02 (is_applicable = holds) and C03 (apply = successor)
   identify it with the PDDL semantics, see the corollary section at the end. *)
From Coq Require Import List String Bool PrimFloat.
From Verif Require Import Base.Result Base.Str Base.PyDict Model.Types Model.Domain Model.Exec Model.Plan Spec.Pddl Spec.Plan
  Spec.Joint Spec.Subst Proofs.C20_Defs Proofs.C20_Subst Proofs.C03_Defs
  Model.Tokenizer Spec.Layout Proofs.C04_Thread Proofs.C04_Plan Proofs.C04_Lines Proofs.C04_Spec Proofs.C04_Link Proofs.C04_Examples.
Import ListNotations.

(* The trajectory, for plans of any length and any line texts: one triplet per plan line, in plan order; the first
   pre-state is the initial state; every pre-state is the preceding post-state; the k-th triplet belongs to the k-th
   line: its operator is the call written there and its post-state is what apply returns for that call on its
   pre-state - or the unchanged pre-state when apply raised ValueError; any other exception aborts the whole plan. *)
Theorem C04_trajectory : forall d eps allow objs sch init lines ts,
  parse_plan d eps allow objs sch init lines = Ok ts ->
  List.length ts = List.length lines /\
  (forall t, hd_error ts = Some t -> t_prev t = {| ms_init := true; ms_st := init |}) /\
  (forall k t u, nth_error ts k = Some t -> nth_error ts (S k) = Some u -> t_prev u = t_next t) /\
  (forall k t, nth_error ts k = Some t ->
     exists line c a,
       nth_error lines k = Some line /\ parse_action_call line = Ok c /\
       dget (d_actions d) (ac_name c) = Some a /\
       t_op t = op_text (ma_name a) (ac_args c) /\ ms_init (t_next t) = false /\
       match apply_action d eps (Some objs) allow (sch k a) a (ac_args c) (ms_st (t_prev t)) with
       | Ok s' => ms_st (t_next t) = s'
       | Err EValue => ms_st (t_next t) = ms_st (t_prev t)
       | Err _ => False
       end).
Proof. exact parse_plan_trajectory. Qed.

(* What apply returns, by the library's own applicability test b:  applicable -> the effects;  inapplicable and not
   allowed -> ValueError (so the exported step keeps its state);  inapplicable but allowed -> the effects (forced). *)
Theorem C04_step_cases : forall d eps allow objs a args ga o s b,
  ground_action d a args = Ok ga ->
  is_applicable d eps (Some objs) ga s = Ok b ->
  apply_action d eps (Some objs) allow o a args s =
  if negb b && negb allow then Err EValue else run_effects d eps ga (Some objs) (fst o) (snd o) s.
Proof. exact apply_action_cases. Qed.

(* direct application of an inapplicable call without the allow switch is a ValueError *)
Theorem C04_refusal : forall d eps ga objs o u s,
  is_applicable d eps objs ga s = Ok false ->
  apply_op d eps ga objs false false o u s = Err EValue.
Proof. exact apply_op_refuses. Qed.

(* ... and for an applicable call the switch does not matter *)
Theorem C04_allow_irrelevant : forall d eps ga objs o u s allow,
  is_applicable d eps objs ga s = Ok true ->
  apply_op d eps ga objs allow false o u s = apply_op d eps ga objs true false o u s.
Proof. exact apply_op_allow_irrelevant. Qed.

(* ---------- how a plan line is read ---------- *)
(* lower(), pad the parentheses, split(): on a line without ';' exactly the token stream of the PDDL tokenizer *)
Theorem C04_line_tokens : forall m (line : string),
  no_comment (s2t line) -> action_tokens line = tokenize m (s2t line).
Proof. exact action_tokens_tokenize. Qed.

(* a call written "( name arg ... arg )" in ANY layout (blanks before every token - at least one between two names -,
   any letter case, blanks / newline after it) is read as the lower-cased name with the lower-cased arguments in order *)
Theorem C04_line_reading : forall (name : text) (args seps : list text) (trailer : text),
  is_atom_text name -> Forall is_atom_text args ->
  List.length seps = List.length (call_tokens name args) ->
  Forall is_blank seps -> is_blank trailer ->
  valid_from MStr false (combine seps (call_tokens name args)) ->
  parse_action_call (t2s (render (combine seps (call_tokens name args)) trailer)) =
  Ok {| ac_name := t2s (lower_text name); ac_args := map (fun a => t2s (lower_text a)) args |}.
Proof. exact parse_action_call_layout. Qed.

(* its hypotheses hold for "  ( MOVE<TAB>L1  l2 )<LF>", which is read as (move l1 l2) *)
Theorem C04_line_example :
  (is_atom_text lx_name /\ Forall is_atom_text lx_args /\
   List.length lx_seps = List.length (call_tokens lx_name lx_args) /\
   Forall is_blank lx_seps /\ is_blank lx_trailer /\
   valid_from MStr false (combine lx_seps (call_tokens lx_name lx_args))) /\
  parse_action_call (t2s (render (combine lx_seps (call_tokens lx_name lx_args)) lx_trailer)) =
  Ok {| ac_name := "move"; ac_args := ["l1"; "l2"]%string |}.
Proof. exact (conj lx_hypotheses lx_reading). Qed.

(* ---------- malformed plan lines: what the code does ---------- *)
(* a line that fails makes parse_plan fail with that error, whatever follows *)
Theorem C04_error_aborts : forall d eps allow objs sch init l1 line l2 ts1 k,
  parse_plan d eps allow objs sch init l1 = Ok ts1 ->
  create_single_triplet d eps allow objs (sch (List.length l1))
    (end_state _ _ t_next {| ms_init := true; ms_st := init |} ts1) line = Err k ->
  parse_plan d eps allow objs sch init (l1 ++ line :: l2) = Err k.
Proof. exact parse_plan_fails_at. Qed.

(* an unknown action name is a KeyError; a line with at most two tokens (blank, "()", "x") an IndexError *)
Theorem C04_unknown_action : forall d eps allow objs ord prev line c,
  parse_action_call line = Ok c -> dget (d_actions d) (ac_name c) = None ->
  create_single_triplet d eps allow objs ord prev line = Err EKey.
Proof. exact cst_unknown_action. Qed.

Theorem C04_no_call : forall d eps allow objs ord prev line,
  (List.length (action_tokens line) <= 2)%nat ->
  create_single_triplet d eps allow objs ord prev line = Err EIndex.
Proof. exact cst_no_call. Qed.

(* wrong arity is NOT rejected: surplus tokens after the arguments (a trailing comment, a stray name) are ignored by
   grounding - the step is the step of the call without them, only the printed operator keeps them *)
Theorem C04_surplus_ignored : forall d eps objs allow a args extra o s,
  (List.length (ma_sig a) <= List.length args)%nat ->
  apply_action d eps (Some objs) allow o a (args ++ extra) s = apply_action d eps (Some objs) allow o a args s.
Proof. exact apply_action_surplus. Qed.

(* ---------- the exported trajectory: first state, then (operator, next state) per triplet ---------- *)
Theorem C04_export : forall ts items,
  export ts = Ok items ->
  List.length items = S (2 * List.length ts) /\
  (forall t, hd_error ts = Some t -> hd_error items = Some (XState (t_prev t))) /\
  (forall k t, nth_error ts k = Some t ->
     nth_error items (S (2 * k)) = Some (XOp [t_op t]) /\ nth_error items (S (S (2 * k))) = Some (XState (t_next t))).
Proof. exact export_shape. Qed.

(* ---------- the hypotheses are satisfiable: a plan with an inapplicable step in the middle ---------- *)
(* lines in upper case and odd spacing; without the switch the middle step keeps its state, with it the step is forced *)
Theorem C04_example_refused :
  parse_plan ex_dom ex_eps false ex_objs id_schedule ex_init ex_plan = Ok ex_trace_refused /\
  List.length ex_trace_refused = 3 /\
  (exists t, nth_error ex_trace_refused 1 = Some t /\ ms_st (t_next t) = ms_st (t_prev t)).
Proof. exact ex_refused_lemma. Qed.

Theorem C04_example_forced :
  parse_plan ex_dom ex_eps true ex_objs id_schedule ex_init ex_plan = Ok ex_trace_forced /\
  (exists t, nth_error ex_trace_forced 1 = Some t /\ ms_st (t_next t) <> ms_st (t_prev t)).
Proof. exact ex_forced_lemma. Qed.

(* ---------- against the PDDL semantics ---------- *)
(* Spec.Plan.run_plan is THE trajectory of the property text (is_trajectory: one step per line in order, first pre-state,
   chaining, post = successor | unchanged) ... *)
Theorem C04_spec_trajectory_unique : forall (S A : Type) (app : A -> S -> bool) (succ : A -> S -> S) (allow : bool) tr init plan,
  is_trajectory S A app succ allow init plan tr <-> tr = run_plan S A app succ allow init plan.
Proof. exact trajectory_iff. Qed.

(* ... and the model's trajectory is that trajectory over Spec.Pddl.applicable / successor, step by step (states compared
   as sets of facts and maps of fluents).  Premise [plan_refines]: line by line, at the state reached, the library's
   applicability test answers Spec.Pddl.applicable and - when the step is taken - apply returns the PDDL successor:
   that is what C02 and C03 prove (C04_link below discharges it for one step from their hypotheses). *)
Theorem C04_trajectory_spec : forall d eps allow objs sch tt init lines calls ms,
  Forall2 (fun l c => parse_action_call l = Ok c) lines calls ->
  plan_refines d eps allow objs sch tt 0 calls ms init ->
  exists ts, parse_plan d eps allow objs sch init lines = Ok ts /\
             Forall2 same_step ts
               (run_plan _ _ (fun (m : member) s => m_applicable tt objs eps s m)
                         (fun (m : member) s => m_step tt objs eps s m) allow init ms).
Proof. exact parse_plan_spec. Qed.

(* one step of the premise from the hypotheses of C02_applicable_spec and C03_forced (any visiting order o) *)
Theorem C04_link : forall d eps objs name a effs phi args ga s (o : orders),
  dget (d_actions d) name = Some a ->
  denote_pre (ma_pre a) = Some phi -> denote_effs a = Some effs -> names_ok d a = true ->
  ground_action d a args = Ok ga ->
  no_shadow (d_consts d) (dkeys (call_map a args) ++ pre_bvars (ma_pre a)) = true ->
  pre_ok d true (dkeys (call_map a args)) (ma_pre a) = true ->
  fdiv0 (d_types d) objs (bind_args (spec_action a effs) args) s (a_pre (spec_action a effs)) = false ->
  evaluates d eps objs ga s ->
  consistent (all_groups eps (d_types d) objs (spec_action a effs) args s) = true ->
  is_order (fst o) (List.length (ga_groups ga)) -> is_order (snd o) (List.length (ma_univ a)) ->
  let c := {| ac_name := name; ac_args := args |} in
  let m : member := (spec_action a effs, args) in
  call_applicable d eps (Some objs) c s = Ok (m_applicable (d_types d) objs eps s m) /\
  forall allow ord, ord a = o -> m_applicable (d_types d) objs eps s m || allow = true ->
    exists s', apply_call d eps (Some objs) allow ord c s = Ok s' /\ st_equiv s' (m_step (d_types d) objs eps s m).
Proof. exact link_lemma. Qed.

Print Assumptions C04_trajectory.
Print Assumptions C04_line_tokens.
Print Assumptions C04_line_reading.
Print Assumptions C04_line_example.
Print Assumptions C04_spec_trajectory_unique.
Print Assumptions C04_trajectory_spec.
Print Assumptions C04_link.
Print Assumptions C04_step_cases.
Print Assumptions C04_refusal.
Print Assumptions C04_allow_irrelevant.
Print Assumptions C04_error_aborts.
Print Assumptions C04_unknown_action.
Print Assumptions C04_no_call.
Print Assumptions C04_surplus_ignored.
Print Assumptions C04_export.
Print Assumptions C04_example_refused.
Print Assumptions C04_example_forced.
