(* C04 - a plan is turned into the trajectory that the transition function dictates: statements only. *)
From Coq Require Import List String Bool PrimFloat.
From Verif Require Import Base.Result Base.PyDict Model.Domain Model.Exec Model.Plan Spec.Pddl Spec.Plan Proofs.C04_Plan.
Import ListNotations.

(* direct application of an inapplicable call without the allow switch is a ValueError *)
Theorem C04_refusal : forall d eps ga objs o u s,
  is_applicable d eps objs ga s = Ok false ->
  apply_op d eps ga objs false false o u s = Err EValue.
Proof. exact apply_op_refuses. Qed.
Print Assumptions C04_refusal.
