(* C16 - a joint action acts like its members applied one after another, in any order: statements only. *)
From Coq Require Import List String Bool PrimFloat.
From Verif Require Import Base.Result Base.PyDict Model.Domain Model.Exec Model.Plan Model.Joint Spec.Pddl Spec.Joint
  Proofs.C16_Joint.
Import ListNotations.

(* nop entries change nothing *)
Theorem C16_nops : forall d eps objs sch cur calls allow,
  apply_actions d eps objs sch cur calls allow =
  apply_actions d eps objs sch cur (filter (fun c => negb (is_nop c)) calls) allow.
Proof. exact apply_actions_nops. Qed.
Print Assumptions C16_nops.
