(* Property C16 - a joint action acts like its members applied one after another, in any order.  Statements only;
   proofs in Proofs/C16_*.v.

   Reading guide
     Model.Joint.apply_actions d eps objs sch cur calls allow   multi_agent.common.apply_actions(domain, cur, calls,
        allow, objects): nop entries dropped; one member -> Operator.apply(cur, allow); otherwise applicability of
        every member is tested in cur and the members are applied one after the other to an accumulated copy.
        [sch]: for the i-th member, the order in which its apply() visits its effect collections - any schedule.
     Model.Plan.call_applicable   Operator(...).is_applicable(state), the library's own test (C02: = holds).
     Model.Plan.apply_call .. true ..   Operator(...).apply(state, allow_inapplicable_actions=True) (C03: = successor).
     Spec.Joint: member = ground action; non_interfering (syntactic footprints: neither changes a fact the other reads,
        no add/delete conflict, no fluent written by one and read or written by the other); seq_apply = fold of the
        PDDL successor; st_equiv = the same set of facts and the same map of fluents (values Leibniz-equal).
   C16_any_order is pure PDDL (no model); C16_sequential / C16_refuse / C16_nops / C16_export are about the model
   alone; C16_joint combines them: its premise [seq_refines] is the statement of C03 at the states visited. *)
From Coq Require Import List Ascii String Bool PrimFloat Permutation.
From Verif Require Import Base.Result Base.Str Base.PyDict Model.Types Model.Domain Model.Exec Model.Plan Model.Joint
  Spec.Pddl Spec.Joint Spec.Subst Proofs.C20_Defs Proofs.C20_Subst Proofs.C03_Defs
  Proofs.C04_Thread Proofs.C04_Link Proofs.C16_Commute Proofs.C16_Joint Proofs.C16_Main Proofs.C16_Lines Proofs.C16_Examples
  Proofs.C16_Seq.
Import ListNotations.

(* ---------- PDDL level: order does not matter for non-interfering members ---------- *)
(* two non-interfering members commute ... *)
Theorem C16_commute : forall tt objs eps a b s,
  non_interfering tt objs a b = true ->
  st_equiv (m_step tt objs eps (m_step tt objs eps s a) b) (m_step tt objs eps (m_step tt objs eps s b) a).
Proof. exact step_commute. Qed.

(* ... hence EVERY permutation of pairwise non-interfering members gives the same state (induction on the
   permutation, any number of members) *)
Theorem C16_any_order : forall tt objs eps ms ms' s,
  pairwise_non_interfering tt objs ms = true -> Permutation ms ms' ->
  st_equiv (seq_apply tt objs eps s ms) (seq_apply tt objs eps s ms').
Proof. exact seq_apply_perm. Qed.

(* a member applicable in the current state is still applicable when its turn comes, whatever members that do not
   disturb it were applied before *)
Theorem C16_stays_applicable : forall tt objs eps ms s m,
  Forall (fun a => undisturbed_by tt objs a m = true) ms ->
  m_applicable tt objs eps (seq_apply tt objs eps s ms) m = m_applicable tt objs eps s m.
Proof. exact applicable_through. Qed.

(* ---------- the model of apply_actions ---------- *)
(* nop entries change nothing *)
Theorem C16_nops : forall d eps objs sch cur calls allow,
  apply_actions d eps objs sch cur calls allow =
  apply_actions d eps objs sch cur (filter (fun c => negb (is_nop c)) calls) allow.
Proof. exact apply_actions_nops. Qed.

(* all non-nop members applicable in the current state: the joint action is the members applied one after the other in
   list order, each to the state its predecessor returned (for both values of the allow switch) *)
Theorem C16_sequential : forall d eps objs sch cur calls allow,
  Forall (fun c => call_applicable d eps objs c (ms_st cur) = Ok true) (filter (fun c => negb (is_nop c)) calls) ->
  apply_actions d eps objs sch cur calls allow =
  (do s' <- seq_members d eps objs sch (ms_st cur) (number (filter (fun c => negb (is_nop c)) calls));
   Ok {| ms_init := false; ms_st := s' |}).
Proof. exact apply_actions_sequential. Qed.

(* inapplicable actions explicitly allowed: nothing is refused, the members are applied one after the other *)
Theorem C16_allowed : forall d eps objs sch cur calls,
  Forall (fun c => exists b, call_applicable d eps objs c (ms_st cur) = Ok b) (filter (fun c => negb (is_nop c)) calls) ->
  apply_actions d eps objs sch cur calls true =
  (do s' <- seq_members d eps objs sch (ms_st cur) (number (filter (fun c => negb (is_nop c)) calls));
   Ok {| ms_init := false; ms_st := s' |}).
Proof. exact apply_actions_allowed. Qed.

(* some member inapplicable in the current state, inapplicable actions not allowed: ValueError - at whatever position
   the member stands ([before]: the applicable members in front of it, whose application raised nothing) *)
Theorem C16_refuse : forall d eps objs sch cur calls before c after s1,
  filter (fun c => negb (is_nop c)) calls = before ++ c :: after ->
  Forall (fun c => call_applicable d eps objs c (ms_st cur) = Ok true) before ->
  seq_members d eps objs sch (ms_st cur) (number_from 0 before) = Ok s1 ->
  call_applicable d eps objs c (ms_st cur) = Ok false ->
  apply_actions d eps objs sch cur calls false = Err EValue.
Proof. exact apply_actions_refuses. Qed.

(* ---------- THE PROPERTY ---------- *)
Theorem C16_joint : forall d eps objs tt sch cur calls allow ms,
  Forall (fun c => call_applicable d eps (Some objs) c (ms_st cur) = Ok true)
         (filter (fun c => negb (is_nop c)) calls) ->
  pairwise_non_interfering tt objs ms = true ->
  seq_refines d eps objs tt sch 0 (filter (fun c => negb (is_nop c)) calls) ms (ms_st cur) ->
  exists s', apply_actions d eps (Some objs) sch cur calls allow = Ok {| ms_init := false; ms_st := s' |} /\
             forall pi, Permutation ms pi -> st_equiv s' (seq_apply tt objs eps (ms_st cur) pi).
Proof. exact joint_any_order. Qed.

(* one step of the premise [seq_refines] (and the model's applicability test = Spec.Pddl.applicable) from the hypotheses
   of C02_applicable_spec and C03_forced, for any visiting order o *)
Theorem C16_link : forall d eps objs name a effs phi args ga s (o : orders),
  dget (d_actions d) name = Some a ->
  denote_pre (ma_pre a) = Some phi -> denote_effs a = Some effs -> names_ok d a = true ->
  ground_action d a args = Ok ga ->
  no_shadow (d_consts d) (dkeys (call_map a args) ++ pre_bvars (ma_pre a)) = true ->
  pre_ok d true (dkeys (call_map a args)) (ma_pre a) = true ->
  fdiv0 (d_types d) objs (bind_args (spec_action a effs) args) s (a_pre (spec_action a effs)) = false ->
  evaluates d eps objs ga s ->
  consistent (all_groups eps (d_types d) objs (spec_action a effs) args s) = true ->
  is_order (fst o) (List.length (ga_groups ga)) -> is_order (snd o) (List.length (ma_univ a)) ->
  let c := {| ac_name := name; ac_args := args |} in
  let m : member := (spec_action a effs, args) in
  call_applicable d eps (Some objs) c s = Ok (m_applicable (d_types d) objs eps s m) /\
  forall ord, ord a = o ->
    exists s', apply_call d eps (Some objs) true ord c s = Ok s' /\ st_equiv s' (m_step (d_types d) objs eps s m).
Proof. exact link_joint_lemma. Qed.

(* ---------- how a joint plan line is read ---------- *)
(* the scanner for the regular expression returns exactly the parenthesised groups of a line
   pre (g1) sep (g2) ... (gn) sep, every group a non-empty run of class characters, no "(" in pre / separators *)
Theorem C16_line_groups : forall pre items,
  no_lparen pre -> Forall (fun gs => ok_group (fst gs) /\ no_lparen (snd gs)) items ->
  scan_groups (joint_line pre items) None = map fst items.
Proof. exact scan_groups_line. Qed.

(* ... and a joint action "[(name arg .. arg),(nop ), ...]" is read as its members, in order, nops included *)
Theorem C16_line_reading : forall pre (ms : list ((Str.text * list Str.text * Str.text) * Str.text)),
  no_lparen pre ->
  Forall (fun ms => ok_member (fst ms) /\ no_lparen (snd ms)) ms ->
  parse_joint_call (Str.t2s (joint_line pre (map (fun ms => (mtext (fst ms), snd ms)) ms))) =
  Ok (map (fun ms => {| ac_name := Str.t2s (fst (fst (fst ms))); ac_args := map Str.t2s (snd (fst (fst ms))) |}) ms).
Proof. exact parse_joint_call_line. Qed.

(* its hypotheses hold for "[(move r1 l1 l2),(nop ), (load-truck t_1 p?)]<LF>" *)
Theorem C16_line_example :
  (no_lparen ["["%char] /\ Forall (fun ms => ok_member (fst ms) /\ no_lparen (snd ms)) jl_members) /\
  parse_joint_call (Str.t2s (joint_line ["["%char] (map (fun ms => (mtext (fst ms), snd ms)) jl_members))) =
  Ok [ {| ac_name := "move"; ac_args := ["r1"; "l1"; "l2"]%string |};
       {| ac_name := "nop"; ac_args := [] |};
       {| ac_name := "load-truck"; ac_args := ["t_1"; "p?"]%string |} ].
Proof. exact (conj jl_hypotheses jl_reading). Qed.

(* ---------- the exported multi-agent trajectory: one step per joint action, chained ---------- *)
Theorem C16_export : forall d eps exporter_allow objs sch allow init lines ts,
  parse_joint_plan d eps exporter_allow objs sch allow init lines = Ok ts ->
  List.length ts = List.length lines /\
  (forall t, hd_error ts = Some t -> jt_prev t = {| ms_init := true; ms_st := init |}) /\
  (forall k t u, nth_error ts k = Some t -> nth_error ts (S k) = Some u -> jt_prev u = jt_next t) /\
  (forall k t, nth_error ts k = Some t ->
     exists line calls,
       nth_error lines k = Some line /\ parse_joint_call line = Ok calls /\
       mapM (member_text d) calls = Ok (jt_ops t) /\
       apply_actions d eps (Some objs) (sch k) (jt_prev t) (filter (fun c => negb (is_nop c)) calls)
                     (allow || exporter_allow) = Ok (jt_next t)).
Proof. exact parse_joint_plan_trajectory. Qed.

(* a refused (or otherwise failing) joint action aborts the export with its error: no 'unchanged state' fallback here *)
Theorem C16_export_aborts : forall d eps exporter_allow objs sch allow init l1 line l2 ts1 k,
  parse_joint_plan d eps exporter_allow objs sch allow init l1 = Ok ts1 ->
  create_multi_agent_triplet d eps exporter_allow objs (sch (List.length l1)) allow
    (end_state _ _ jt_next {| ms_init := true; ms_st := init |} ts1) line = Err k ->
  parse_joint_plan d eps exporter_allow objs sch allow init (l1 ++ line :: l2) = Err k.
Proof. exact parse_joint_plan_fails_at. Qed.

Theorem C16_export_text : forall ts items,
  export_joint ts = Ok items ->
  List.length items = S (2 * List.length ts) /\
  (forall t, hd_error ts = Some t -> hd_error items = Some (XState (jt_prev t))) /\
  (forall k t, nth_error ts k = Some t ->
     nth_error items (S (2 * k)) = Some (XOp (jt_ops t)) /\ nth_error items (S (S (2 * k))) = Some (XState (jt_next t))).
Proof. exact export_joint_shape. Qed.

(* ---------- sequences of calls: flags, refusal at the exporter, the initial-state flag ---------- *)
(* the state a joint action returns is never flagged as the initial state - no member, one, several, allowed or not *)
Theorem C16_result_not_init : forall d eps objs sch cur calls allow s,
  apply_actions d eps objs sch cur calls allow = Ok s -> ms_init s = false.
Proof. exact apply_actions_not_init. Qed.

(* ... so exactly the first state of an exported joint trajectory is '(:init' (also when nobody acts in the first step) *)
Theorem C16_export_init_once : forall d eps objs sch exporter_allow allow init lines ts,
  parse_joint_plan d eps exporter_allow objs sch allow init lines = Ok ts ->
  forall k t, nth_error ts k = Some t ->
    ms_init (jt_next t) = false /\ (ms_init (jt_prev t) = true <-> k = 0).
Proof. exact parse_joint_plan_init_once. Qed.

(* the exporter's own switch and the switch of parse_plan act as ONE disjunction, decided per call: a plan parsed with
   (exporter_allow, allow) is the plan parsed by an exporter built with their disjunction and no per-call switch *)
Theorem C16_flags_disjunction : forall d eps objs sch exporter_allow allow init lines,
  parse_joint_plan d eps exporter_allow objs sch allow init lines =
  parse_joint_plan d eps (allow || exporter_allow) objs sch false init lines.
Proof. exact flags_are_a_disjunction. Qed.

(* refusal at the exporter: no switch set, the lines [l1] exported, the next line's joint action has a member [c] that
   is inapplicable in the state they led to, at whatever position ([before]: the applicable members in front of it):
   parse_plan raises ValueError - whatever lines follow *)
Theorem C16_export_refuses : forall d eps objs sch init l1 line l2 ts1 calls txts before c after s1,
  parse_joint_plan d eps false objs sch false init l1 = Ok ts1 ->
  let cur := end_state _ _ jt_next {| ms_init := true; ms_st := init |} ts1 in
  parse_joint_call line = Ok calls -> mapM (member_text d) calls = Ok txts ->
  filter (fun c => negb (is_nop c)) calls = before ++ c :: after ->
  Forall (fun c => call_applicable d eps (Some objs) c (ms_st cur) = Ok true) before ->
  seq_members d eps (Some objs) (sch (List.length l1)) (ms_st cur) (number_from 0 before) = Ok s1 ->
  call_applicable d eps (Some objs) c (ms_st cur) = Ok false ->
  parse_joint_plan d eps false objs sch false init (l1 ++ line :: l2) = Err EValue.
Proof. exact parse_joint_plan_refuses. Qed.

(* its hypotheses hold for the plan ["[(nop ),(nop )]"; "[(move r1 l1 l2), (move r2 l3 l1)]"] on the robots below: refused
   without a switch, exported with either; and a valid two-line plan is exported as two steps *)
Theorem C16_export_refuses_example :
  (exists ts, jq_plan false false jq_good = Ok ts /\ List.length ts = 2) /\
  (exists ts1 s1,
     jq_plan false false [jq_idle] = Ok ts1 /\
     let cur := end_state _ _ jt_next {| ms_init := true; ms_st := jx_state |} ts1 in
     ms_init cur = false /\
     parse_joint_call jq_bad_line = Ok [mv "r1" "l1" "l2"; mv "r2" "l3" "l1"] /\
     is_ok (mapM (member_text jx_dom) [mv "r1" "l1" "l2"; mv "r2" "l3" "l1"]) = true /\
     Forall (fun c => call_applicable jx_dom jx_eps (Some jx_objs) c (ms_st cur) = Ok true) [mv "r1" "l1" "l2"] /\
     seq_members jx_dom jx_eps (Some jx_objs) id_schedule (ms_st cur) (number_from 0 [mv "r1" "l1" "l2"]) = Ok s1 /\
     call_applicable jx_dom jx_eps (Some jx_objs) (mv "r2" "l3" "l1") (ms_st cur) = Ok false) /\
  jq_plan false false [jq_idle; jq_bad_line] = Err EValue /\
  is_ok (jq_plan false true [jq_idle; jq_bad_line]) = true /\
  is_ok (jq_plan true false [jq_idle; jq_bad_line]) = true.
Proof. exact jq_example. Qed.

(* ---------- the hypotheses are satisfiable; non-interference is needed ---------- *)
(* [(move r1 l1 l2), (nop ), (move r2 l3 l4)]: non-interfering, all applicable; the joint action, the joint action of a
   permutation with the nop elsewhere, and the spec's sequential composition in both orders are the same state *)
Theorem C16_example :
  pairwise_non_interfering jx_tt jx_objs [m1; m2] = true /\
  forallb (m_applicable jx_tt jx_objs jx_eps jx_state) [m1; m2] = true /\
  let r := apply_actions jx_dom jx_eps (Some jx_objs) id_schedule jx_cur [mv "r1" "l1" "l2"; nop; mv "r2" "l3" "l4"] false in
  let r' := apply_actions jx_dom jx_eps (Some jx_objs) id_schedule jx_cur [mv "r2" "l3" "l4"; mv "r1" "l1" "l2"; nop] false in
  is_ok r = true /\ is_ok r' = true /\
  same_state (result_state r) (result_state r') = true /\
  same_state (result_state r) (seq_apply jx_tt jx_objs jx_eps jx_state [m1; m2]) = true /\
  same_state (result_state r) (seq_apply jx_tt jx_objs jx_eps jx_state [m2; m1]) = true.
Proof. exact jx_example_lemma. Qed.

Theorem C16_example_refused :
  apply_actions jx_dom jx_eps (Some jx_objs) id_schedule jx_cur [mv "r1" "l1" "l2"; nop; mv "r2" "l3" "l1"] false = Err EValue /\
  apply_actions jx_dom jx_eps (Some jx_objs) id_schedule jx_cur [mv "r2" "l3" "l1"; mv "r1" "l1" "l2"] false = Err EValue /\
  is_ok (apply_actions jx_dom jx_eps (Some jx_objs) id_schedule jx_cur [mv "r1" "l1" "l2"; mv "r2" "l3" "l1"] true) = true.
Proof. exact jx_refused. Qed.

(* without non-interference the statement fails: members applicable each, but one disables the other; and an add/delete
   conflict makes the two orders differ *)
Theorem C16_interference_matters :
  forallb (m_applicable jx_tt jx_objs jx_eps jx_state) [m1; m3] = true /\
  non_interfering jx_tt jx_objs m1 m3 = false /\
  m_applicable jx_tt jx_objs jx_eps (m_step jx_tt jx_objs jx_eps jx_state m1) m3 = false /\
  non_interfering jx_tt jx_objs m1 m4 = false /\
  same_state (seq_apply jx_tt jx_objs jx_eps jx_state [m1; m4]) (seq_apply jx_tt jx_objs jx_eps jx_state [m4; m1]) = false.
Proof. exact jx_interfering. Qed.

(* the object table must reach joint execution (finding D63, repaired in /repo): the same model run WITHOUT the table -
   the code before the repair - skips the forall effect of a member and executes a member whose forall precondition is
   false; with the table the first is the PDDL successor and the second is refused *)
Theorem C16_before_D63_refuted :
  m_applicable dx_tt dx_objs jx_eps dx_state (dx_lock, ["l1"]) = true /\
  m_applicable dx_tt dx_objs jx_eps dx_state (dx_alarm, ["l1"]) = false /\
  same_state (result_state (apply_actions dx_dom jx_eps (Some dx_objs) id_schedule dx_cur [lock_l1] false))
             (seq_apply dx_tt dx_objs jx_eps dx_state [(dx_lock, ["l1"])]) = true /\
  apply_actions dx_dom jx_eps (Some dx_objs) id_schedule dx_cur [alarm_l1] false = Err EValue /\
  is_ok (apply_actions dx_dom jx_eps None id_schedule dx_cur [lock_l1] false) = true /\
  same_state (result_state (apply_actions dx_dom jx_eps None id_schedule dx_cur [lock_l1] false))
             (seq_apply dx_tt dx_objs jx_eps dx_state [(dx_lock, ["l1"])]) = false /\
  is_ok (apply_actions dx_dom jx_eps None id_schedule dx_cur [alarm_l1] false) = true.
Proof. exact dx_object_table_needed. Qed.

Print Assumptions C16_commute.
Print Assumptions C16_before_D63_refuted.
Print Assumptions C16_any_order.
Print Assumptions C16_stays_applicable.
Print Assumptions C16_nops.
Print Assumptions C16_sequential.
Print Assumptions C16_allowed.
Print Assumptions C16_refuse.
Print Assumptions C16_joint.
Print Assumptions C16_link.
Print Assumptions C16_line_groups.
Print Assumptions C16_line_reading.
Print Assumptions C16_line_example.
Print Assumptions C16_export.
Print Assumptions C16_export_aborts.
Print Assumptions C16_export_text.
Print Assumptions C16_result_not_init.
Print Assumptions C16_export_init_once.
Print Assumptions C16_flags_disjunction.
Print Assumptions C16_export_refuses.
Print Assumptions C16_export_refuses_example.
Print Assumptions C16_example.
Print Assumptions C16_example_refused.
Print Assumptions C16_interference_matters.
