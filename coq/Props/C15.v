(* Property C15 — sequential -> joint plan conversion keeps actions, agent order and outcome.
   Statements only; proofs live in Proofs/C15_*.v.  Model: Model/PlanConverter.v; spec: Spec/JointPlan.v. *)
From Coq Require Import List Ascii String Bool Arith PrimFloat.
From Verif Require Import Base.Result Base.Str Base.Sexp Base.Float Model.Tokenizer Model.Domain Model.Exec
  Spec.Pddl Spec.Grammar Spec.JointPlan Model.PlanConverter
  Proofs.C15_Loop Proofs.C15_Views Proofs.C15_Effect Proofs.C15_Sound Proofs.C15_Scan Proofs.C15_Oracle Proofs.C15_Total
  Proofs.C15_Main Proofs.C15_Findings.
Import ListNotations.
Open Scope string_scope.
Open Scope list_scope.

(* C15_structure (unconditional: any domain, any initial state, any plan text, any agent list, both settings of the
   flag): whenever the converter returns, its joint actions are a structurally faithful regrouping of the actions
   the scanner extracted — one slot per agent in the given agent order, a slot holding nop or an action of that
   agent; at most one action per agent per step; for every agent the actions read step by step are the agent's
   actions of the plan in the original order; every action exactly once; no all-nop step.
   Hypothesis: no extracted action is literally named "nop" (the reserved name; see C15_nop_is_reserved). *)
Theorem C15_structure : forall dom eps agents flag test init t pa js,
  extract_plan_actions agents t = Ok pa -> no_nop_action pa ->
  convert_plan dom eps agents flag test init t = Ok js ->
  structure_ok agents (map fst pa) js.
Proof. exact convert_structure_lemma. Qed.

(* the same for the packing loop with ANY state type, ANY further checks and ANY apply function *)
Theorem C15_structure_loop : forall St agents checks applyj cur (plan : list (call * string)) js,
  Forall (wf_pcall agents) plan ->
  create_joint_actions St agents checks applyj cur plan = Ok js ->
  structure_ok agents (map fst plan) js.
Proof. intros St agents checks applyj cur plan js. apply outer_structure. Qed.

(* the loop terminates with fuel = plan length: more fuel never changes the result, and the loop's own fuel test
   is never the reason of an error *)
Theorem C15_fuel_suffices : forall St agents checks applyj extra cur (plan : list (call * string)),
  outer St agents checks applyj (List.length plan + extra) cur plan =
  create_joint_actions St agents checks applyj cur plan.
Proof. intros. apply fuel_suffices. Qed.

Theorem C15_fuel_never_exhausted : forall St agents checks applyj cur (plan : list (call * string)),
  (forall s j c, checks s j c <> Err EFuel) -> (forall s l, applyj s l <> Err EFuel) ->
  create_joint_actions St agents checks applyj cur plan <> Err EFuel.
Proof. intros St agents checks applyj cur plan Hc Ha. apply outer_no_fuel; [exact Hc|exact Ha|apply le_n]. Qed.

(* a quirk of the code, stated: next_action is read once before the inner loop, so no step holds more than two actions *)
Theorem C15_step_sizes : forall dom eps agents flag test init t pa js,
  extract_plan_actions agents t = Ok pa -> no_nop_action pa ->
  convert_plan dom eps agents flag test init t = Ok js ->
  Forall (fun j => 1 <= List.length (members j) <= 2) js.
Proof. exact convert_step_sizes_lemma. Qed.

(* the hypothesis of C15_structure is needed: an action literally named "nop" is overwritten in its slot *)
Theorem C15_nop_is_reserved :
  create_joint_actions unit ["a1"] toy_checks toy_apply tt [(("nop", ["a1"]), "a1"); (("move", ["a1"]), "a1")]
  = Ok [[("move", ["a1"])]].
Proof. exact nop_named_action_is_lost. Qed.

(* ---------------------------------------------------------------------------------------------------------
   Soundness.  FULL STATEMENT (the property): for every domain text read by the model's parser and by the spec's
   grammar reading, every initial state, plan text, agent list and flag: whenever the converter returns, the result
   is a sound regrouping — if the extracted plan is valid under the spec interpreter, every step of the joint plan is a
   joint action of members that are applicable in the step's pre-state and pairwise NON-INTERFERING, and the joint
   run ends in the state of the sequential run. *)
Definition C15_sound_statement : Prop :=
  forall (domain_text : string) (nums : string -> option float) (eps : float) (tt : tytree) (objs : objects)
         (init : state) (agents : list string) (flag : bool) (t : text),
  match parse MFile (s2t domain_text) with
  | Ok e =>
      match parse_domain nums e, read_domain nums e with
      | Ok d, Some sd =>
          forall pa js,
            extract_plan_actions agents t = Ok pa -> no_nop_action pa ->
            convert_plan d eps agents flag insertion_ok init t = Ok js ->
            sound_regrouping float_beq {| jw_eps := eps; jw_tt := tt; jw_objs := objs; jw_actions := sd_actions sd |}
                             init (map fst pa) js
      | _, _ => True
      end
  | Err _ => True
  end.

(* REFUTED on the current code (finding D70, open): the converter never collects what a precondition reads, so it
   groups (needz a2 t1) with (delz a3), which deletes the (z) that needz requires. *)
Theorem C15_sound_refuted : ~ C15_sound_statement.
Proof. exact sound_statement_refuted. Qed.

(* PARTIAL (everything but "no precondition is touched"): for every domain, initial state, plan text, agent list and
   flag — if the extracted plan is valid for the library's executor and the preconditions of its actions evaluate in
   every state (no division by a fluent), then executing the converter's joint plan with the library's apply_actions
   succeeds, every member of every step is applicable in the pre-state of its step, and the final state is the one of
   the sequential execution, as a set of facts and a map of fluents.  Unbounded: induction on the greedy loop;
   two members commute because the (repaired) test keeps apart actions one of which adds what the other deletes,
   writes what the other writes, or changes what the other's effects read. *)
Theorem C15_outcome : forall dom eps agents flag init t pa js fin,
  extract_plan_actions agents t = Ok pa -> no_nop_action pa ->
  Forall (fun p => pre_total dom eps (fst p)) pa ->
  run_sequential dom eps init (map fst pa) = Ok fin ->
  convert_plan dom eps agents flag insertion_ok init t = Ok js ->
  exists fin', run_joint dom eps init js = Ok fin' /\ seqv fin' fin /\ steps_applicable dom eps init js.
Proof. exact convert_outcome_lemma. Qed.

(* the lemma about the test itself: what insertion_ok establishes between a member already in the joint action and the
   action to insert (the collected sets of the member are part of the accumulated sets) *)
Theorem C15_test_implies_compat : forall acc Sa Sb,
  sets_incl Sa acc -> insertion_ok acc Sb = true -> compat Sa Sb.
Proof. exact insertion_ok_compat. Qed.

(* the hypotheses of C15_outcome are satisfiable, and the example (3 agents, 6 actions, one forced
   sequentialisation) is converted as expected and is a sound regrouping under the spec interpreter *)
Theorem C15_example :
  extract_plan_actions agents_ex plan_ex <> Err EFuel /\
  Forall (fun c => pre_total mdom Proofs.C15_Findings.eps c) calls_ex /\
  (exists fin, run_sequential mdom Proofs.C15_Findings.eps Proofs.C15_Findings.init calls_ex = Ok fin) /\
  convert_plan mdom Proofs.C15_Findings.eps agents_ex true insertion_ok Proofs.C15_Findings.init plan_ex = Ok js_ex /\
  sound_regrouping float_beq w Proofs.C15_Findings.init calls_ex js_ex.
Proof.
  split; [rewrite ex_extracted; discriminate|].
  split; [exact ex_pre_total|]. split; [exact ex_sequential_valid|]. split; [exact ex_converted|exact ex_sound].
Qed.

(* before the repairs D25 and D71 the outcome itself was wrong: the test of that code let through a joint plan that
   ends in another state than the sequential plan *)
Theorem C15_before_D25_refuted :
  exists js, convert_plan mdom Proofs.C15_Findings.eps agents25 true insertion_ok_before Proofs.C15_Findings.init plan25 = Ok js /\
  match run_sequential mdom Proofs.C15_Findings.eps Proofs.C15_Findings.init calls25, run_joint mdom Proofs.C15_Findings.eps Proofs.C15_Findings.init js with
  | Ok a, Ok b => atom_in ("z", []) (facts a) && negb (atom_in ("z", []) (facts b))
  | _, _ => false
  end = true.
Proof. eexists. split; [exact w25_before|exact w25_before_other_state]. Qed.

Theorem C15_before_D71_refuted :
  exists js, convert_plan mdom Proofs.C15_Findings.eps agents71 true insertion_ok_before Proofs.C15_Findings.init plan71 = Ok js /\
  match run_sequential mdom Proofs.C15_Findings.eps Proofs.C15_Findings.init calls71, run_joint mdom Proofs.C15_Findings.eps Proofs.C15_Findings.init js with
  | Ok a, Ok b => fluent_is a ("f", ["a1"]) 1%float && fluent_is b ("f", ["a1"]) 5%float
  | _, _ => false
  end = true.
Proof. eexists. split; [exact w71_before|exact w71_before_other_state]. Qed.

(* ---------------------------------------------------------------------------------------------------------
   The plan FILE.  On every text of the plan-file grammar of Spec/JointPlan.v — actions "(name arg ... arg)" with any
   white space between and around the tokens, ANY text without '(' between the actions (step numbers, time stamps,
   line breaks) — the scanner returns exactly the actions, in order, lower-cased, each with the first argument that
   names an agent as its executing agent (IndexError when there is none). *)
Theorem C15_scan : forall agents ls final,
  Forall plan_line_ok ls -> Forall (fun c => c <> LP) final ->
  extract_plan_actions agents (render_plan ls final) = mapM (expected_pcall agents) ls.
Proof. exact extract_render. Qed.

(* ... hence, from the file to the joint actions: the regrouping is structurally faithful to the actions WRITTEN IN THE FILE *)
Theorem C15_structure_of_file : forall dom eps agents flag test init ls final js,
  Forall plan_line_ok ls -> Forall (fun c => c <> LP) final ->
  Forall (fun l => is_nop (line_call l) = false) ls ->
  convert_plan dom eps agents flag test init (render_plan ls final) = Ok js ->
  structure_ok agents (map line_call ls) js.
Proof. exact convert_file_structure_lemma. Qed.

(* the decidable structure check that the correspondence uses as its oracle implies the spec *)
Theorem C15_oracle_sound : forall agents plan js, structure_okb agents plan js = true -> structure_ok agents plan js.
Proof. exact structure_okb_sound. Qed.

(* a syntactic sufficient condition for the hypothesis pre_total of C15_outcome: comparisons well formed, division only
   by a non-zero numeral *)
Theorem C15_pre_total_of_safe : forall dom eps c,
  (forall ga, mk_op dom c = Ok ga -> gpre_safe (ga_pre ga) = true) -> pre_total dom eps c.
Proof. exact pre_total_of_safe. Qed.

Print Assumptions C15_structure.
Print Assumptions C15_structure_loop.
Print Assumptions C15_fuel_suffices.
Print Assumptions C15_fuel_never_exhausted.
Print Assumptions C15_step_sizes.
Print Assumptions C15_nop_is_reserved.
Print Assumptions C15_sound_refuted.
Print Assumptions C15_outcome.
Print Assumptions C15_test_implies_compat.
Print Assumptions C15_example.
Print Assumptions C15_before_D25_refuted.
Print Assumptions C15_before_D71_refuted.
Print Assumptions C15_scan.
Print Assumptions C15_structure_of_file.
Print Assumptions C15_oracle_sound.
Print Assumptions C15_pre_total_of_safe.
