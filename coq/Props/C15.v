(* Property C15 — sequential -> joint plan conversion keeps actions, agent order and outcome.
   Statements only; proofs live in Proofs/C15_*.v.  Model: Model/PlanConverter.v; spec: Spec/JointPlan.v. *)
From Coq Require Import List Ascii String Bool Arith PrimFloat.
From Verif Require Import Base.Result Base.Str Model.Domain Model.Exec Spec.Pddl Spec.JointPlan Model.PlanConverter
  Proofs.C15_Loop Proofs.C15_Main.
Import ListNotations.
Open Scope string_scope.
Open Scope list_scope.

(* C15_structure (unconditional: any domain, any initial state, any plan text, any agent list, both settings of the
   flag): whenever the converter returns, its joint actions are a structurally faithful regrouping of the actions
   the scanner extracted — one slot per agent in the given agent order, a slot holding nop or an action of that
   agent; at most one action per agent per step; for every agent the actions read step by step are the agent's
   actions of the plan in the original order; every action exactly once; no all-nop step.
   Hypothesis: no extracted action is literally named "nop" (the reserved name; see C15_nop_is_reserved). *)
Theorem C15_structure : forall dom eps agents flag test init t pa js,
  extract_plan_actions agents t = Ok pa -> no_nop_action pa ->
  convert_plan dom eps agents flag test init t = Ok js ->
  structure_ok agents (map fst pa) js.
Proof. exact convert_structure_lemma. Qed.

(* the same for the packing loop with ANY state type, ANY further checks and ANY apply function *)
Theorem C15_structure_loop : forall St agents checks applyj cur (plan : list (call * string)) js,
  Forall (wf_pcall agents) plan ->
  create_joint_actions St agents checks applyj cur plan = Ok js ->
  structure_ok agents (map fst plan) js.
Proof. intros St agents checks applyj cur plan js. apply outer_structure. Qed.

(* the loop terminates with fuel = plan length: more fuel never changes the result, and the loop's own fuel test
   is never the reason of an error *)
Theorem C15_fuel_suffices : forall St agents checks applyj extra cur (plan : list (call * string)),
  outer St agents checks applyj (List.length plan + extra) cur plan =
  create_joint_actions St agents checks applyj cur plan.
Proof. intros. apply fuel_suffices. Qed.

Theorem C15_fuel_never_exhausted : forall St agents checks applyj cur (plan : list (call * string)),
  (forall s j c, checks s j c <> Err EFuel) -> (forall s l, applyj s l <> Err EFuel) ->
  create_joint_actions St agents checks applyj cur plan <> Err EFuel.
Proof. intros St agents checks applyj cur plan Hc Ha. apply outer_no_fuel; [exact Hc|exact Ha|apply le_n]. Qed.

(* a quirk of the code, stated: next_action is read once before the inner loop, so no step holds more than two actions *)
Theorem C15_step_sizes : forall dom eps agents flag test init t pa js,
  extract_plan_actions agents t = Ok pa -> no_nop_action pa ->
  convert_plan dom eps agents flag test init t = Ok js ->
  Forall (fun j => 1 <= List.length (members j) <= 2) js.
Proof. exact convert_step_sizes_lemma. Qed.

(* the hypothesis of C15_structure is needed: an action literally named "nop" is overwritten in its slot *)
Theorem C15_nop_is_reserved :
  create_joint_actions unit ["a1"] toy_checks toy_apply tt [(("nop", ["a1"]), "a1"); (("move", ["a1"]), "a1")]
  = Ok [[("move", ["a1"])]].
Proof. exact nop_named_action_is_lost. Qed.

Print Assumptions C15_structure.
Print Assumptions C15_structure_loop.
Print Assumptions C15_fuel_suffices.
Print Assumptions C15_fuel_never_exhausted.
Print Assumptions C15_step_sizes.
Print Assumptions C15_nop_is_reserved.
