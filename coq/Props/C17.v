(* Property C17 — combining agent domains/problems yields their union and disturbs nothing else.
   Statements only; proofs live in Proofs/C17_*.v.

   The model (Model/Combine.v) takes the per-agent files as vocabulary dumps, in discovery order.
   Full statement:
     - C17_union_domains / C17_union_problems: for files that agree on shared names the combination is
       exactly the union of the sections, each name / fact / goal once;
     - C17_union_domains_weak: without agreement the names are still the union, each once, and every entry
       is some file's entry (which one: the last file's; C17_order_needs_agreement shows the hypothesis of
       the order theorem cannot be dropped);
     - C17_dummy: the dummy actions add exactly three entries;
     - C17_order_domains / C17_order_problems: any permutation of the files gives an equivalent combination;
     - C17_no_leak / C17_fresh_after / C17_store_refines: in the store model of DEFAULT_TYPES nothing that
       existed before the call is written, a later Domain() starts as before (holds of the repaired
       initialiser `dict(DEFAULT_TYPES)`; C17_leak_when_aliased: fails of the pinned `self.types =
       DEFAULT_TYPES`, deviation D18).
   "Exporting and re-parsing preserves the combination" is C08/C09's theorem; for C17 it is checked on
   every case of the correspondence run (export, re-parse, compare the maps). *)
From Coq Require Import List String Permutation.
From Verif Require Import Base.Result Base.Str Model.Combine Spec.Combine
  Proofs.C17_Dict Proofs.C17_Domains Proofs.C17_Problems Proofs.C17_Store Proofs.C17_Checkers.
Import ListNotations.
Open Scope string_scope.

(* ---------------------------------------------------------------- union *)
Theorem C17_union_domains : forall (defaults : alist) (files : list domainv),
  NoDup (keys defaults) -> sections_agree defaults files ->
  domain_is_union defaults files (combine_domains defaults files).
Proof. exact C17_union_domains_lemma. Qed.

Theorem C17_union_domains_weak : forall (defaults : alist) (files : list domainv),
  NoDup (keys defaults) ->
  domain_is_weak_union defaults files (combine_domains defaults files).
Proof. exact C17_union_domains_weak_lemma. Qed.

Theorem C17_dummy : forall (defaults : alist) (files : list domainv) (c' : domainv),
  locate_domains defaults true files = Ok c' ->
  with_dummy (combine_domains defaults files) c'.
Proof. exact C17_dummy_lemma. Qed.

Theorem C17_dummy_total : forall (defaults : alist) (files : list domainv),
  NoDup (keys defaults) -> In "object" (keys defaults) ->
  exists c', locate_domains defaults true files = Ok c'.
Proof. exact C17_dummy_total_lemma. Qed.

Theorem C17_union_problems : forall files : list problemv,
  problem_files_ok files -> problem_is_union files (combine_problems files).
Proof. exact C17_union_problems_lemma. Qed.

Theorem C17_goals_once : forall files : list problemv,
  NoDup (p_goals (combine_problems files)) /\ NoDup (p_ngoals (combine_problems files)).
Proof. exact C17_goals_once_lemma. Qed.

(* ---------------------------------------------------------------- order *)
Theorem C17_order_domains : forall (defaults : alist) (files files' : list domainv),
  NoDup (keys defaults) -> sections_agree defaults files -> same_name files ->
  Permutation files files' ->
  domain_equiv (combine_domains defaults files) (combine_domains defaults files').
Proof. exact C17_order_domains_lemma. Qed.

Theorem C17_order_problems : forall files files' : list problemv,
  problem_files_ok files -> same_pname files -> Permutation files files' ->
  problem_equiv (combine_problems files) (combine_problems files').
Proof. exact C17_order_problems_lemma. Qed.

Theorem C17_order_needs_agreement :
  exists defaults f g,
    NoDup (keys defaults) /\ same_name [f; g] /\
    ~ domain_equiv (combine_domains defaults [f; g]) (combine_domains defaults [g; f]).
Proof. exact C17_order_needs_agreement_lemma. Qed.

(* ---------------------------------------------------------------- nothing else is disturbed *)
Theorem C17_no_leak : forall (files : list domainv) (h : heap) (l : nat),
  l < List.length h ->
  hget (fst (locate_types_store code_init files h)) l = hget h l.
Proof. exact C17_no_leak_lemma. Qed.

Theorem C17_fresh_after : forall (files : list domainv) (h : heap),
  0 < List.length h ->
  fresh_domain_types code_init (fst (locate_types_store code_init files h)) = hget h 0.
Proof. exact C17_fresh_after_lemma. Qed.

Theorem C17_store_refines : forall (files : list domainv) (h : heap),
  0 < List.length h ->
  let r := locate_types_store code_init files h in
  hget (fst r) (snd r) = d_types (combine_domains (hget h 0) files).
Proof. exact C17_store_refines_lemma. Qed.

Theorem C17_leak_when_aliased :
  exists files h,
    hget h 0 = [("object", "")] /\
    fresh_domain_types InitAlias (fst (locate_types_store InitAlias files h)) <> hget h 0.
Proof. exact C17_leak_when_aliased_lemma. Qed.

(* ---------------------------------------------------------------- the checkers of the correspondence run are sound *)
Theorem C17_union_checker_sound : forall (ds : list alist) (c : alist),
  union_of_b ds c = true -> union_of ds c.
Proof. exact union_of_b_sound. Qed.

Theorem C17_weak_union_checker_sound : forall (ds : list alist) (c : alist),
  weak_union_of_b ds c = true -> weak_union_of ds c.
Proof. exact weak_union_of_b_sound. Qed.

Theorem C17_set_union_checker_sound : forall (ls : list (list string)) (c : list string),
  set_union_of_b ls c = true -> set_union_of ls c.
Proof. exact set_union_of_b_sound. Qed.

(* ---------------------------------------------------------------- hypotheses are satisfiable *)
Theorem C17_example_domains :
  NoDup (keys ex_defaults) /\ sections_agree ex_defaults [ex_a; ex_b] /\ same_name [ex_a; ex_b] /\
  List.length (d_types (combine_domains ex_defaults [ex_a; ex_b])) = 5.
Proof. exact (conj ex_nodup (conj ex_agree (conj ex_same_name (proj2 (proj2 (proj2 (proj2 ex_overlap_and_private))))))). Qed.

Theorem C17_example_problems :
  problem_files_ok [ex_pa; ex_pb] /\ same_pname [ex_pa; ex_pb] /\
  p_ngoals (combine_problems [ex_pa; ex_pb]) = ["(>= (fuel t1) 2)"; "(>= (dist l1 l2) 2)"].
Proof. exact (conj ex_problem_files_ok (conj ex_same_pname (proj1 (proj2 (proj2 ex_problem_shape))))). Qed.

Print Assumptions C17_union_domains.
Print Assumptions C17_union_domains_weak.
Print Assumptions C17_dummy.
Print Assumptions C17_dummy_total.
Print Assumptions C17_union_problems.
Print Assumptions C17_goals_once.
Print Assumptions C17_order_domains.
Print Assumptions C17_order_problems.
Print Assumptions C17_order_needs_agreement.
Print Assumptions C17_no_leak.
Print Assumptions C17_fresh_after.
Print Assumptions C17_store_refines.
Print Assumptions C17_leak_when_aliased.
Print Assumptions C17_union_checker_sound.
Print Assumptions C17_weak_union_checker_sound.
Print Assumptions C17_set_union_checker_sound.
Print Assumptions C17_example_domains.
Print Assumptions C17_example_problems.
