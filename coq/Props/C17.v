(* Property C17 — combining agent domains/problems yields their union and disturbs nothing else.
   Statements only; proofs live in Proofs/C17_*.v.

   The model (Model/Combine.v) takes the per-agent files as vocabulary dumps, in discovery order.
   Full statement:
     - C17_union_domains / C17_union_problems: for files that agree on shared names the combination is
       exactly the union of types, constants, predicates, functions, actions / objects, facts, fluent
       values, goals, numeric goals -- each name / fact / goal once;
     - C17_union_domains_weak: without agreement the names are still the union, each once, and every entry
       is some file's entry (C17_order_needs_agreement: the hypothesis of the order theorem cannot be dropped);
     - C17_goals_once: goals and numeric goals never occur twice, whatever the files contain
       (C17_ngoals_twice_before_repair: false of the code before the repair of D27);
     - C17_dummy: the dummy actions add exactly three entries;
     - C17_order_domains / C17_order_problems: any permutation of the files gives an equivalent combination
       (same maps / sets in every section the property names);
     - C17_name_reqs_last / C17_pname_last / C17_reqs_follow_order: the domain name, the requirements and
       the problem name are NOT part of the union: they are those of the file found last (the property
       text does not speak about them; recorded so that the reader sees what the order theorem leaves out);
     - C17_no_leak / C17_fresh_after / C17_store_refines: in the store model of DEFAULT_TYPES nothing that
       existed before the call is written, a later Domain() starts as before (holds of the repaired
       initialiser `dict(DEFAULT_TYPES)`; C17_leak_when_aliased: fails of the pinned `self.types =
       DEFAULT_TYPES`, deviation D18).
     - C17_wellformed_domains / C17_wellformed_problems: the combination of well-formed files (every type /
       predicate / function / constant / object an entry names is declared) is well-formed, also without
       agreement; hence C17_roundtrip_domains / C17_roundtrip_problems: RELATIVE to the export/re-parse round
       trip -- for any function that returns an equivalent domain (problem) on well-formed input, the
       combination of well-formed files comes back equivalent.
   "Exporting and re-parsing preserves a domain/problem" itself is C08/C09's theorem (Model/DomainExporter.v and
   Model/ProblemExporter.v belong to those properties and did not exist when this file was written), so the
   round trip enters here as a quantified function with its C08/C09 contract as hypothesis; for C17 the real
   exporters are tied by correspondence: on every case of the run the combination is exported by the
   implementation, re-parsed, and its sections compared.
     - Structured layer (added when Model/DomainExporter.v had appeared): Model/CombineDomains.v combines domains
       parsed by the MODEL's parser (Model/Domain.v).  C17_structured_refines: its rows are the dump-level
       combination of the files' rows, hence C17_structured_union / C17_structured_order; C17_roundtrip_exporter:
       by C08's theorem, whenever the combination satisfies C08's wf_mdomain (evaluated on every structured case
       of the run, Corr/C17s.v) the exporter model's text is read back with the same vocabulary, name and
       requirements.
     - COMPOSED with C08 (round 3, Proofs/C17_Compose.v): the hypothesis about the combination is discharged.
       C17_wellformed_structured: when every agent file satisfies C08's wf_mdomain, the files agree on the parent
       of every shared type and a function declared by two files has the same number of parameters in both, then
       the combination (with or without the dummy actions) satisfies wf_mdomain - nothing is assumed about
       constants, predicates or actions declared by several files (the file found last wins, and what wins is
       well-formed in the combination).  Hence C17_roundtrip: the exporter model's text of the combination is read
       back as rr_domain of the combination (C08_roundtrip), same vocabulary, name, requirements; and
       C17_roundtrip_parsed, from text to text: for agent files that are texts the parser accepts (PDDL section
       order, no empty quantifier, hygienic names: C08_range_domain establishes wf_mdomain), under C08's two
       hypotheses about float().  C17_example_compose: satisfiable by two overlapping files (private block, a
       function declared with different parameter names, numeric conditions, a constant of the root type written
       bare / `- object`, both discovery orders).
       The PROBLEM half stays relative (C17_roundtrip_problems): C09_roundtrip speaks about a problem object that IS
       the parser's result on a text (its proof goes through the text's reading), and the combination of several
       parsed problems is not presented as one; it is tied by correspondence instead: every run exports every
       combination with the real ProblemExporter, parses it back and compares every section inside Coq, and the
       structured problem cases (Corr/C17p.v) run Model/CombineProblems.v (combine_problems on the object model of
       Model/Problem.v), C09's exporter model and the problem parser model against the implementation's combination,
       exported text and re-parsed problem. *)
From Coq Require Import List String Permutation.
From Verif Require Import Base.Result Base.Str Base.PyDict Model.NumExpr Model.Domain Model.DomainExporter Model.CombineDomains
  Proofs.C08_Defs Proofs.C08_Range Proofs.C08_RangeDom Proofs.C08_Main Corr.Core Proofs.C17_Structured Proofs.C17_Compose.
From Verif Require Import Model.Combine Spec.Combine
  Proofs.C17_Dict Proofs.C17_Domains Proofs.C17_Problems Proofs.C17_Store Proofs.C17_Checkers
  Proofs.C17_WellFormed.
Import ListNotations.
Open Scope string_scope.

(* ---------------------------------------------------------------- union *)
Theorem C17_union_domains : forall (defaults : alist) (files : list domainv),
  NoDup (keys defaults) -> sections_agree defaults files ->
  domain_is_union defaults files (combine_domains defaults files).
Proof. exact C17_union_domains_lemma. Qed.

Theorem C17_union_domains_weak : forall (defaults : alist) (files : list domainv),
  NoDup (keys defaults) ->
  domain_is_weak_union defaults files (combine_domains defaults files).
Proof. exact C17_union_domains_weak_lemma. Qed.

Theorem C17_dummy : forall (defaults : alist) (files : list domainv) (c' : domainv),
  locate_domains defaults true files = Ok c' ->
  with_dummy (combine_domains defaults files) c'.
Proof. exact C17_dummy_lemma. Qed.

Theorem C17_dummy_total : forall (defaults : alist) (files : list domainv),
  NoDup (keys defaults) -> In "object" (keys defaults) ->
  exists c', locate_domains defaults true files = Ok c'.
Proof. exact C17_dummy_total_lemma. Qed.

Theorem C17_union_problems : forall files : list problemv,
  problem_files_ok files -> problem_is_union files (combine_problems files).
Proof. exact C17_union_problems_lemma. Qed.

Theorem C17_goals_once : forall files : list problemv,
  NoDup (p_goals (combine_problems files)) /\ NoDup (p_ngoals (combine_problems files)).
Proof. exact C17_goals_once_lemma. Qed.

Theorem C17_ngoals_twice_before_repair :
  exists files, problem_files_ok files /\ ~ NoDup (p_ngoals (combine_problems_identity files)).
Proof. exact C17_ngoals_twice_before_repair_lemma. Qed.

(* ---------------------------------------------------------------- order *)
Theorem C17_order_domains : forall (defaults : alist) (files files' : list domainv),
  NoDup (keys defaults) -> sections_agree defaults files ->
  Permutation files files' ->
  domain_equiv (combine_domains defaults files) (combine_domains defaults files').
Proof. exact C17_order_domains_lemma. Qed.

Theorem C17_order_problems : forall files files' : list problemv,
  problem_files_ok files -> Permutation files files' ->
  problem_equiv (combine_problems files) (combine_problems files').
Proof. exact C17_order_problems_lemma. Qed.

Theorem C17_order_needs_agreement :
  exists defaults f g,
    NoDup (keys defaults) /\
    ~ domain_equiv (combine_domains defaults [f; g]) (combine_domains defaults [g; f]).
Proof. exact C17_order_needs_agreement_lemma. Qed.

(* name and requirements: last file found (outside the property's union) *)
Theorem C17_name_reqs_last : forall (defaults : alist) (files : list domainv),
  d_name (combine_domains defaults files) = last (map d_name files) None /\
  d_reqs (combine_domains defaults files) = last (map d_reqs files) [].
Proof. exact C17_name_reqs_last_lemma. Qed.

Theorem C17_pname_last : forall files : list problemv,
  p_name (combine_problems files) = last (map p_name files) "".
Proof. exact C17_pname_last_lemma. Qed.

Theorem C17_reqs_follow_order :
  sections_agree ex_defaults [ex_a; ex_b] /\
  d_reqs (combine_domains ex_defaults [ex_a; ex_b]) = [":typing"] /\
  d_reqs (combine_domains ex_defaults [ex_b; ex_a]) = [":typing"; ":numeric-fluents"].
Proof. exact C17_reqs_follow_order_lemma. Qed.

(* ---------------------------------------------------------------- nothing else is disturbed *)
Theorem C17_no_leak : forall (files : list domainv) (h : heap) (l : nat),
  l < List.length h ->
  hget (fst (locate_types_store code_init files h)) l = hget h l.
Proof. exact C17_no_leak_lemma. Qed.

Theorem C17_fresh_after : forall (files : list domainv) (h : heap),
  0 < List.length h ->
  fresh_domain_types code_init (fst (locate_types_store code_init files h)) = hget h 0.
Proof. exact C17_fresh_after_lemma. Qed.

Theorem C17_fresh_only_object : forall (files : list domainv) (h : heap),
  hget h 0 = [("object", "")] -> 0 < List.length h ->
  keys (fresh_domain_types code_init (fst (locate_types_store code_init files h))) = ["object"] /\
  forall l, l < List.length h -> hget (fst (locate_types_store code_init files h)) l = hget h l.
Proof. exact C17_fresh_only_object_lemma. Qed.

Theorem C17_store_refines : forall (files : list domainv) (h : heap),
  0 < List.length h ->
  let r := locate_types_store code_init files h in
  hget (fst r) (snd r) = d_types (combine_domains (hget h 0) files).
Proof. exact C17_store_refines_lemma. Qed.

Theorem C17_leak_when_aliased :
  exists files h,
    hget h 0 = [("object", "")] /\
    fresh_domain_types InitAlias (fst (locate_types_store InitAlias files h)) <> hget h 0.
Proof. exact C17_leak_when_aliased_lemma. Qed.

(* ---------------------------------------------------------------- export / re-parse, relative to C08 / C09 *)
Theorem C17_wellformed_domains :
  forall (refsT refsP refsF refsC : string -> list string) (defaults : alist) (files : list domainv),
  NoDup (keys defaults) -> closed_in refsT defaults defaults ->
  (forall f, In f files -> wf_domain refsT refsP refsF refsC f) ->
  wf_domain refsT refsP refsF refsC (combine_domains defaults files).
Proof. exact C17_wellformed_domains_lemma. Qed.

Theorem C17_wellformed_problems : forall (refsO : string -> list string) (files : list problemv),
  (forall f, In f files -> wf_problem refsO f) -> wf_problem refsO (combine_problems files).
Proof. exact C17_wellformed_problems_lemma. Qed.

Theorem C17_roundtrip_domains :
  forall (refsT refsP refsF refsC : string -> list string) (rt_domain : domainv -> result domainv),
  (forall c, wf_domain refsT refsP refsF refsC c -> exists c', rt_domain c = Ok c' /\ domain_equiv c c') ->
  forall (defaults : alist) (files : list domainv),
  NoDup (keys defaults) -> closed_in refsT defaults defaults ->
  (forall f, In f files -> wf_domain refsT refsP refsF refsC f) ->
  exists c', rt_domain (combine_domains defaults files) = Ok c' /\
             domain_equiv (combine_domains defaults files) c'.
Proof. exact C17_roundtrip_domains_lemma. Qed.

Theorem C17_roundtrip_problems :
  forall (refsO : string -> list string) (rt_problem : problemv -> result problemv),
  (forall c, wf_problem refsO c -> exists c', rt_problem c = Ok c' /\ problem_equiv c c') ->
  forall files : list problemv,
  (forall f, In f files -> wf_problem refsO f) ->
  exists c', rt_problem (combine_problems files) = Ok c' /\ problem_equiv (combine_problems files) c'.
Proof. exact C17_roundtrip_problems_lemma. Qed.

(* hypotheses satisfiable: the example files are well-formed under a concrete reading of the entry texts *)
Theorem C17_example_wellformed :
  closed_in ex_refsT ex_defaults ex_defaults /\
  (forall f, In f [ex_a; ex_b] -> wf_domain ex_refsT ex_refsP ex_refsF ex_refsC f) /\
  (forall f, In f [ex_pa; ex_pb] -> wf_problem ex_refsO f) /\
  ex_refsT "(at ?a - agent ?l - loc)" = ["agent"; "loc"].
Proof. exact (conj (proj1 ex_wf_domains) (conj (proj2 ex_wf_domains) (conj ex_wf_problems (proj1 ex_refs_nontrivial)))). Qed.

(* ---------------------------------------------------------------- the structured layer: parsed domains, C08's exporter *)
Theorem C17_structured_refines : forall files : list mdomain,
  same_sections (rows_of (combine_mdomains files)) (combine_domains [] (map rows_of files)).
Proof. exact C17_structured_refines_lemma. Qed.

Theorem C17_structured_union : forall files : list mdomain,
  sections_agree [] (map rows_of files) ->
  domain_is_union [] (map rows_of files) (rows_of (combine_mdomains files)).
Proof. exact C17_structured_union_lemma. Qed.

Theorem C17_structured_order : forall files files' : list mdomain,
  sections_agree [] (map rows_of files) -> Permutation files files' ->
  domain_equiv (rows_of (combine_mdomains files)) (rows_of (combine_mdomains files')).
Proof. exact C17_structured_order_lemma. Qed.

Theorem C17_roundtrip_exporter : forall (num : numparser) (dpre deff : nat) (dummy : bool) (files : list mdomain),
  wf_mdomain num dpre deff (locate_mdomains dummy files) = true ->
  exists m', parse_domain num (export_domain dpre deff (locate_mdomains dummy files)) = Ok m' /\
             model_vocab m' = model_vocab (locate_mdomains dummy files) /\
             Domain.d_name m' = Domain.d_name (locate_mdomains dummy files) /\
             Domain.d_reqs m' = Domain.d_reqs (locate_mdomains dummy files).
Proof. exact C17_roundtrip_exporter_lemma. Qed.

(* hypotheses satisfiable: two agent files (overlapping, :private block, differing requirements) parsed by the model;
   their rows agree, the combination has 4 types and 3 predicates and satisfies wf_mdomain with and without dummies *)
Theorem C17_example_structured :
  exists fa fb,
    exs_files = Ok [fa; fb] /\
    sections_agree [] (map rows_of [fa; fb]) /\
    List.length (Domain.d_types (combine_mdomains [fa; fb])) = 4 /\
    dkeys (Domain.d_preds (combine_mdomains [fa; fb])) = ["at"; "free"; "sky"] /\
    wf_mdomain exs_num 2 4 (locate_mdomains true [fa; fb]) = true /\
    wf_mdomain exs_num 2 4 (locate_mdomains false [fb; fa]) = true.
Proof. exact exs_structured. Qed.

(* ---------------------------------------------------------------- composed with C08: nothing assumed of the combination *)
Theorem C17_wellformed_structured : forall (num : numparser) (dpre deff : nat) (dummy : bool) (files : list mdomain),
  (forall f, In f files -> wf_mdomain num dpre deff f = true) ->
  agree (map Domain.d_types files) -> same_arity (map Domain.d_funcs files) ->
  wf_mdomain num dpre deff (locate_mdomains dummy files) = true.
Proof. exact C17_wellformed_structured_lemma. Qed.

Theorem C17_roundtrip : forall (num : numparser) (dpre deff : nat) (dummy : bool) (files : list mdomain),
  (forall f, In f files -> wf_mdomain num dpre deff f = true) ->
  agree (map Domain.d_types files) -> same_arity (map Domain.d_funcs files) ->
  let c := locate_mdomains dummy files in
  parse_domain num (export_domain dpre deff c) = Ok (rr_domain num dpre deff c) /\
  model_vocab (rr_domain num dpre deff c) = model_vocab c /\
  Domain.d_name (rr_domain num dpre deff c) = Domain.d_name c /\
  Domain.d_reqs (rr_domain num dpre deff c) = Domain.d_reqs c.
Proof. exact C17_roundtrip_lemma. Qed.

(* [parsed_agent_file num e m]: e is in PDDL's section order (canonical), has no empty quantifier (no_vac), the model's
   parser returns m for it, and m's names are hygienic (the hypotheses of C08_range_domain) *)
Theorem C17_roundtrip_parsed : forall (num : numparser) (dpre deff : nat),
  (forall d, d = dpre \/ d = deff -> forall s x, num s = Some x -> num_ok num d x = true) ->
  (forall c r x, num (String c r) = Some x -> str_in (String c EmptyString) comparison_ops = false) ->
  forall (dummy : bool) (texts : list Sexp.sexp) (files : list mdomain),
  Forall2 (parsed_agent_file num) texts files ->
  agree (map Domain.d_types files) -> same_arity (map Domain.d_funcs files) ->
  let c := locate_mdomains dummy files in
  wf_mdomain num dpre deff c = true /\
  parse_domain num (export_domain dpre deff c) = Ok (rr_domain num dpre deff c) /\
  model_vocab (rr_domain num dpre deff c) = model_vocab c.
Proof. exact C17_roundtrip_parsed_lemma. Qed.

Theorem C17_rows_types_agree : forall files : list mdomain,
  agree (map (fun m => Combine.d_types (rows_of m)) files) -> agree (map Domain.d_types files).
Proof. exact rows_types_agree. Qed.

Theorem C17_example_compose :
  (forall d, d = 2 \/ d = 4 -> forall s x, ex_num s = Some x -> num_ok ex_num d x = true) /\
  (forall c r x, ex_num (String c r) = Some x -> str_in (String c EmptyString) comparison_ops = false) /\
  Forall2 (parsed_agent_file ex_num) [exc_sexp exc_text_a; exc_sexp exc_text_b] [exc_file exc_text_a; exc_file exc_text_b] /\
  agree (map Domain.d_types [exc_file exc_text_a; exc_file exc_text_b]) /\
  same_arity (map Domain.d_funcs [exc_file exc_text_a; exc_file exc_text_b]) /\
  dget (Domain.d_funcs (exc_file exc_text_a)) "fuel" <> dget (Domain.d_funcs (exc_file exc_text_b)) "fuel" /\
  Domain.d_consts (locate_mdomains true [exc_file exc_text_a; exc_file exc_text_b]) = [("hq", "loc"); ("tok", "object")] /\
  Domain.d_consts (locate_mdomains true [exc_file exc_text_b; exc_file exc_text_a]) = [("tok", "object"); ("hq", "loc")] /\
  dkeys (Domain.d_actions (locate_mdomains true [exc_file exc_text_a; exc_file exc_text_b])) =
    ["move"; "fly"; M_DUMMY_ADD; M_DUMMY_DEL].
Proof. exact (conj ex_num_closed (conj ex_num_cmp exc_compose)). Qed.

(* ---------------------------------------------------------------- the four parts of the property under their short names *)
Theorem C17_union :
  (forall (defaults : alist) (files : list domainv),
     NoDup (keys defaults) -> sections_agree defaults files ->
     domain_is_union defaults files (combine_domains defaults files)) /\
  (forall files : list problemv,
     problem_files_ok files -> problem_is_union files (combine_problems files)).
Proof. exact (conj C17_union_domains_lemma C17_union_problems_lemma). Qed.

Theorem C17_order :
  (forall (defaults : alist) (files files' : list domainv),
     NoDup (keys defaults) -> sections_agree defaults files -> Permutation files files' ->
     domain_equiv (combine_domains defaults files) (combine_domains defaults files')) /\
  (forall files files' : list problemv,
     problem_files_ok files -> Permutation files files' ->
     problem_equiv (combine_problems files) (combine_problems files')).
Proof. exact (conj C17_order_domains_lemma C17_order_problems_lemma). Qed.

(* ---------------------------------------------------------------- the checkers of the correspondence run are sound *)
Theorem C17_union_checker_sound : forall (ds : list alist) (c : alist),
  union_of_b ds c = true -> union_of ds c.
Proof. exact union_of_b_sound. Qed.

Theorem C17_weak_union_checker_sound : forall (ds : list alist) (c : alist),
  weak_union_of_b ds c = true -> weak_union_of ds c.
Proof. exact weak_union_of_b_sound. Qed.

Theorem C17_set_union_checker_sound : forall (ls : list (list string)) (c : list string),
  set_union_of_b ls c = true -> set_union_of ls c.
Proof. exact set_union_of_b_sound. Qed.

(* ---------------------------------------------------------------- hypotheses are satisfiable *)
Theorem C17_example_domains :
  NoDup (keys ex_defaults) /\ sections_agree ex_defaults [ex_a; ex_b] /\
  List.length (d_types (combine_domains ex_defaults [ex_a; ex_b])) = 5.
Proof. exact (conj ex_nodup (conj ex_agree (proj2 (proj2 (proj2 (proj2 ex_overlap_and_private)))))). Qed.

Theorem C17_example_problems :
  problem_files_ok [ex_pa; ex_pb] /\
  p_ngoals (combine_problems [ex_pa; ex_pb]) = ["(>= (fuel t1) 2)"; "(>= (dist l1 l2) 2)"].
Proof. exact (conj ex_problem_files_ok (proj1 (proj2 (proj2 ex_problem_shape)))). Qed.

Print Assumptions C17_union_domains.
Print Assumptions C17_union_domains_weak.
Print Assumptions C17_dummy.
Print Assumptions C17_dummy_total.
Print Assumptions C17_union_problems.
Print Assumptions C17_goals_once.
Print Assumptions C17_ngoals_twice_before_repair.
Print Assumptions C17_name_reqs_last.
Print Assumptions C17_pname_last.
Print Assumptions C17_reqs_follow_order.
Print Assumptions C17_order_domains.
Print Assumptions C17_order_problems.
Print Assumptions C17_order_needs_agreement.
Print Assumptions C17_no_leak.
Print Assumptions C17_fresh_after.
Print Assumptions C17_fresh_only_object.
Print Assumptions C17_store_refines.
Print Assumptions C17_union.
Print Assumptions C17_order.
Print Assumptions C17_leak_when_aliased.
Print Assumptions C17_wellformed_domains.
Print Assumptions C17_wellformed_problems.
Print Assumptions C17_roundtrip_domains.
Print Assumptions C17_roundtrip_problems.
Print Assumptions C17_example_wellformed.
Print Assumptions C17_structured_refines.
Print Assumptions C17_structured_union.
Print Assumptions C17_structured_order.
Print Assumptions C17_roundtrip_exporter.
Print Assumptions C17_example_structured.
Print Assumptions C17_wellformed_structured.
Print Assumptions C17_roundtrip.
Print Assumptions C17_roundtrip_parsed.
Print Assumptions C17_rows_types_agree.
Print Assumptions C17_example_compose.
Print Assumptions C17_union_checker_sound.
Print Assumptions C17_weak_union_checker_sound.
Print Assumptions C17_set_union_checker_sound.
Print Assumptions C17_example_domains.
Print Assumptions C17_example_problems.
