(* Property C10 -- a serialized trajectory parses back to the same states and actions.
   Statements only; proofs live in Proofs/C10_*.v (on top of Proofs/C14_* and the reader theorems of C11).

   Model: Model/Trajectory.v (TrajectoryExporter.export / MultiAgentTrajectoryExporter.export / TrajectoryParser) on
          Model/State.v; triplets (previous state, operator(s), next state) are data.
   Spec : calls are equal; states denote the same facts and valued fluents (Spec/State.State_same on Proofs/C14_Main.den);
          the observation is a chain under the library's own == (Model.State.state_eq).
   Hypotheses of the round trip, for a non-empty list of triplets t0 :: ts:
     den_ok        of the first state and of every next state: clean names, repr/float round trip on the values that occur,
                   and [parseable]: every predicate / function is declared in the domain with that arity, the objects are
                   in the object table (when one is given; fluent arguments of the right type), NO FLUENT HAS A REPEATED
                   ARGUMENT and no fluent occurs twice;
     step_text_ok  the calls are clean tokens;
     step_ok       every next state is labelled ':state' (is_init = False); a joint action has at most as many members as
                   there are executing agents, and a member called nop has no arguments;
     chain_from    each triplet's previous state denotes the preceding next state (only the first previous state is written).
   Where the code deviates:
     D07  fluents with a repeated argument            C10_roundtrip is the _partial statement (hypothesis [parseable]);
                                                      C10_roundtrip_refuted is the witness;
     D56  the empty trajectory cannot be exported     C10_export_empty_refuted. *)
From Coq Require Import List Ascii String Bool PrimFloat.
From Verif Require Import Base.Result Base.Str Base.Sexp Base.PyDict Base.Float Model.Tokenizer Model.Types Model.Domain
  Model.State Model.Trajectory Spec.Pddl Spec.State
  Proofs.C14_Text Proofs.C14_Spec Proofs.C14_Eq Proofs.C14_Main Proofs.C14_Serialize Proofs.C14_Examples
  Proofs.C14_Sorted Proofs.C10_Export Proofs.C10_State Proofs.C10_Main Proofs.C10_Objects Proofs.C10_Sorted Proofs.C10_Examples.
Import ListNotations.

(* the full statement the property asks for: no restriction on the fluents' arguments *)
Definition C10_roundtrip_full_statement : Prop :=
  forall dom num_text parse_num problem agents m t0 ts,
    (forall s, In s (t_pre t0 :: map t_post (t0 :: ts)) ->
       state_ok s = true /\ nums_clean num_text s /\ (forall x, In x (values s) -> num_ok num_text parse_num x) /\
       Forall (fact_ok dom problem) (den_facts s) /\
       (* fluent_ok without its NoDup clause *)
       Forall (fun a => exists lifted, dget (d_funcs dom) (fst a) = Some lifted /\ List.length lifted = List.length (snd a))
              (map fst (den_fluents s))) ->
    Forall (step_text_ok num_text) (t0 :: ts) -> chain_from (t_post t0) ts ->
    exists text tree O,
      export_text num_text (t0 :: ts) = Ok text /\ parse m (s2t text) = Ok tree /\
      parse_trajectory dom parse_num problem agents false tree = Ok O /\
      Forall2 (fun t c => State_same (den (oc_next c)) (den (t_post t))) (t0 :: ts) (ob_components O).

(* the exported text is read by the library's reader (C11) as the token tree of the trajectory; State.serialize prints
   the facts of every predicate group in sorted order (3ad2e15), so the tree is the one of the trajectory with every group
   sorted ([sort_triplet]: Proofs/C10_Sorted.v; sorting permutes the groups and changes nothing the statements speak of) *)
Theorem C10_export_parses : forall num_text m t0 ts,
  state_ok (t_pre t0) = true -> nums_clean num_text (t_pre t0) -> Forall (step_text_ok num_text) (t0 :: ts) ->
  exists text, export_text num_text (t0 :: ts) = Ok text /\
               parse m (s2t text) = Ok (traj_sexp num_text (sort_triplet t0) (map sort_triplet ts)).
Proof. exact parse_export_sorted. Qed.

(* parse_state on the token tree of a serialized state *)
Theorem C10_state_roundtrip : forall dom num_text parse_num problem s,
  state_ok s = true -> (forall x, In x (values s) -> num_ok num_text parse_num x) -> parseable dom problem s ->
  exists s', parse_state dom parse_num problem (fluent_sexps num_text s ++ fact_sexps s) = Ok s' /\
             st_init s' = false /\ State_same (den s') (den s).
Proof. exact parse_state_items. Qed.

(* the round trip: same length, same calls, same states, a chain; with the problem's object table (problem = Some objs:
   the table is returned as is) or with objects deduced from the first state (problem = None); single calls and joint
   actions with nop entries *)
Theorem C10_roundtrip : forall dom num_text parse_num problem agents m t0 ts strict,
  (strict = true -> st_init (t_pre t0) = true) ->
  den_ok dom num_text parse_num problem (t_pre t0) -> nums_clean num_text (t_pre t0) ->
  Forall (step_text_ok num_text) (t0 :: ts) -> Forall (step_ok dom num_text parse_num problem agents) (t0 :: ts) ->
  chain_from (t_post t0) ts ->
  exists text tree O,
    export_text num_text (t0 :: ts) = Ok text /\ parse m (s2t text) = Ok tree /\
    parse_trajectory dom parse_num problem agents strict tree = Ok O /\
    List.length (ob_components O) = List.length (t0 :: ts) /\
    Forall2 (fun t c => ocall_calls (oc_call c) = tact_calls (t_act t) /\
                        State_same (den (oc_prev c)) (den (t_pre t)) /\
                        State_same (den (oc_next c)) (den (t_post t))) (t0 :: ts) (ob_components O) /\
    obs_chain num_text (ob_components O) /\
    (forall objs, problem = Some objs -> ob_objects O = objs).
Proof. exact roundtrip_sorted. Qed.

(* objects deduced from the first state: the observation's table names every object of the first state (the tree is the
   one C10_export_parses / C10_roundtrip speak about) *)
Theorem C10_roundtrip_deduced_objects : forall dom num_text parse_num agents strict t0 ts O,
  state_ok (t_pre t0) = true -> parseable dom None (t_pre t0) ->
  parse_trajectory dom parse_num None agents strict (traj_sexp num_text (sort_triplet t0) (map sort_triplet ts)) = Ok O ->
  (forall a o, In a (den_facts (t_pre t0)) -> In o (snd a) -> dmem (ob_objects O) o = true) /\
  (forall a o, In a (map fst (den_fluents (t_pre t0))) -> In o (snd a) -> dmem (ob_objects O) o = true).
Proof. intros dom num_text parse_num agents strict t0 ts O. exact (roundtrip_deduced_objects_sorted dom num_text parse_num agents strict t0 ts O). Qed.

(* D07: with a repeated fluent argument the parsed states are not the exported ones *)
Theorem C10_roundtrip_refuted :
  exists text tree O c,
    export_text ex_num_text [d07_triplet] = Ok text /\ parse MFile (s2t text) = Ok tree /\
    parse_trajectory d07_dom ex_parse_num None None false tree = Ok O /\ ob_components O = [c] /\
    state_eq ex_num_text (oc_prev c) (t_pre d07_triplet) = false /\
    state_eq ex_num_text (oc_next c) (t_post d07_triplet) = false.
Proof. exact roundtrip_refuted. Qed.

(* ... and the repeated argument is the only hypothesis the witness violates *)
Theorem C10_roundtrip_refuted_class :
  state_ok d07_state = true /\ nums_clean ex_num_text d07_state /\ ~ parseable d07_dom None d07_state.
Proof. exact d07_violates_only_nodup. Qed.

(* D56: an empty list of triplets cannot be exported (IndexError on triplets[0]) *)
Theorem C10_export_empty_refuted : forall num_text, export num_text [] = Err EIndex.
Proof. exact export_empty. Qed.

(* the hypotheses are satisfiable: a two-step trajectory with a binary fluent, a 0-ary fact, an empty last state, negative
   and fractional values; with and without object table; single-agent and joint with nop entries *)
Theorem C10_example : forall problem, problem = None \/ problem = Some ex_objs ->
  den_ok ex_dom ex_num_text ex_parse_num problem (t_pre ex_t0) /\ nums_clean ex_num_text (t_pre ex_t0) /\
  Forall (step_text_ok ex_num_text) [ex_t0; ex_t1] /\
  Forall (step_ok ex_dom ex_num_text ex_parse_num problem None) [ex_t0; ex_t1] /\
  chain_from (t_post ex_t0) [ex_t1].
Proof. exact ex_roundtrip_hypotheses. Qed.

Theorem C10_example_joint : forall problem, problem = None \/ problem = Some ex_objs ->
  den_ok ex_dom ex_num_text ex_parse_num problem (t_pre ex_j0) /\ nums_clean ex_num_text (t_pre ex_j0) /\
  Forall (step_text_ok ex_num_text) [ex_j0; ex_j1] /\
  Forall (step_ok ex_dom ex_num_text ex_parse_num problem (Some ["agent0"; "agent1"]%string)) [ex_j0; ex_j1] /\
  chain_from (t_post ex_j0) [ex_j1].
Proof. exact ex_roundtrip_hypotheses_joint. Qed.

Print Assumptions C10_export_parses.
Print Assumptions C10_state_roundtrip.
Print Assumptions C10_roundtrip.
Print Assumptions C10_roundtrip_deduced_objects.
Print Assumptions C10_roundtrip_refuted.
Print Assumptions C10_roundtrip_refuted_class.
Print Assumptions C10_export_empty_refuted.
Print Assumptions C10_example.
Print Assumptions C10_example_joint.
