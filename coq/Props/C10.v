(* Property C10 -- a serialized trajectory parses back to the same states and actions.
   Statements only; proofs live in Proofs/C10_*.v.  (work in progress: the round-trip theorem is being proved) *)
From Coq Require Import List Ascii String Bool PrimFloat.
From Verif Require Import Base.Result Base.Str Base.Sexp Base.PyDict Base.Float Model.State Model.Trajectory Proofs.C10_Export.
Import ListNotations.

(* D56: an empty list of triplets cannot be exported (IndexError on triplets[0]) *)
Theorem C10_export_empty_refuted : forall num_text, export num_text [] = Err EIndex.
Proof. exact export_empty. Qed.

Print Assumptions C10_export_empty_refuted.
