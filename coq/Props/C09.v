(* Property C09 -- exporting a problem and parsing it back preserves it.  Statements only; proofs in Proofs/C09_*.v.

   Setting.  As in Props/C05.v; [export_problem repr_text gd dname pb] is the token tree of the text
   ProblemExporter writes (Model/ProblemExporter.v; the implementation's text is read back by the model's tokenizer
   on every run and compared with it).  repr(float) is NOT modelled: [repr_text] is any function with the
   hypothesis [repr_ok num repr_text sp]:  num (repr_text x) = Some x  for every fluent value and goal constant x
   of the problem (float(repr(x)) == x, trusted base, re-checked on every value the harness sees).  [gd = None]: goal constants printed with repr (the tree with fix D50); [Some d]: "{:.df}".
   [same_obs a b]: same name, same object table, same fact set, same fluent map, same goal literals in order,
   same numeric goals; it implies pdump_equiv (C09_same_obs_equiv).

   FULL STATEMENT (C09_roundtrip_statement in Proofs/C09_Examples.v): for every parsed problem, parsing its export
   succeeds and gives an equivalent problem.  It is FALSE for the current code:
     C09_roundtrip_refuted   finding D07: initial fluents (g3 b a a) and (g3 a a b) are both exported as (g3 a a b)
                             and come back as ONE fluent
   and was false on the pinned exporter in one more way (C09_pinned_refuted: D50, goal constants at 4 decimals).
   What holds for every problem of the grammar whose initial fluents are [safe_repeats] (Model/ProblemObs.v: no repeated
   argument - C05_no_repeats_safe -, or repeated arguments written the way the library prints them, e.g. (f a a),
   (g a a b), with distinct keys):
     C09_roundtrip           the export parses, the result has the same observables, and a second round too
     C09_empty_sections      empty sections stay empty
   EVERY ACCEPTED TEXT.  The grammar of Spec/Problem.v excludes object sections that declare a name again or nest lists
   deeper; the parser accepts them (Props/C05.v: C05_objects_any_text, C05_repeated_objects, C05_private_flattened) and
   returns for such a text what it returns for its normal form [normal_objects e] (C05_objects_normal_form):
     C09_roundtrip_any_objects  the round trip for every accepted text whose NORMAL FORM is in the grammar - the exporter
                                writes the object table in the normal form itself (C09_export_objects_normal) *)
From Coq Require Import List String Bool PrimFloat.
From Verif Require Import Base.Result Base.Str Base.Sexp Base.PyDict Model.Domain Model.NumExpr Model.Problem
  Model.ProblemObs Model.ProblemExporter Spec.Pddl Spec.Grammar Spec.Problem
  Proofs.C05_Items Proofs.C05_Parse Proofs.C05_Faithful Proofs.C05_Repeats Proofs.C05_Examples Proofs.C05_Main
  Proofs.C09_Export Proofs.C09_Round Proofs.C09_Main Proofs.C09_Examples Spec.ProblemObjects Proofs.C09_AnyObjects.
Import ListNotations.
Open Scope string_scope.

Theorem C09_roundtrip : forall num repr_text dom, dom_ok dom -> num_ok num -> forall e sp pb,
  read_problem num e = Some sp -> repr_ok num repr_text sp -> safe_repeats sp = true -> sp_name sp <> "" ->
  parse_problem cfg_fixed num dom e = Ok pb ->
  exists pb', parse_problem cfg_fixed num dom (export_problem repr_text None (d_name dom) pb) = Ok pb' /\
              same_obs pb' pb /\
  exists pb'', parse_problem cfg_fixed num dom (export_problem repr_text None (d_name dom) pb') = Ok pb'' /\
               same_obs pb'' pb.
Proof. exact C09_roundtrip_lemma. Qed.

(* the same for the tree with ([gt] = true) or without ([gt] = false: the theorem above) the repair proposed for D19d
   (proposed_fixes/D19d.diff, Model.Problem.cfg_gt): the additional type check of numeric-goal arguments passes again on
   the exported text *)
Theorem C09_roundtrip_any_goal_check : forall num repr_text dom, dom_ok dom -> num_ok num -> forall gt e sp pb,
  read_problem num e = Some sp -> repr_ok num repr_text sp -> safe_repeats sp = true -> sp_name sp <> "" ->
  parse_problem (cfg_gt gt) num dom e = Ok pb ->
  exists pb', parse_problem (cfg_gt gt) num dom (export_problem repr_text None (d_name dom) pb) = Ok pb' /\
              same_obs pb' pb /\
  exists pb'', parse_problem (cfg_gt gt) num dom (export_problem repr_text None (d_name dom) pb') = Ok pb'' /\
               same_obs pb'' pb.
Proof. exact C09_roundtrip_t_lemma. Qed.

Theorem C09_same_obs_equiv : forall a b, same_obs a b -> pdump_equiv (dump_problem a) (dump_problem b) = true.
Proof. exact same_obs_equiv. Qed.

Theorem C09_empty_sections : forall a b, same_obs a b ->
  (pd_objects (dump_problem b) = [] -> pd_objects (dump_problem a) = []) /\
  (pd_facts (dump_problem b) = [] -> pd_facts (dump_problem a) = []) /\
  (pd_fluents (dump_problem b) = [] -> pd_fluents (dump_problem a) = []) /\
  (pd_goal (dump_problem b) = [] -> pd_goal (dump_problem a) = []) /\
  (pd_goal_num (dump_problem b) = [] -> pd_goal_num (dump_problem a) = []).
Proof. exact same_obs_empty. Qed.

(* D07: two initial fluents with repeated arguments that print alike are merged by the round trip *)
Theorem C09_roundtrip_refuted : ~ C09_roundtrip_statement None.
Proof. exact C09_roundtrip_refuted_lemma. Qed.

(* the hypotheses of C09_roundtrip are satisfiable by a non-trivial problem (5 numeric values) *)
Theorem C09_nonvacuous :
  dom_ok ex_dom /\ num_ok ex_num9 /\
  exists sp, read_problem ex_num9 ex_problem = Some sp /\ repr_ok ex_num9 ex_repr9 sp /\ safe_repeats sp = true /\
             sp_name sp <> "" /\ List.length (values_of ex_num9 sp) = 5 /\
             exists pb, parse_problem cfg_fixed ex_num9 ex_dom ex_problem = Ok pb.
Proof. exact (conj ex_dom_ok (conj ex_num9_ok C09_hypotheses_satisfiable)). Qed.

(* D50 on the pinned exporter (Some 4) versus the repaired one (None) *)
Theorem C09_pinned_refuted :
  exists pb pb', parse_problem cfg_fixed ex_num9 ex_dom d50_problem = Ok pb /\
    parse_problem cfg_fixed ex_num9 ex_dom (export_problem ex_repr9 (Some 4) "dom" pb) = Ok pb' /\
    pdump_equiv (dump_problem pb') (dump_problem pb) = false /\
    exists pb2, parse_problem cfg_fixed ex_num9 ex_dom (export_problem ex_repr9 None "dom" pb) = Ok pb2 /\
                pdump_equiv (dump_problem pb2) (dump_problem pb) = true.
Proof. exact C09_pinned_exporter_loses_precision. Qed.

(* ... and by a problem with repeated fluent arguments, which round-trips *)
Theorem C09_nonvacuous_repeats :
  exists sp pb pb', read_problem ex_num9 repeats_problem = Some sp /\ repr_ok ex_num9 ex_repr9 sp /\
    safe_repeats sp = true /\ no_repeats sp = false /\
    parse_problem cfg_fixed ex_num9 ex_dom repeats_problem = Ok pb /\
    parse_problem cfg_fixed ex_num9 ex_dom (export_problem ex_repr9 None "dom" pb) = Ok pb' /\
    pdump_equiv (dump_problem pb') (dump_problem pb) = true /\ List.length (pd_fluents (dump_problem pb')) = 4.
Proof. exact C09_repeats_satisfiable. Qed.

(* a non-trivial problem and the empty problem round-trip (computed on the model) *)
Theorem C09_example :
  exists pb pb' pb'',
    parse_problem cfg_fixed ex_num9 ex_dom ex_problem = Ok pb /\
    parse_problem cfg_fixed ex_num9 ex_dom (export_problem ex_repr9 None "dom" pb) = Ok pb' /\
    pdump_equiv (dump_problem pb') (dump_problem pb) = true /\
    parse_problem cfg_fixed ex_num9 ex_dom (export_problem ex_repr9 None "dom" pb') = Ok pb'' /\
    pdump_equiv (dump_problem pb'') (dump_problem pb) = true /\
    List.length (pd_facts (dump_problem pb)) = 4 /\ List.length (pd_fluents (dump_problem pb)) = 3 /\
    List.length (pd_goal_num (dump_problem pb)) = 2.
Proof. exact C09_example_roundtrip. Qed.

Theorem C09_example_empty_thm :
  exists pb pb', parse_problem cfg_fixed ex_num9 ex_dom empty_problem_text = Ok pb /\
    parse_problem cfg_fixed ex_num9 ex_dom (export_problem ex_repr9 None "dom" pb) = Ok pb' /\
    dump_problem pb' = {| pd_name := "pr"; pd_objects := []; pd_facts := []; pd_fluents := []; pd_goal := []; pd_goal_num := [] |}.
Proof. exact C09_example_empty. Qed.

Theorem C09_roundtrip_any_objects : forall num repr_text dom, dom_ok dom -> num_ok num -> forall gt e sp pb,
  parse_problem (cfg_gt gt) num dom e = Ok pb ->
  read_problem num (normal_objects e) = Some sp -> repr_ok num repr_text sp -> safe_repeats sp = true -> sp_name sp <> "" ->
  exists pb', parse_problem (cfg_gt gt) num dom (export_problem repr_text None (d_name dom) pb) = Ok pb' /\
              same_obs pb' pb /\
  exists pb'', parse_problem (cfg_gt gt) num dom (export_problem repr_text None (d_name dom) pb') = Ok pb'' /\
               same_obs pb'' pb.
Proof. exact C09_roundtrip_any_objects_lemma. Qed.

Theorem C09_export_objects_normal : forall objs : pydict string, export_objects objs = objects_text objs.
Proof. exact export_objects_normal. Qed.

Print Assumptions C09_roundtrip.
Print Assumptions C09_roundtrip_any_goal_check.
Print Assumptions C09_same_obs_equiv.
Print Assumptions C09_empty_sections.
Print Assumptions C09_roundtrip_refuted.
Print Assumptions C09_nonvacuous.
Print Assumptions C09_nonvacuous_repeats.
Print Assumptions C09_pinned_refuted.
Print Assumptions C09_example.
Print Assumptions C09_example_empty_thm.
Print Assumptions C09_roundtrip_any_objects.
Print Assumptions C09_export_objects_normal.
