(* Property C09 -- exporting a problem and parsing it back preserves it.  Statements only. *)
From Coq Require Import List String Bool PrimFloat.
From Verif Require Import Base.Result Base.Str Base.Sexp Base.PyDict Model.Domain Model.NumExpr Model.Problem
  Model.ProblemObs Model.ProblemExporter Spec.Pddl Spec.Grammar Spec.Problem Proofs.C05_Examples.
Import ListNotations.
Open Scope string_scope.

Definition ex_repr (x : float) : string :=
  if PrimFloat.eqb x 3.5%float then "3.5" else if PrimFloat.eqb x 2%float then "2" else
  if PrimFloat.eqb x (-1000)%float then "-1e3" else "1".

(* a non-trivial problem survives export and re-parse *)
Theorem C09_example :
  exists pb pb', parse_problem cfg_fixed ex_num ex_dom ex_problem = Ok pb /\
    parse_problem cfg_fixed ex_num ex_dom (export_problem ex_repr None "dom" pb) = Ok pb' /\
    pdump_equiv (dump_problem pb') (dump_problem pb) = true.
Proof. eexists. eexists. split; [vm_compute; reflexivity|]. split; vm_compute; reflexivity. Qed.

Print Assumptions C09_example.
