(* Property C14 -- states behave as values: equality, copy and serialization agree.
   Statements only; proofs live in Proofs/C14_*.v.

   Model: Model/State.v (State.__eq__ / copy / serialize as the code computes them: sets of texts).
   Spec : Spec/State.v (State_same: the same set of ground facts and the same set of (ground fluent, value) pairs,
          two values being the same when they are the same binary64 datum).
   den s  = the facts and valued fluents the state prints (Proofs/C14_Main.den).
   Hypotheses, all on the two states at hand:
     state_ok   every name is a clean token (non-empty, lower case, no blank / parenthesis), facts are positive, no predicate
                is called "=", and every fluent value is a float (C14_eq_int_refuted / C14_eq_unset_refuted otherwise);
     nums_ok    repr/float on the values that occur: float(repr x) is x, and equal data print equally (CPython facts,
                re-checked by the harness on every value it meets);
     nums_clean repr x is a clean token.
   What the code does with values (checked on the implementation by harness/ops_c14.value_facts): it compares their
   repr TEXT.  That is the same as comparing the data (C14_eq) and differs from IEEE comparison exactly where IEEE
   comparison is not an equivalence: nan (C14_eq_ieee_nan) and the two zeros (C14_eq_ieee_zero).

   The library's own reader of a state text (TrajectoryParser.parse_state) is the subject of C10; for it the
   read-back half of the property fails on fluents with a repeated argument (finding D07):
   C14_library_readback_partial / C14_library_readback_refuted. *)
From Coq Require Import List Ascii String Bool PrimFloat Permutation.
From Verif Require Import Base.Result Base.Str Base.Sexp Base.PyDict Base.Float Model.Tokenizer Model.Domain Model.State
  Model.Trajectory Spec.Pddl Spec.State
  Proofs.C14_Text Proofs.C14_Spec Proofs.C14_Eq Proofs.C14_Main Proofs.C14_Serialize Proofs.C14_Sorted Proofs.C14_Examples
  Proofs.C10_State Proofs.C10_Sorted Proofs.C14_Mutate Proofs.C14_Typed.
From Verif Require Model.Store Proofs.C07_Sep Proofs.C14_Store.
Import ListNotations.

(* ---------- equality ---------- *)
Theorem C14_eq : forall num_text parse_num s t,
  state_ok s = true -> state_ok t = true -> nums_ok num_text parse_num (values s ++ values t) ->
  (state_eq num_text s t = true <-> State_same (den s) (den t)).
Proof. exact state_eq_same. Qed.

(* [state_ok] also demands that every fluent value is a float -- what the parsers and the effects store.  Without
   that demand (names only) the statement fails: PDDLFunction keeps the object it is given, and a Python int prints as
   "1", not "1.0" (finding D90: an int handed to set_value; finding D91: the never-set default, the int 0).  The two
   states denote the same facts and the same fluents with the same values, == says they differ, and their texts differ. *)
Definition C14_eq_full_statement : Prop := forall num_text parse_num s t,
  state_names_ok s = true -> state_names_ok t = true -> nums_ok num_text parse_num (values s ++ values t) ->
  (state_eq num_text s t = true <-> State_same (den s) (den t)).

Theorem C14_eq_int_refuted :
  exists s t, state_names_ok s = true /\ state_names_ok t = true /\
    nums_ok ex_num_text ex_parse_num (values s ++ values t) /\
    State_same (den s) (den t) /\ state_eq ex_num_text s t = false /\
    serialize ex_num_text s <> serialize ex_num_text t.
Proof. exact (ex_intro _ ex_one_int (ex_intro _ ex_one_float (ex_int_pair _ _ (or_introl (conj eq_refl eq_refl))))). Qed.

Theorem C14_eq_unset_refuted :
  exists s t, state_names_ok s = true /\ state_names_ok t = true /\
    nums_ok ex_num_text ex_parse_num (values s ++ values t) /\
    State_same (den s) (den t) /\ state_eq ex_num_text s t = false /\
    serialize ex_num_text s <> serialize ex_num_text t.
Proof. exact (ex_intro _ ex_unset (ex_intro _ ex_zero_float (ex_int_pair _ _ (or_intror (conj eq_refl eq_refl))))). Qed.

(* the decidable reading used by the correspondence is the Prop reading *)
Theorem C14_spec_reflect : forall a b, state_same a b = true <-> State_same a b.
Proof. exact state_same_iff. Qed.

Theorem C14_eq_refl : forall (num_text : float -> string) s, state_eq num_text s s = true.
Proof. exact state_eq_refl. Qed.

Theorem C14_eq_sym : forall (num_text : float -> string) s t, state_eq num_text s t = state_eq num_text t s.
Proof. exact state_eq_sym. Qed.

Theorem C14_eq_trans : forall (num_text : float -> string) s t u,
  state_eq num_text s t = true -> state_eq num_text t u = true -> state_eq num_text s u = true.
Proof. exact state_eq_trans. Qed.

(* order of dicts and sets, dictionary keys, types and is_init play no role *)
Theorem C14_eq_order : forall (num_text : float -> string) s s',
  Permutation (all_preds s) (all_preds s') ->
  Permutation (dvalues (st_fluents s)) (dvalues (st_fluents s')) ->
  state_eq num_text s s' = true.
Proof. exact state_eq_perm. Qed.

(* whatever the order in which a state is built from its components (no fluent assigned twice) *)
Theorem C14_build_order : forall (num_text : float -> string) init init' cs cs',
  Permutation cs cs' -> Forall gp_wf (comp_facts cs) -> NoDup (map pf_untyped (comp_fluents cs)) ->
  state_eq num_text (build_state init cs) (build_state init' cs') = true.
Proof. exact build_order. Qed.

(* values: the code's comparison is data identity; IEEE comparison would not do *)
Theorem C14_eq_ieee_nan : (nan =? nan)%float = false /\ same_value nan nan = true.
Proof. exact ieee_nan_irreflexive. Qed.
Theorem C14_eq_ieee_zero : (0 =? -0)%float = true /\ same_value 0%float (-0)%float = false.
Proof. exact ieee_zeros_identified. Qed.
Theorem C14_eq_ieee_witness :
  state_eq ex_num_text ex_s ex_s = true /\ ieee_fluents_equal (den_fluents ex_s) (den_fluents ex_s) = false /\
  state_eq ex_num_text ex_s ex_u = false /\
  ieee_fluents_equal (filter (fun kv => negb (String.eqb (fst (fst kv)) "h")) (den_fluents ex_s))
                     (filter (fun kv => negb (String.eqb (fst (fst kv)) "h")) (den_fluents ex_u)) = true.
Proof. exact ex_ieee_differs. Qed.

(* ---------- copy ---------- *)
(* as a value the copy IS the original (same fields); so it is equal to it, denotes and serializes the same.
   A copied set may iterate in another order: C14_eq_order.  Independence (no shared mutable object among what
   State.copy copies) is an aliasing fact checked on the implementation by the harness' mutation test. *)
Theorem C14_copy_value : forall s, state_copy s = s.
Proof. exact state_copy_id. Qed.

Theorem C14_copy : forall (num_text : float -> string) s,
  state_eq num_text (state_copy s) s = true /\ state_eq num_text s (state_copy s) = true /\
  serialize num_text (state_copy s) = serialize num_text s.
Proof. exact state_copy_props_sorted. Qed.

(* independence in the store model of C07 (Model/Store.v: the footprint of State.copy): in a store where every state
   owns its cells, the copy's dict, set and value cells lie in a fresh region -- it shares no cell with any state that
   existed before, the original included -- and copying writes nothing outside that region *)
Theorem C14_copy_independent : forall (m : Store.mstate) s src,
  C07_Sep.StInv C07_Sep.own_region m -> s < List.length (Store.sts m) -> src = nth s (Store.sts m) Store.dflt_s ->
  (forall l, In l (Store.st_cells (fst (Store.ev_copy_state m src))) -> forall s', s' < List.length (Store.sts m) ->
             ~ In l (Store.st_cells (nth s' (Store.sts m) Store.dflt_s))) /\
  (forall l, In l (Store.writes (snd (Store.ev_copy_state m src))) -> fst l = Store.OSt (List.length (Store.sts m))).
Proof. exact C14_Store.copy_independent. Qed.

(* ---------- a state changed in place (wave 3) ---------- *)
(* State objects are mutable through their public attributes.  For the model, == is a function of the contents at the
   moment of the call: a state from which a fact it holds was removed in place (Model/State.discard_fact) is unequal to
   what it was -- and to every copy taken before --, removing a fact it does not hold changes nothing, adding a fact it
   does not hold (add_fact, under whatever key) makes it unequal, and putting a removed fact back makes it equal again.
   That the IMPLEMENTATION is such a function (nothing computed at an earlier call is kept) is checked by the
   observe-mutate-observe groups of the correspondence. *)
Theorem C14_mutate_discard : forall (num_text : float -> string) t s, In t (fact_texts s) ->
  state_eq num_text (discard_fact t s) s = false /\ state_eq num_text s (discard_fact t s) = false.
Proof. exact discard_unequal. Qed.

Theorem C14_mutate_discard_absent : forall (num_text : float -> string) t s, ~ In t (fact_texts s) ->
  state_eq num_text (discard_fact t s) s = true.
Proof. exact discard_absent. Qed.

Theorem C14_mutate_add : forall (num_text : float -> string) key g s,
  gp_wf g -> all_wf (all_preds s) -> ~ In (gp_untyped g) (fact_texts s) ->
  state_eq num_text (add_fact key g s) s = false /\ state_eq num_text s (add_fact key g s) = false.
Proof. exact add_unequal. Qed.

Theorem C14_mutate_discard_add_back : forall (num_text : float -> string) key g s,
  gp_wf g -> all_wf (all_preds s) -> In (gp_untyped g) (fact_texts s) ->
  state_eq num_text (add_fact key g (discard_fact (gp_untyped g) s)) s = true /\
  state_eq num_text s (add_fact key g (discard_fact (gp_untyped g) s)) = true.
Proof. exact discard_add_back. Qed.

Theorem C14_mutate_copy_keeps_value : forall (num_text : float -> string) t s, In t (fact_texts s) ->
  state_eq num_text (discard_fact t s) (state_copy s) = false /\
  state_eq num_text (state_copy s) (discard_fact t (state_copy s)) = false.
Proof. exact copy_then_discard. Qed.

(* state_fluents[key].set_value(x): with the datum the fluent already prints nothing changes; with a value that prints
   differently -- the other zero included -- the state is unequal to what it was (no ground fluent held twice) *)
Theorem C14_mutate_set_value_same : forall (num_text : float -> string) key x s,
  (forall f, In (key, f) (st_fluents s) -> pf_int f = false /\ num_text x = num_text (pf_val f)) ->
  state_eq num_text (set_fluent_value key x s) s = true.
Proof. exact set_value_same. Qed.

Theorem C14_mutate_set_value : forall (num_text : float -> string) key x f s,
  forallb pf_ok (dvalues (st_fluents s)) = true -> NoDup (map pf_atom (dvalues (st_fluents s))) ->
  In (key, f) (st_fluents s) -> num_text x <> num_text (pf_val f) ->
  state_eq num_text (set_fluent_value key x s) s = false /\ state_eq num_text s (set_fluent_value key x s) = false.
Proof. exact set_value_unequal. Qed.

Theorem C14_mutate_set_value_example :
  forallb pf_ok (dvalues (st_fluents ex_s)) = true /\ NoDup (map pf_atom (dvalues (st_fluents ex_s))) /\
  In ("(g a)", ex_pf "g" [("a", "t")] (-0) [("a", 2)]) (st_fluents ex_s) /\
  ex_num_text 0 <> ex_num_text (-0) /\ set_fluent_value "(g a)" 0 ex_s = ex_u.
Proof. exact ex_set_value_hypotheses. Qed.

Theorem C14_mutate_example :
  gp_wf ex_g1 /\ all_wf (all_preds ex_m) /\ In (gp_untyped ex_g1) (fact_texts ex_m) /\
  all_preds (discard_fact (gp_untyped ex_g1) ex_m) = [ex_g2] /\
  ~ In (gp_untyped ex_g1) (fact_texts (discard_fact (gp_untyped ex_g1) ex_m)).
Proof. exact ex_mutate_hypotheses. Qed.

(* ---------- serialization ---------- *)
(* State.serialize prints the facts of every predicate group in sorted order of their texts (3ad2e15): it is the
   in-order printer applied to the state with every group sorted, and sorting only permutes the groups *)
Theorem C14_serialize_sorted : forall num_text s,
  serialize num_text s = serialize_in_order num_text (sort_facts s) /\
  Permutation (all_preds (sort_facts s)) (all_preds s) /\ st_fluents (sort_facts s) = st_fluents s /\
  State_same (den (sort_facts s)) (den s).
Proof. intros num_text s. exact (conj (serialize_sorted num_text s) (conj (all_preds_sorted s) (conj eq_refl (den_sorted s)))). Qed.

(* the library's reader (C11) returns the token tree of the state ... *)
Theorem C14_serialize_parse : forall num_text m s,
  state_ok s = true -> nums_clean num_text s ->
  parse m (s2t (serialize num_text s)) = Ok (state_sexp num_text (sort_facts s)).
Proof. exact parse_serialize_sorted. Qed.

(* ... whose reading is the state *)
Theorem C14_serialize_reads_back : forall num_text parse_num m s,
  state_ok s = true -> nums_clean num_text s -> (forall x, In x (values s) -> num_ok num_text parse_num x) ->
  exists st, read_text parse_num m (serialize num_text s) = Some (st_init s, st) /\ State_same st (den s).
Proof. exact serialize_reads_back_sorted. Qed.

(* equal states serialize to texts that read back as the same state, unequal states never do *)
Theorem C14_serialize : forall num_text parse_num m s t,
  state_ok s = true -> state_ok t = true -> nums_clean num_text s -> nums_clean num_text t ->
  nums_ok num_text parse_num (values s ++ values t) ->
  exists a b, read_text parse_num m (serialize num_text s) = Some (st_init s, a) /\
              read_text parse_num m (serialize num_text t) = Some (st_init t, b) /\
              (State_same a b <-> state_eq num_text s t = true).
Proof. exact serialize_injective_sorted. Qed.

(* stronger since the sort: the TEXT does not depend on the order inside the groups -- states with the same flag, the
   same fluent texts in the same order and the same groups in the same order, each group holding the same fact texts in
   any order, serialize to the identical text (so do, in particular, a state and any rebuild of its sets) *)
Theorem C14_serialize_text_equal : forall num_text s t,
  st_init s = st_init t -> fluent_texts num_text s = fluent_texts num_text t ->
  groups_permuted (st_preds s) (st_preds t) ->
  serialize num_text s = serialize num_text t.
Proof. exact serialize_text_equal. Qed.

Theorem C14_serialize_set_order : forall num_text s t,
  st_init s = st_init t -> st_fluents s = st_fluents t ->
  Forall2 (fun g g' => Permutation (snd g) (snd g')) (st_preds s) (st_preds t) ->
  serialize num_text s = serialize num_text t.
Proof. exact serialize_set_order. Qed.

(* ---------- typed_serialize (wave 3) ---------- *)
(* State.typed_serialize prints "o - t" for every argument and no ':init' / ':state' head.  It is the headless untyped
   text of the typed VIEW of the state (every argument o of type t replaced by the three arguments o, -, t), whenever it
   does not raise (every signature parameter of a fact is mapped, every printed variable of a fluent has a type) ... *)
Theorem C14_typed_serialize_view : forall num_text s, preds_mapped s -> fluents_typed_ok s ->
  typed_serialize num_text s = Ok (headless num_text (typed_view s)).
Proof. exact typed_serialize_view. Qed.

(* ... so the library's reader (C11) returns a token tree of it, and that tree with the types dropped
   (Spec/State.read_typed_state) is the state: the same facts and the same fluents with the same values *)
Theorem C14_typed_serialize_reads_back : forall num_text parse_num m s,
  state_ok s = true -> all_wf (all_preds s) -> fluents_typed_ok s -> types_ok s ->
  nums_clean num_text s -> (forall x, In x (values s) -> num_ok num_text parse_num x) ->
  exists t e st, typed_serialize num_text s = Ok t /\ parse m (s2t t) = Ok e /\
                 read_typed_state parse_num e = Some st /\ State_same st (den s).
Proof. exact typed_serialize_reads_back. Qed.

Theorem C14_typed_example :
  state_ok ex_s = true /\ all_wf (all_preds ex_s) /\ fluents_typed_ok ex_s /\ types_ok ex_s /\
  nums_clean ex_num_text ex_s /\ (forall x, In x (values ex_s) -> num_ok ex_num_text ex_parse_num x) /\
  typed_serialize ex_num_text ex_s =
    Ok ("((= (f a - t) 2.5) (= (g a - t a - t) -0.0) (= (h ) nan) (p a - t) (p b - t) (q a - t a - t) (z ))" +++ LFs).
Proof. exact ex_typed_hypotheses. Qed.

(* ---------- the library's own reader of a state (TrajectoryParser.parse_state) ---------- *)
Theorem C14_library_readback_partial : forall dom num_text parse_num problem m s,
  state_ok s = true -> nums_clean num_text s -> (forall x, In x (values s) -> num_ok num_text parse_num x) ->
  parseable dom problem s ->
  exists e s', parse m (s2t (serialize num_text s)) = Ok (SList (Atom (head_tok s) :: e)) /\
               parse_state dom parse_num problem e = Ok s' /\ State_same (den s') (den s).
Proof. exact library_readback_sorted. Qed.

Theorem C14_library_readback_refuted :
  exists dom s e s', state_ok s = true /\ nums_clean ex_num_text s /\
    parse MFile (s2t (serialize ex_num_text s)) = Ok (SList (Atom (head_tok s) :: e)) /\
    parse_state dom ex_parse_num None e = Ok s' /\ state_eq ex_num_text s' s = false.
Proof. exact library_readback_refuted. Qed.

(* ---------- the hypotheses are satisfiable ---------- *)
Theorem C14_example :
  state_ok ex_s = true /\ state_ok ex_t = true /\ nums_ok ex_num_text ex_parse_num (values ex_s ++ values ex_t) /\
  nums_clean ex_num_text ex_s /\ nums_clean ex_num_text ex_t /\
  state_eq ex_num_text ex_s ex_t = true /\ state_eq ex_num_text ex_s ex_u = false.
Proof. exact ex_hypotheses. Qed.

Theorem C14_build_example :
  Forall gp_wf (comp_facts ex_components) /\ NoDup (map pf_untyped (comp_fluents ex_components)) /\
  Permutation ex_components (rev ex_components) /\
  st_preds (build_state true ex_components) <> st_preds (build_state true (rev ex_components)).
Proof. exact ex_build_hypotheses. Qed.

Print Assumptions C14_eq.
Print Assumptions C14_eq_int_refuted.
Print Assumptions C14_eq_unset_refuted.
Print Assumptions C14_spec_reflect.
Print Assumptions C14_eq_refl.
Print Assumptions C14_eq_sym.
Print Assumptions C14_eq_trans.
Print Assumptions C14_eq_order.
Print Assumptions C14_build_order.
Print Assumptions C14_eq_ieee_nan.
Print Assumptions C14_eq_ieee_zero.
Print Assumptions C14_eq_ieee_witness.
Print Assumptions C14_copy_value.
Print Assumptions C14_copy.
Print Assumptions C14_copy_independent.
Print Assumptions C14_mutate_discard.
Print Assumptions C14_mutate_discard_absent.
Print Assumptions C14_mutate_add.
Print Assumptions C14_mutate_discard_add_back.
Print Assumptions C14_mutate_copy_keeps_value.
Print Assumptions C14_mutate_set_value_same.
Print Assumptions C14_mutate_set_value.
Print Assumptions C14_mutate_set_value_example.
Print Assumptions C14_mutate_example.
Print Assumptions C14_serialize_sorted.
Print Assumptions C14_serialize_parse.
Print Assumptions C14_serialize_text_equal.
Print Assumptions C14_serialize_set_order.
Print Assumptions C14_serialize_reads_back.
Print Assumptions C14_serialize.
Print Assumptions C14_typed_serialize_view.
Print Assumptions C14_typed_serialize_reads_back.
Print Assumptions C14_typed_example.
Print Assumptions C14_library_readback_partial.
Print Assumptions C14_library_readback_refuted.
Print Assumptions C14_example.
Print Assumptions C14_build_example.
