(* Property C14 -- states behave as values: equality, copy and serialization agree.
   Statements only; proofs live in Proofs/C14_*.v. *)
From Coq Require Import List Ascii String Bool PrimFloat.
From Verif Require Import Base.Result Base.Str Base.Sexp Base.PyDict Base.Float Model.State Proofs.C14_Eq.
Import ListNotations.

Theorem C14_eq_refl : forall (num_text : float -> string) s, state_eq num_text s s = true.
Proof. exact state_eq_refl. Qed.

Theorem C14_eq_sym : forall (num_text : float -> string) s t, state_eq num_text s t = state_eq num_text t s.
Proof. exact state_eq_sym. Qed.

Theorem C14_eq_trans : forall (num_text : float -> string) s t u,
  state_eq num_text s t = true -> state_eq num_text t u = true -> state_eq num_text s u = true.
Proof. exact state_eq_trans. Qed.

Print Assumptions C14_eq_refl.
Print Assumptions C14_eq_sym.
Print Assumptions C14_eq_trans.
