(* Property C05 -- problem text is parsed faithfully and ill-formed facts are rejected.
   Statements only; proofs live in Proofs/C05_*.v.

   Setting.  [e] is the token tree of a problem text (the reader is C11's), [dom] any parsed domain
   ([dom_ok]: the dict invariants of a parsed Domain), [num] is float() ([num_ok]: no operator is a numeral).
   [read_problem num e = Some sp] says that e is a problem of the grammar of Spec/Problem.v and what it declares;
   [wf_sproblem num (vocab_of dom) sp] is the property's notion of well-formed (matching domain name, declared
   object types, every fact / fluent / goal literal / fluent of a numeric goal: declared predicate or function,
   right arity, arguments that are declared objects or constants of a conforming type; numerals);
   [spec_dump num sp] is what the text says and [dump_problem pb] what the parsed problem contains
   (objects with types in order, fact set, fluent map, goal literals in order, numeric goals as a multiset).
   The model is Model/Problem.v; [cfg_fixed] = [cfg_gt false] is the tree with the fixes D19a-c and c7c8534, [cfg_gt true] =
   [Model.Problem.cfg_current] the tree as it is now (also D19e = 43c9edb, the partial repair of D19d).

   FULL STATEMENTS (C05_iff_statement, C05_faithful_statement in Proofs/C05_Main.v):
     accepted <-> well formed;   accepted -> dump equivalent to what the text says.
   They are FALSE for the current code:
     C05_iff_refuted       finding D19d  numeric goals accept undeclared / ill-typed arguments
     C05_accepts_refuted   finding D07   a well-formed numeric goal over a fluent with a repeated argument is refused
     C05_faithful_refuted  finding D07   repeated arguments of initial fluents collapse
   and were false in more ways on the pinned tree (C05_pinned_refuted: D19a, D19b, D19c, repaired).
   What holds, for every problem of the grammar, every domain, every numeral reader:
     C05_code_iff          accepted <-> the checks the code performs (exact characterisation of the model)
     C05_wf_split          well formed && no repeated argument in a numeric goal
                             = those checks && the arguments of numeric-goal fluents are well typed
     C05_accepts           well formed -> accepted, when no numeric goal repeats an argument (outside class D07)
     C05_iff_partial       accepted <-> well formed, outside the classes D19d and D07(goal)
     C05_rejects           every ill-formed text is rejected outside class D19d: every single-point corruption
     C05_faithful_partial  accepted -> faithful, when no initial fluent has a repeated argument (outside class D07)
     C05_faithful_safe     ... and more generally when every initial fluent is written the way the library prints it
                           (repeated names first: (f a a), (g a a b)) and no two different fluents of one function have
                           the same distinct arguments ([safe_repeats], decidable; C05_no_repeats_safe: it covers the
                           former; C05_safe_repeats_example in Proofs/C05_Main.v)
   REJECTION WITHOUT THE GRAMMAR (Proofs/C05_Outside.v): for ARBITRARY token trees l1, l2, i1, i2, rest around the
   offending part - texts the spec's grammar does not cover included - every configuration, domain and numeral reader:
     C05_rejects_other_domain       a (:domain X) section whose X is not the domain's name is rejected.  The names are
                                    compared character by character (after the tokenizer's lower-casing): fuel_transport
                                    is not fuel-transport, dom is not dom- / do-m / domm; a list or nothing for X too
     C05_rejects_goal_not_and       (:goal g) with g anything but a list that begins with "and": (:goal (p a)), (:goal z)
     C05_rejects_foreign_goal_item  a goal item whose head is neither a declared predicate nor = <= >= < > :
                                    (not (p a)), (or ...), (forall ...), undeclared predicates, a list as head
     C05_rejects_foreign_init_item  an init item whose head is neither "=" nor a declared predicate: (not (p a)),
                                    (at 5 (p a)), undeclared predicates
     C05_outside_examples_thm       texts of each class (seven of nine outside the spec's grammar), all rejected
   OBJECT SECTIONS OUTSIDE THE GRAMMAR (Spec/ProblemObjects.v, Proofs/C05_AnyObjects*.v).  The grammar of Spec/Problem.v asks
   for pairwise distinct object names and one-level (:private ...) groups between complete groups; the parser accepts more:
   a name may be declared again, and lists may be nested to any depth, with any head, in any place.  For EVERY token tree e
   standing for the (:objects ...) section, every type table and both values of the D19d flag:
     C05_objects_any_text       parse_objects returns [objects_of known e] - the table of the declarations the section makes,
                                in the order in which they take effect - and raises exactly when there is none (a dash not
                                followed by a type name; a type after a dash - also of a superseded declaration or of an
                                empty group - that is not declared)
     C05_repeated_objects       a name declared more than once has ONE entry: at the place of its FIRST declaration, with
                                the type of its LAST one (Python dict semantics)
     C05_private_flattened      nested lists are flattened: the section and the flat typed list of its groups ([flat_text],
                                every group closed by its dash, lists spliced where they stand; names pending before a list
                                stay pending) have the same groups, the same table and the same outcome
     C05_objects_normal_section an accepted section and its normal form "n1 - t1 n2 - t2 ..." ([objects_text], the form the
                                exporter writes) give the same table; the normal form is a typed list of the grammar
                                (read_objs) with pairwise distinct names
     C05_objects_section_rejects  a section without a table makes the whole text raise, whatever surrounds it
     C05_objects_normal_form    every accepted text is parsed exactly as its normal form [normal_objects e]
     C05_faithful_any_objects, C05_wf_any_objects   hence the theorems above, stated for texts of the grammar, speak about
                                every accepted text whose normal form is in the grammar: the parsed problem is faithful to
                                what the normal form says, and the normal form passes the checks of C05_code_iff_typed
     C05_any_objects_example_thm  o0 declared twice (t2, then t1 inside a list inside a list), names pending across a list:
                                outside the grammar, accepted, table and dump as stated; a superseded "- zz" is rejected
   THE CURRENT TREE, WITH THE PARTIAL REPAIR OF D19d (committed to /repo as 43c9edb = D19e; model configuration [cfg_gt true] =
   Model.Problem.cfg_current, which the correspondence check runs against; [cfg_gt false] is [cfg_fixed]): an argument of
   a numeric-goal fluent that IS a declared object / constant must have a conforming type.  Then
     C05_code_iff_typed      accepted <-> the checks of the repaired code ([wf_code_t true] = wf_code && goal_typed)
     C05_wf_split_typed      well formed && no repeated argument in a numeric goal
                               = those checks && the arguments of numeric-goal fluents are DECLARED names
     C05_accepts_typed, C05_iff_typed_partial, C05_faithful_typed   as above
     C05_rejects_typed       every ill-formed text whose numeric-goal arguments are all declared names is rejected
                             (in particular every ill-TYPED numeric-goal argument: the half of D19d the repair closes)
     C05_iff_typed_refuted   the full iff is still false: an UNDECLARED numeric-goal argument is still accepted
     C05_d19d_typed_example_thm  (= (f0 o2) 1) with o2 of a foreign type: accepted by cfg_fixed, rejected by cfg_gt true *)
From Coq Require Import List String Bool PrimFloat.
From Verif Require Import Base.Result Base.Str Base.Sexp Base.PyDict Model.Types Model.Domain Model.NumExpr Model.Problem
  Model.ProblemObs Spec.Pddl Spec.Grammar Spec.Problem
  Proofs.C05_Items Proofs.C05_Parse Proofs.C05_Faithful Proofs.C05_Repeats Proofs.C05_Examples Proofs.C05_Main
  Proofs.C05_Outside Spec.ProblemObjects Proofs.C05_Lemmas Proofs.C05_AnyObjects Proofs.C05_AnyObjectsMain.
Import ListNotations.
Open Scope string_scope.

Theorem C05_accepts : forall num dom, dom_ok dom -> num_ok num -> forall e sp,
  read_problem num e = Some sp -> goal_norepeat sp = true -> wf_sproblem num (vocab_of dom) sp = true ->
  exists pb, parse_problem cfg_fixed num dom e = Ok pb.
Proof. exact C05_accepts_lemma. Qed.

Theorem C05_code_iff : forall num dom, dom_ok dom -> num_ok num -> forall e sp,
  read_problem num e = Some sp ->
  ((exists pb, parse_problem cfg_fixed num dom e = Ok pb) <-> wf_code num dom sp = true).
Proof. exact accepted_iff_code. Qed.

Theorem C05_wf_split : forall num dom sp,
  wf_sproblem num (vocab_of dom) sp && goal_norepeat sp = wf_code num dom sp && goal_args_ok dom sp.
Proof. exact wf_split. Qed.

Theorem C05_iff_partial : forall num dom, dom_ok dom -> num_ok num -> forall e sp,
  read_problem num e = Some sp -> goal_args_ok dom sp = true -> goal_norepeat sp = true ->
  ((exists pb, parse_problem cfg_fixed num dom e = Ok pb) <-> wf_sproblem num (vocab_of dom) sp = true).
Proof. exact C05_iff_partial_lemma. Qed.

Theorem C05_rejects : forall num dom, dom_ok dom -> num_ok num -> forall e sp,
  read_problem num e = Some sp -> goal_args_ok dom sp = true -> wf_sproblem num (vocab_of dom) sp = false ->
  exists k, parse_problem cfg_fixed num dom e = Err k.
Proof. exact C05_rejects_lemma. Qed.

Theorem C05_faithful_partial : forall num dom, dom_ok dom -> num_ok num -> forall e sp pb,
  read_problem num e = Some sp -> no_repeats sp = true ->
  parse_problem cfg_fixed num dom e = Ok pb ->
  pdump_equiv (dump_problem pb) (spec_dump num sp) = true.
Proof. exact C05_faithful_partial_lemma. Qed.

Theorem C05_faithful_safe : forall num dom, dom_ok dom -> num_ok num -> forall e sp pb,
  read_problem num e = Some sp -> safe_repeats sp = true ->
  parse_problem cfg_fixed num dom e = Ok pb ->
  pdump_equiv (dump_problem pb) (spec_dump num sp) = true.
Proof. exact C05_faithful_safe_lemma. Qed.

Theorem C05_no_repeats_safe : forall sp, no_repeats sp = true -> safe_repeats sp = true.
Proof. exact no_repeats_safe. Qed.

Theorem C05_iff_refuted : ~ C05_iff_statement cfg_fixed.
Proof. exact C05_iff_refuted_lemma. Qed.

Theorem C05_faithful_refuted : ~ C05_faithful_statement cfg_fixed.
Proof. exact C05_faithful_refuted_lemma. Qed.

Theorem C05_accepts_refuted :
  exists sp k, read_problem ex_num d07_goal_problem = Some sp /\ wf_sproblem ex_num (vocab_of ex_dom) sp = true /\
               goal_args_ok ex_dom sp = true /\ parse_problem cfg_fixed ex_num ex_dom d07_goal_problem = Err k.
Proof. exact C05_accepts_refuted_lemma. Qed.

Theorem C05_pinned_refuted :
  ~ C05_faithful_statement cfg_pinned /\ ~ C05_iff_statement cfg_pinned /\
  (exists sp pb, read_problem ex_num d19c_problem = Some sp /\ wf_sproblem ex_num (vocab_of ex_dom) sp = false /\
                 goal_args_ok ex_dom sp = true /\ parse_problem cfg_pinned ex_num ex_dom d19c_problem = Ok pb).
Proof. exact C05_pinned_refuted_lemma. Qed.

Theorem C05_rejects_other_domain : forall cfg num dom l1 body l2, names_other_domain dom body = true ->
  exists k, parse_problem cfg num dom (SList (Atom "define" :: l1 ++ SList (Atom ":domain" :: body) :: l2)) = Err k.
Proof. exact rejects_other_domain. Qed.

Theorem C05_rejects_goal_not_and : forall cfg num dom l1 g rest l2, is_and_list g = false ->
  exists k, parse_problem cfg num dom (SList (Atom "define" :: l1 ++ SList (Atom ":goal" :: g :: rest) :: l2)) = Err k.
Proof. exact rejects_goal_not_and. Qed.

Theorem C05_rejects_foreign_goal_item : forall cfg num dom l1 i1 x i2 rest l2, foreign_goal_item dom x = true ->
  exists k, parse_problem cfg num dom
    (SList (Atom "define" :: l1 ++ SList (Atom ":goal" :: SList (Atom "and" :: i1 ++ x :: i2) :: rest) :: l2)) = Err k.
Proof. exact rejects_foreign_goal_item. Qed.

Theorem C05_rejects_foreign_init_item : forall cfg num dom l1 i1 x i2 l2, foreign_init_item dom x = true ->
  exists k, parse_problem cfg num dom (SList (Atom "define" :: l1 ++ SList (Atom ":init" :: i1 ++ x :: i2) :: l2)) = Err k.
Proof. exact rejects_foreign_init_item. Qed.

Theorem C05_outside_examples_thm :
  names_other_domain ex_dom [Atom "do-m"] = true /\ names_other_domain ex_dom [Atom "dom_"] = true /\
  names_other_domain ex_dom [SList [Atom "dom"]] = true /\ names_other_domain ex_dom [Atom "dom"] = false /\
  is_and_list (tok "(p0 o0)") = false /\ is_and_list (tok "z") = false /\ is_and_list (tok "(and (p0 o0))") = true /\
  foreign_goal_item ex_dom (tok "(not (p0 c0))") = true /\ foreign_goal_item ex_dom (tok "(or (p0 o0) (z))") = true /\
  foreign_goal_item ex_dom (tok "(p0 zz)") = false /\ foreign_goal_item ex_dom (tok "(>= (h) 1)") = false /\
  foreign_init_item ex_dom (tok "(not (z))") = true /\ foreign_init_item ex_dom (tok "(at 5 (p0 o0))") = true /\
  foreign_init_item ex_dom (tok "(= (h) 1)") = false /\
  forallb (fun e => negb (is_ok (parse_problem cfg_fixed ex_num ex_dom e))) outside_examples = true /\
  map (fun e => match read_problem ex_num e with Some _ => true | None => false end) outside_examples
    = [true; true; false; false; false; false; false; false; false].
Proof. exact C05_outside_examples. Qed.

Theorem C05_code_iff_typed : forall num dom, dom_ok dom -> num_ok num -> forall e sp,
  read_problem num e = Some sp ->
  ((exists pb, parse_problem (cfg_gt true) num dom e = Ok pb) <-> wf_code_t true num dom sp = true).
Proof. exact accepted_iff_code_typed. Qed.

Theorem C05_wf_split_typed : forall num dom, dom_ok dom -> forall sp,
  wf_sproblem num (vocab_of dom) sp && goal_norepeat sp = wf_code_t true num dom sp && goal_args_declared dom sp.
Proof. exact wf_split_typed. Qed.

Theorem C05_accepts_typed : forall num dom, dom_ok dom -> num_ok num -> forall e sp,
  read_problem num e = Some sp -> goal_norepeat sp = true -> wf_sproblem num (vocab_of dom) sp = true ->
  exists pb, parse_problem (cfg_gt true) num dom e = Ok pb.
Proof. exact C05_accepts_typed_lemma. Qed.

Theorem C05_iff_typed_partial : forall num dom, dom_ok dom -> num_ok num -> forall e sp,
  read_problem num e = Some sp -> goal_args_declared dom sp = true -> goal_norepeat sp = true ->
  ((exists pb, parse_problem (cfg_gt true) num dom e = Ok pb) <-> wf_sproblem num (vocab_of dom) sp = true).
Proof. exact C05_iff_typed_lemma. Qed.

Theorem C05_rejects_typed : forall num dom, dom_ok dom -> num_ok num -> forall e sp,
  read_problem num e = Some sp -> goal_args_declared dom sp = true -> wf_sproblem num (vocab_of dom) sp = false ->
  exists k, parse_problem (cfg_gt true) num dom e = Err k.
Proof. exact C05_rejects_typed_lemma. Qed.

Theorem C05_faithful_typed : forall num dom, dom_ok dom -> num_ok num -> forall e sp pb,
  read_problem num e = Some sp -> safe_repeats sp = true ->
  parse_problem (cfg_gt true) num dom e = Ok pb ->
  pdump_equiv (dump_problem pb) (spec_dump num sp) = true.
Proof. exact C05_faithful_typed_lemma. Qed.

Theorem C05_iff_typed_refuted : ~ C05_iff_statement (cfg_gt true).
Proof. exact C05_iff_typed_refuted_lemma. Qed.

Theorem C05_d19d_typed_example_thm :
  is_ok (parse_problem cfg_fixed ex_num ex_dom d19d_typed_problem) = true /\
  is_ok (parse_problem (cfg_gt true) ex_num ex_dom d19d_typed_problem) = false /\
  is_ok (parse_problem (cfg_gt true) ex_num ex_dom d19d_problem) = true /\
  is_ok (parse_problem (cfg_gt true) ex_num ex_dom ex_problem) = true /\
  exists sp, read_problem ex_num d19d_typed_problem = Some sp /\ goal_args_declared ex_dom sp = true /\
             goal_args_ok ex_dom sp = false /\ wf_sproblem ex_num (vocab_of ex_dom) sp = false.
Proof. exact C05_d19d_typed_example. Qed.

(* the hypotheses are satisfiable by a non-trivial problem, and its single-point corruptions are ill formed *)
Theorem C05_nonvacuous_thm :
  dom_ok ex_dom /\ num_ok ex_num /\
  exists sp, read_problem ex_num ex_problem = Some sp /\ wf_sproblem ex_num (vocab_of ex_dom) sp = true /\
             goal_args_ok ex_dom sp = true /\ goal_norepeat sp = true /\ no_repeats sp = true /\
             List.length (sp_objects sp) = 4 /\ List.length (sp_facts sp) = 4 /\ List.length (sp_fluents sp) = 3 /\
             List.length (sp_goal sp) = 1 /\ List.length (sp_goal_num sp) = 2.
Proof. exact (conj ex_dom_ok (conj ex_num_ok C05_nonvacuous)). Qed.

(* ---------- object sections outside the grammar ---------- *)
Theorem C05_objects_any_text : forall gt tt e,
  res_rel (parse_objects_sx (cfg_gt gt) tt e) (objects_of (type_known tt) e).
Proof. exact parse_objects_any. Qed.

Theorem C05_repeated_objects : forall gt tt e gs,
  groups_sx e = Some gs -> forallb (fun g : ogroup => type_known tt (snd g)) gs = true ->
  exists os, parse_objects_sx (cfg_gt gt) tt e = Ok os /\
             map fst os = firsts (map fst (decl_pairs gs)) /\
             forall n, In n (map fst os) -> lookup n os = lookup n (rev (decl_pairs gs)).
Proof. exact repeated_objects_lemma. Qed.

Theorem C05_private_flattened : forall gt tt e gs k,
  groups_sx e = Some gs ->
  groups_sx (SList (Atom k :: flat_text gs)) = Some (gs ++ [([], "object")])%list /\
  objects_of (type_known tt) (SList (Atom k :: flat_text gs)) = objects_of (type_known tt) e /\
  res_rel (parse_objects_sx (cfg_gt gt) tt e) (objects_of (type_known tt) e) /\
  res_rel (parse_objects_sx (cfg_gt gt) tt (SList (Atom k :: flat_text gs))) (objects_of (type_known tt) e).
Proof. exact private_flattened_lemma. Qed.

Theorem C05_objects_normal_section : forall gt tt k body os,
  parse_objects_sx (cfg_gt gt) tt (SList (Atom k :: body)) = Ok os ->
  parse_objects_sx (cfg_gt gt) tt (SList (Atom k :: objects_text os)) = Ok os /\
  objects_of (fun _ => true) (SList (Atom k :: body)) = Some os /\
  read_objs (objects_text os) [] = Some os /\ NoDup (map fst os).
Proof. exact parse_objects_normal. Qed.

Theorem C05_objects_section_rejects : forall gt num dom l1 body l2,
  objects_of (type_known (d_types dom)) (SList (Atom ":objects" :: body)) = None ->
  exists k, parse_problem (cfg_gt gt) num dom (SList (Atom "define" :: l1 ++ SList (Atom ":objects" :: body) :: l2)) = Err k.
Proof. exact objects_section_rejects. Qed.

Theorem C05_objects_normal_form : forall gt num dom e pb,
  parse_problem (cfg_gt gt) num dom e = Ok pb -> parse_problem (cfg_gt gt) num dom (normal_objects e) = Ok pb.
Proof. exact parse_problem_normal_objects. Qed.

Theorem C05_faithful_any_objects : forall num dom, dom_ok dom -> num_ok num -> forall e sp pb,
  parse_problem (cfg_gt true) num dom e = Ok pb ->
  read_problem num (normal_objects e) = Some sp -> safe_repeats sp = true ->
  pdump_equiv (dump_problem pb) (spec_dump num sp) = true.
Proof. exact C05_faithful_any_objects_lemma. Qed.

Theorem C05_wf_any_objects : forall num dom, dom_ok dom -> num_ok num -> forall e sp pb,
  parse_problem (cfg_gt true) num dom e = Ok pb ->
  read_problem num (normal_objects e) = Some sp ->
  wf_code_t true num dom sp = true /\
  (goal_args_declared dom sp = true -> goal_norepeat sp = true -> wf_sproblem num (vocab_of dom) sp = true).
Proof. exact C05_wf_any_objects_lemma. Qed.

Theorem C05_any_objects_example_thm :
  read_problem ex_num any_objects_problem = None /\
  objects_of (type_known (d_types ex_dom)) (objects_section_of any_objects_problem) = Some any_objects_table /\
  (exists pb, parse_problem (cfg_gt true) ex_num ex_dom any_objects_problem = Ok pb /\ pb_objects pb = any_objects_table) /\
  (exists sp pb, read_problem ex_num (normal_objects any_objects_problem) = Some sp /\ sp_objects sp = any_objects_table /\
                 wf_sproblem ex_num (vocab_of ex_dom) sp = true /\ safe_repeats sp = true /\
                 parse_problem (cfg_gt true) ex_num ex_dom any_objects_problem = Ok pb /\
                 pdump_equiv (dump_problem pb) (spec_dump ex_num sp) = true) /\
  objects_of (type_known (d_types ex_dom)) (objects_section_of any_objects_bad_type) = None /\
  objects_of (fun _ => true) (objects_section_of any_objects_bad_type) = Some [("o0", "t1")] /\
  is_ok (parse_problem (cfg_gt true) ex_num ex_dom any_objects_bad_type) = false /\
  objects_of (fun _ => true) (objects_section_of any_objects_dangling_dash) = None /\
  is_ok (parse_problem (cfg_gt true) ex_num ex_dom any_objects_dangling_dash) = false.
Proof. exact C05_any_objects_example. Qed.

Print Assumptions C05_accepts.
Print Assumptions C05_code_iff.
Print Assumptions C05_wf_split.
Print Assumptions C05_iff_partial.
Print Assumptions C05_rejects.
Print Assumptions C05_faithful_partial.
Print Assumptions C05_faithful_safe.
Print Assumptions C05_no_repeats_safe.
Print Assumptions C05_iff_refuted.
Print Assumptions C05_faithful_refuted.
Print Assumptions C05_accepts_refuted.
Print Assumptions C05_pinned_refuted.
Print Assumptions C05_nonvacuous_thm.
Print Assumptions C05_rejects_other_domain.
Print Assumptions C05_rejects_goal_not_and.
Print Assumptions C05_rejects_foreign_goal_item.
Print Assumptions C05_rejects_foreign_init_item.
Print Assumptions C05_outside_examples_thm.
Print Assumptions C05_code_iff_typed.
Print Assumptions C05_wf_split_typed.
Print Assumptions C05_accepts_typed.
Print Assumptions C05_iff_typed_partial.
Print Assumptions C05_rejects_typed.
Print Assumptions C05_faithful_typed.
Print Assumptions C05_iff_typed_refuted.
Print Assumptions C05_d19d_typed_example_thm.
Print Assumptions C05_objects_any_text.
Print Assumptions C05_repeated_objects.
Print Assumptions C05_private_flattened.
Print Assumptions C05_objects_normal_section.
Print Assumptions C05_objects_section_rejects.
Print Assumptions C05_objects_normal_form.
Print Assumptions C05_faithful_any_objects.
Print Assumptions C05_wf_any_objects.
Print Assumptions C05_any_objects_example_thm.
