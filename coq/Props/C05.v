(* Property C05 -- problem text is parsed faithfully and ill-formed facts are rejected.
   Statements only; proofs live in Proofs/C05_*.v.

   Setting.  [e] is the token tree of a problem text (the reader is C11's), [dom] any parsed domain
   ([dom_ok]: the dict invariants of a parsed Domain), [num] is float() ([num_ok]: no operator is a numeral).
   [read_problem num e = Some sp] says that e is a problem of the grammar of Spec/Problem.v and what it declares;
   [wf_sproblem num (vocab_of dom) sp] is the property's notion of well-formed (matching domain name, declared
   object types, every fact / fluent / goal literal / fluent of a numeric goal: declared predicate or function,
   right arity, arguments that are declared objects or constants of a conforming type; numerals);
   [spec_dump num sp] is what the text says and [dump_problem pb] what the parsed problem contains
   (objects with types in order, fact set, fluent map, goal literals in order, numeric goals as a multiset).
   The model is Model/Problem.v in the configuration [cfg_fixed] = the current tree (fixes D19a-c, c7c8534).

   FULL STATEMENTS (C05_iff_statement, C05_faithful_statement in Proofs/C05_Main.v):
     accepted <-> well formed;   accepted -> dump equivalent to what the text says.
   They are FALSE for the current code:
     C05_iff_refuted       finding D19d  numeric goals accept undeclared / ill-typed arguments
     C05_accepts_refuted   finding D07   a well-formed numeric goal over a fluent with a repeated argument is refused
     C05_faithful_refuted  finding D07   repeated arguments of initial fluents collapse
   and were false in more ways on the pinned tree (C05_pinned_refuted: D19a, D19b, D19c, repaired).
   What holds, for every problem of the grammar, every domain, every numeral reader:
     C05_code_iff          accepted <-> the checks the code performs (exact characterisation of the model)
     C05_wf_split          well formed && no repeated argument in a numeric goal
                             = those checks && the arguments of numeric-goal fluents are well typed
     C05_accepts           well formed -> accepted, when no numeric goal repeats an argument (outside class D07)
     C05_iff_partial       accepted <-> well formed, outside the classes D19d and D07(goal)
     C05_rejects           every ill-formed text is rejected outside class D19d: every single-point corruption
     C05_faithful_partial  accepted -> faithful, when no initial fluent has a repeated argument (outside class D07)
     C05_faithful_safe     ... and more generally when every initial fluent is written the way the library prints it
                           (repeated names first: (f a a), (g a a b)) and no two different fluents of one function have
                           the same distinct arguments ([safe_repeats], decidable; C05_no_repeats_safe: it covers the
                           former; C05_safe_repeats_example in Proofs/C05_Main.v)
   REJECTION WITHOUT THE GRAMMAR (Proofs/C05_Outside.v): for ARBITRARY token trees l1, l2, i1, i2, rest around the
   offending part - texts the spec's grammar does not cover included - every configuration, domain and numeral reader:
     C05_rejects_other_domain       a (:domain X) section whose X is not the domain's name is rejected.  The names are
                                    compared character by character (after the tokenizer's lower-casing): fuel_transport
                                    is not fuel-transport, dom is not dom- / do-m / domm; a list or nothing for X too
     C05_rejects_goal_not_and       (:goal g) with g anything but a list that begins with "and": (:goal (p a)), (:goal z)
     C05_rejects_foreign_goal_item  a goal item whose head is neither a declared predicate nor = <= >= < > :
                                    (not (p a)), (or ...), (forall ...), undeclared predicates, a list as head
     C05_rejects_foreign_init_item  an init item whose head is neither "=" nor a declared predicate: (not (p a)),
                                    (at 5 (p a)), undeclared predicates
     C05_outside_examples_thm       texts of each class (seven of nine outside the spec's grammar), all rejected
   THE TREE WITH THE REPAIR PROPOSED FOR D19d (proposed_fixes/D19d.diff, not in /repo yet; model configuration [cfg_gt true],
   [cfg_gt false] being [cfg_fixed]; Model.Problem.cfg_current says which one the correspondence check runs): an argument of
   a numeric-goal fluent that IS a declared object / constant must have a conforming type.  Then
     C05_code_iff_typed      accepted <-> the checks of the repaired code ([wf_code_t true] = wf_code && goal_typed)
     C05_wf_split_typed      well formed && no repeated argument in a numeric goal
                               = those checks && the arguments of numeric-goal fluents are DECLARED names
     C05_accepts_typed, C05_iff_typed_partial, C05_faithful_typed   as above
     C05_rejects_typed       every ill-formed text whose numeric-goal arguments are all declared names is rejected
                             (in particular every ill-TYPED numeric-goal argument: the half of D19d the repair closes)
     C05_iff_typed_refuted   the full iff is still false: an UNDECLARED numeric-goal argument is still accepted
     C05_d19d_typed_example_thm  (= (f0 o2) 1) with o2 of a foreign type: accepted by cfg_fixed, rejected by cfg_gt true *)
From Coq Require Import List String Bool PrimFloat.
From Verif Require Import Base.Result Base.Str Base.Sexp Base.PyDict Model.Domain Model.NumExpr Model.Problem
  Model.ProblemObs Spec.Pddl Spec.Grammar Spec.Problem
  Proofs.C05_Items Proofs.C05_Parse Proofs.C05_Faithful Proofs.C05_Repeats Proofs.C05_Examples Proofs.C05_Main
  Proofs.C05_Outside.
Import ListNotations.
Open Scope string_scope.

Theorem C05_accepts : forall num dom, dom_ok dom -> num_ok num -> forall e sp,
  read_problem num e = Some sp -> goal_norepeat sp = true -> wf_sproblem num (vocab_of dom) sp = true ->
  exists pb, parse_problem cfg_fixed num dom e = Ok pb.
Proof. exact C05_accepts_lemma. Qed.

Theorem C05_code_iff : forall num dom, dom_ok dom -> num_ok num -> forall e sp,
  read_problem num e = Some sp ->
  ((exists pb, parse_problem cfg_fixed num dom e = Ok pb) <-> wf_code num dom sp = true).
Proof. exact accepted_iff_code. Qed.

Theorem C05_wf_split : forall num dom sp,
  wf_sproblem num (vocab_of dom) sp && goal_norepeat sp = wf_code num dom sp && goal_args_ok dom sp.
Proof. exact wf_split. Qed.

Theorem C05_iff_partial : forall num dom, dom_ok dom -> num_ok num -> forall e sp,
  read_problem num e = Some sp -> goal_args_ok dom sp = true -> goal_norepeat sp = true ->
  ((exists pb, parse_problem cfg_fixed num dom e = Ok pb) <-> wf_sproblem num (vocab_of dom) sp = true).
Proof. exact C05_iff_partial_lemma. Qed.

Theorem C05_rejects : forall num dom, dom_ok dom -> num_ok num -> forall e sp,
  read_problem num e = Some sp -> goal_args_ok dom sp = true -> wf_sproblem num (vocab_of dom) sp = false ->
  exists k, parse_problem cfg_fixed num dom e = Err k.
Proof. exact C05_rejects_lemma. Qed.

Theorem C05_faithful_partial : forall num dom, dom_ok dom -> num_ok num -> forall e sp pb,
  read_problem num e = Some sp -> no_repeats sp = true ->
  parse_problem cfg_fixed num dom e = Ok pb ->
  pdump_equiv (dump_problem pb) (spec_dump num sp) = true.
Proof. exact C05_faithful_partial_lemma. Qed.

Theorem C05_faithful_safe : forall num dom, dom_ok dom -> num_ok num -> forall e sp pb,
  read_problem num e = Some sp -> safe_repeats sp = true ->
  parse_problem cfg_fixed num dom e = Ok pb ->
  pdump_equiv (dump_problem pb) (spec_dump num sp) = true.
Proof. exact C05_faithful_safe_lemma. Qed.

Theorem C05_no_repeats_safe : forall sp, no_repeats sp = true -> safe_repeats sp = true.
Proof. exact no_repeats_safe. Qed.

Theorem C05_iff_refuted : ~ C05_iff_statement cfg_fixed.
Proof. exact C05_iff_refuted_lemma. Qed.

Theorem C05_faithful_refuted : ~ C05_faithful_statement cfg_fixed.
Proof. exact C05_faithful_refuted_lemma. Qed.

Theorem C05_accepts_refuted :
  exists sp k, read_problem ex_num d07_goal_problem = Some sp /\ wf_sproblem ex_num (vocab_of ex_dom) sp = true /\
               goal_args_ok ex_dom sp = true /\ parse_problem cfg_fixed ex_num ex_dom d07_goal_problem = Err k.
Proof. exact C05_accepts_refuted_lemma. Qed.

Theorem C05_pinned_refuted :
  ~ C05_faithful_statement cfg_pinned /\ ~ C05_iff_statement cfg_pinned /\
  (exists sp pb, read_problem ex_num d19c_problem = Some sp /\ wf_sproblem ex_num (vocab_of ex_dom) sp = false /\
                 goal_args_ok ex_dom sp = true /\ parse_problem cfg_pinned ex_num ex_dom d19c_problem = Ok pb).
Proof. exact C05_pinned_refuted_lemma. Qed.

Theorem C05_rejects_other_domain : forall cfg num dom l1 body l2, names_other_domain dom body = true ->
  exists k, parse_problem cfg num dom (SList (Atom "define" :: l1 ++ SList (Atom ":domain" :: body) :: l2)) = Err k.
Proof. exact rejects_other_domain. Qed.

Theorem C05_rejects_goal_not_and : forall cfg num dom l1 g rest l2, is_and_list g = false ->
  exists k, parse_problem cfg num dom (SList (Atom "define" :: l1 ++ SList (Atom ":goal" :: g :: rest) :: l2)) = Err k.
Proof. exact rejects_goal_not_and. Qed.

Theorem C05_rejects_foreign_goal_item : forall cfg num dom l1 i1 x i2 rest l2, foreign_goal_item dom x = true ->
  exists k, parse_problem cfg num dom
    (SList (Atom "define" :: l1 ++ SList (Atom ":goal" :: SList (Atom "and" :: i1 ++ x :: i2) :: rest) :: l2)) = Err k.
Proof. exact rejects_foreign_goal_item. Qed.

Theorem C05_rejects_foreign_init_item : forall cfg num dom l1 i1 x i2 l2, foreign_init_item dom x = true ->
  exists k, parse_problem cfg num dom (SList (Atom "define" :: l1 ++ SList (Atom ":init" :: i1 ++ x :: i2) :: l2)) = Err k.
Proof. exact rejects_foreign_init_item. Qed.

Theorem C05_outside_examples_thm :
  names_other_domain ex_dom [Atom "do-m"] = true /\ names_other_domain ex_dom [Atom "dom_"] = true /\
  names_other_domain ex_dom [SList [Atom "dom"]] = true /\ names_other_domain ex_dom [Atom "dom"] = false /\
  is_and_list (tok "(p0 o0)") = false /\ is_and_list (tok "z") = false /\ is_and_list (tok "(and (p0 o0))") = true /\
  foreign_goal_item ex_dom (tok "(not (p0 c0))") = true /\ foreign_goal_item ex_dom (tok "(or (p0 o0) (z))") = true /\
  foreign_goal_item ex_dom (tok "(p0 zz)") = false /\ foreign_goal_item ex_dom (tok "(>= (h) 1)") = false /\
  foreign_init_item ex_dom (tok "(not (z))") = true /\ foreign_init_item ex_dom (tok "(at 5 (p0 o0))") = true /\
  foreign_init_item ex_dom (tok "(= (h) 1)") = false /\
  forallb (fun e => negb (is_ok (parse_problem cfg_fixed ex_num ex_dom e))) outside_examples = true /\
  map (fun e => match read_problem ex_num e with Some _ => true | None => false end) outside_examples
    = [true; true; false; false; false; false; false; false; false].
Proof. exact C05_outside_examples. Qed.

Theorem C05_code_iff_typed : forall num dom, dom_ok dom -> num_ok num -> forall e sp,
  read_problem num e = Some sp ->
  ((exists pb, parse_problem (cfg_gt true) num dom e = Ok pb) <-> wf_code_t true num dom sp = true).
Proof. exact accepted_iff_code_typed. Qed.

Theorem C05_wf_split_typed : forall num dom, dom_ok dom -> forall sp,
  wf_sproblem num (vocab_of dom) sp && goal_norepeat sp = wf_code_t true num dom sp && goal_args_declared dom sp.
Proof. exact wf_split_typed. Qed.

Theorem C05_accepts_typed : forall num dom, dom_ok dom -> num_ok num -> forall e sp,
  read_problem num e = Some sp -> goal_norepeat sp = true -> wf_sproblem num (vocab_of dom) sp = true ->
  exists pb, parse_problem (cfg_gt true) num dom e = Ok pb.
Proof. exact C05_accepts_typed_lemma. Qed.

Theorem C05_iff_typed_partial : forall num dom, dom_ok dom -> num_ok num -> forall e sp,
  read_problem num e = Some sp -> goal_args_declared dom sp = true -> goal_norepeat sp = true ->
  ((exists pb, parse_problem (cfg_gt true) num dom e = Ok pb) <-> wf_sproblem num (vocab_of dom) sp = true).
Proof. exact C05_iff_typed_lemma. Qed.

Theorem C05_rejects_typed : forall num dom, dom_ok dom -> num_ok num -> forall e sp,
  read_problem num e = Some sp -> goal_args_declared dom sp = true -> wf_sproblem num (vocab_of dom) sp = false ->
  exists k, parse_problem (cfg_gt true) num dom e = Err k.
Proof. exact C05_rejects_typed_lemma. Qed.

Theorem C05_faithful_typed : forall num dom, dom_ok dom -> num_ok num -> forall e sp pb,
  read_problem num e = Some sp -> safe_repeats sp = true ->
  parse_problem (cfg_gt true) num dom e = Ok pb ->
  pdump_equiv (dump_problem pb) (spec_dump num sp) = true.
Proof. exact C05_faithful_typed_lemma. Qed.

Theorem C05_iff_typed_refuted : ~ C05_iff_statement (cfg_gt true).
Proof. exact C05_iff_typed_refuted_lemma. Qed.

Theorem C05_d19d_typed_example_thm :
  is_ok (parse_problem cfg_fixed ex_num ex_dom d19d_typed_problem) = true /\
  is_ok (parse_problem (cfg_gt true) ex_num ex_dom d19d_typed_problem) = false /\
  is_ok (parse_problem (cfg_gt true) ex_num ex_dom d19d_problem) = true /\
  is_ok (parse_problem (cfg_gt true) ex_num ex_dom ex_problem) = true /\
  exists sp, read_problem ex_num d19d_typed_problem = Some sp /\ goal_args_declared ex_dom sp = true /\
             goal_args_ok ex_dom sp = false /\ wf_sproblem ex_num (vocab_of ex_dom) sp = false.
Proof. exact C05_d19d_typed_example. Qed.

(* the hypotheses are satisfiable by a non-trivial problem, and its single-point corruptions are ill formed *)
Theorem C05_nonvacuous_thm :
  dom_ok ex_dom /\ num_ok ex_num /\
  exists sp, read_problem ex_num ex_problem = Some sp /\ wf_sproblem ex_num (vocab_of ex_dom) sp = true /\
             goal_args_ok ex_dom sp = true /\ goal_norepeat sp = true /\ no_repeats sp = true /\
             List.length (sp_objects sp) = 4 /\ List.length (sp_facts sp) = 4 /\ List.length (sp_fluents sp) = 3 /\
             List.length (sp_goal sp) = 1 /\ List.length (sp_goal_num sp) = 2.
Proof. exact (conj ex_dom_ok (conj ex_num_ok C05_nonvacuous)). Qed.

Print Assumptions C05_accepts.
Print Assumptions C05_code_iff.
Print Assumptions C05_wf_split.
Print Assumptions C05_iff_partial.
Print Assumptions C05_rejects.
Print Assumptions C05_faithful_partial.
Print Assumptions C05_faithful_safe.
Print Assumptions C05_no_repeats_safe.
Print Assumptions C05_iff_refuted.
Print Assumptions C05_faithful_refuted.
Print Assumptions C05_accepts_refuted.
Print Assumptions C05_pinned_refuted.
Print Assumptions C05_nonvacuous_thm.
Print Assumptions C05_rejects_other_domain.
Print Assumptions C05_rejects_goal_not_and.
Print Assumptions C05_rejects_foreign_goal_item.
Print Assumptions C05_rejects_foreign_init_item.
Print Assumptions C05_outside_examples_thm.
Print Assumptions C05_code_iff_typed.
Print Assumptions C05_wf_split_typed.
Print Assumptions C05_accepts_typed.
Print Assumptions C05_iff_typed_partial.
Print Assumptions C05_rejects_typed.
Print Assumptions C05_faithful_typed.
Print Assumptions C05_iff_typed_refuted.
Print Assumptions C05_d19d_typed_example_thm.
