(* Property C08 -- exporting a parsed domain to PDDL text and parsing that text again yields a domain with the same
   vocabulary whose actions behave identically; numeric constants survive up to the exporter's decimals; a second
   round changes nothing.  Statements only; proofs in Proofs/C08_*.v.

   Objects.
   * [export_domain dpre deff m] (Model/DomainExporter.v) is the token tree of the text DomainExporter writes for the
     domain object m: conditions with dpre decimals (pddl_precondition.DEFAULT_DECIMAL_DIGITS), numeric effects with
     deff decimals (numerical_expression.DEFAULT_DIGITS).  Text layout is not modelled: every run of the check reads
     the implementation's text with the model's tokenizer (C11) and compares.
   * SET ORDERS.  A Python set of the object model is a list of [m] in iteration order, and [export_domain] prints
     lists in list order.  Every theorem below is stated for EVERY m, hence for every iteration order of every set
     (another order is another m): nothing is assumed about the order of operands, (in)equality pairs or effects.
   * [num : string -> option float] is CPython's float() (not modelled; its values are supplied with every case by
     the harness).  [rnd d x] = float (text of x with d decimals).
   * [rr_domain num dpre deff m] (Proofs/C08_Defs.v) is m with every constant x replaced by [rnd d x] (d = dpre or
     deff according to where x occurs) and with the type / constant tables in the order in which write_types /
     write_constants print them (grouped by parent).  Nothing else differs.
   * [wf_mdomain num dpre deff m]: decidable well-formedness - what the parser's own checks establish for a domain
     written in PDDL's section order (declared types / predicates / functions, distinct names, arguments in
     scope, no repeated argument (D07), comparison heads, 'and' roots, ...), every printed numeral is read by
     float(), and name hygiene: no type / constant is called '-', no predicate carries a keyword, and NO universal
     condition has a completely empty body (recorded finding D83, see C08_roundtrip_refuted).  The check evaluates
     [wf_mdomain] on the model's parse of every generated and every shipped domain (unit 'wf').

   FULL STATEMENT (for every parsed domain):  forall m in the range of parse_domain,
        parse (export m) = Ok m'  /\  vocabulary m' = vocabulary m  /\  behaviour m' = behaviour m.
   It is FALSE for the current library (C08_roundtrip_refuted: a universal condition with an empty body is printed
   as nothing - D83, open) and true on [wf_mdomain] (C08_roundtrip, C08_vocabulary, C08_behaviour_actions ... _successor),
   which the parser establishes for every text in PDDL's section order without empty quantifiers, up to name
   hygiene and two facts about float() (C08_range_action, C08_range_domain, C08_roundtrip_parsed). *)
From Coq Require Import List String Bool PrimFloat.
From Verif Require Import Base.Result Base.Str Base.Sexp Base.PyDict Base.Float
  Model.Tokenizer Model.Types Model.NumExpr Model.Domain Model.Exec Model.DomainExporter Spec.Pddl Spec.Arith
  Proofs.C12_Print
  Corr.Core
  Proofs.C08_Defs Proofs.C08_Domain Proofs.C08_Behaviour Proofs.C08_Idem Proofs.C08_Vocab Proofs.C08_Range Proofs.C08_RangeDom Proofs.C08_Perm Proofs.C08_Main.
Import ListNotations.
Open Scope string_scope.

(* Round trip: reading the exported text back succeeds and yields exactly [rr_domain m]: the same names,
   requirements, predicates, functions, action names, parameters, literals, (in)equality pairs, nesting and
   quantifiers, operand by operand in the same order; each numeric constant x comes back as float(its numeral). *)
Theorem C08_roundtrip : forall (num : numparser) (dpre deff : nat) (m : mdomain),
  wf_mdomain num dpre deff m = true ->
  parse_domain num (export_domain dpre deff m) = Ok (rr_domain num dpre deff m).
Proof. exact domain_roundtrip. Qed.

(* Every iteration order of the underlying sets: [perm_domain m m1] (Proofs/C08_Perm.v) says that m1 lists the
   operands of every condition, its (in)equality pairs and the discrete / numeric / conditional / universal effects
   of every action and of every 'when' in another order, independently at every nesting level (= the same Python
   object iterated in another order, e.g. the library's own sorted order or another PYTHONHASHSEED).
   Well-formedness does not depend on the order, so the round trip holds for every reordering of a well-formed
   (in particular: of every parsed) domain. *)
Theorem C08_set_orders : forall (num : numparser) (dpre deff : nat) (m m1 : mdomain),
  wf_mdomain num dpre deff m = true -> perm_domain m m1 ->
  wf_mdomain num dpre deff m1 = true /\
  parse_domain num (export_domain dpre deff m1) = Ok (rr_domain num dpre deff m1).
Proof. exact set_orders_roundtrip. Qed.

(* The hypotheses are satisfiable by a non-trivial domain (types in 3 levels, constants, nested or/and, forall with
   inequality, when, forall-when, 8 numeric constants one of which (0.125 in a condition) is not representable). *)
Theorem C08_example :
  ex_domain = Ok ex_m /\ wf_mdomain ex_num 2 4 ex_m = true /\
  parse_domain ex_num (export_domain 2 4 ex_m) = Ok (rr_domain ex_num 2 4 ex_m).
Proof. exact example_all. Qed.

(* Range of the parser (actions): every action the parser accepts, written with its sections in the order
   :parameters, :precondition, :effect, satisfies wf_action with respect to the tables it was parsed against -
   nested and/or/forall conditions, (in)equalities, comparisons, when / forall-when and numeric effects included -
   provided no 'forall' of the text has an empty body (D83), no function is named like a comparison or assignment
   operator, and float() reads every numeral the exporter prints and no token starting with '<' or '>'.  (That the
   declaration tables are well-formed too is evaluated for every parsed domain by the check, unit 'wf'.) *)
Theorem C08_range_action : forall (num : numparser) (tt : typetable) (consts : pydict string)
    (preds funcs : pydict signature) (dpre deff : nat),
  (forall d, d = dpre \/ d = deff -> forall s x, num s = Some x -> num_ok num d x = true) ->
  (forall k, str_in k ("=" :: comparison_ops ++ assignment_ops) = true -> dget funcs k = None) ->
  (forall c r x, num (String c r) = Some x -> str_in (String c EmptyString) comparison_ops = false) ->
  forall n ps pre eff a,
    parse_action num tt consts preds funcs
      [Atom n; Atom ":parameters"; SList ps; Atom ":precondition"; pre; Atom ":effect"; eff] = Ok a ->
    no_vac pre = true -> no_vac eff = true ->
    wf_action num (type_known tt) (dmem consts) preds funcs dpre deff a = true.
Proof. exact parse_action_wf. Qed.

(* Range of the parser (whole domain): a domain text in PDDL's section order - (domain ..) [(:requirements ..)]
   [(:types ..)] [(:constants ..)] [(:predicates ..)] [(:functions ..)] (:action name :parameters .. :precondition ..
   :effect ..)* - that the parser accepts yields a domain object satisfying wf_mdomain, under the same hypotheses
   about float() and with name hygiene stated on the RESULT (no type is called '-', no predicate carries a reserved
   name, no function is named like an operator).  Hence, from text to text: *)
Theorem C08_range_domain : forall (num : numparser) (dpre deff : nat),
  (forall d, d = dpre \/ d = deff -> forall s x, num s = Some x -> num_ok num d x = true) ->
  (forall c r x, num (String c r) = Some x -> str_in (String c EmptyString) comparison_ops = false) ->
  forall e m,
    canonical e = true -> no_vac e = true -> parse_domain num e = Ok m ->
    forallb (fun kp => not_dash (fst kp)) (d_types m) = true ->
    forallb (fun ns => negb (str_in (fst ns) reserved_names)) (d_preds m) = true ->
    (forall k, str_in k ("=" :: comparison_ops ++ assignment_ops) = true -> dget (d_funcs m) k = None) ->
    wf_mdomain num dpre deff m = true.
Proof. exact parse_domain_wf. Qed.

Theorem C08_roundtrip_parsed : forall (num : numparser) (dpre deff : nat),
  (forall d, d = dpre \/ d = deff -> forall s x, num s = Some x -> num_ok num d x = true) ->
  (forall c r x, num (String c r) = Some x -> str_in (String c EmptyString) comparison_ops = false) ->
  forall e m,
    canonical e = true -> no_vac e = true -> parse_domain num e = Ok m ->
    forallb (fun kp => not_dash (fst kp)) (d_types m) = true ->
    forallb (fun ns => negb (str_in (fst ns) reserved_names)) (d_preds m) = true ->
    (forall k, str_in k ("=" :: comparison_ops ++ assignment_ops) = true -> dget (d_funcs m) k = None) ->
    parse_domain num (export_domain dpre deff m) = Ok (rr_domain num dpre deff m).
Proof. exact parsed_roundtrip. Qed.

(* ... and these hypotheses are satisfiable: the example's float() table is closed under printing with 2 and 4
   decimals, its text is canonical, has no empty quantifier and hygienic names. *)
Theorem C08_range_example :
  (forall d, d = 2 \/ d = 4 -> forall s x, ex_num s = Some x -> num_ok ex_num d x = true) /\
  (forall c r x, ex_num (String c r) = Some x -> str_in (String c EmptyString) comparison_ops = false) /\
  canonical ex_sexp = true /\ no_vac ex_sexp = true /\ parse_domain ex_num ex_sexp = Ok ex_m.
Proof. exact range_example_all. Qed.

(* Vocabulary: the re-read domain has the same types (with parents), constants (with types), predicates, functions
   and action signatures - the canonical vocabulary text the check compares (Corr.Core.model_vocab) is identical,
   for EVERY domain object (no hypothesis); name and requirements are unchanged too. *)
Theorem C08_vocabulary : forall (num : numparser) (dpre deff : nat) (m : mdomain),
  model_vocab (rr_domain num dpre deff m) = model_vocab m /\
  d_name (rr_domain num dpre deff m) = d_name m /\ d_reqs (rr_domain num dpre deff m) = d_reqs m.
Proof. exact vocabulary_same. Qed.

(* Behaviour, for constants representable at the printed precision (float(text of x) = x for every constant of the
   domain): the re-read domain has literally the same action table, and grounding, applicability and successor
   computed against the re-read domain (whose type and constant tables are regrouped) are identical to the
   original's for EVERY action, call, state, object table, tolerance, flag setting and visiting order. *)
Theorem C08_behaviour_actions : forall (num : numparser) (dpre deff : nat) (m : mdomain),
  (forall dx, In dx (domain_nums dpre deff m) -> representable num dx) ->
  d_actions (rr_domain num dpre deff m) = d_actions m.
Proof. exact actions_same. Qed.

Theorem C08_behaviour_ground : forall (num : numparser) (dpre deff : nat) (m : mdomain),
  wf_mdomain num dpre deff m = true ->
  forall a args, ground_action (rr_domain num dpre deff m) a args = ground_action m a args.
Proof. exact ground_same. Qed.

Theorem C08_behaviour_applicable : forall (num : numparser) (dpre deff : nat) (m : mdomain),
  wf_mdomain num dpre deff m = true ->
  forall eps objs ga s, is_applicable (rr_domain num dpre deff m) eps objs ga s = is_applicable m eps objs ga s.
Proof. exact applicable_same. Qed.

Theorem C08_behaviour_successor : forall (num : numparser) (dpre deff : nat) (m : mdomain),
  wf_mdomain num dpre deff m = true ->
  forall eps ga objs allow skip order uorder s,
    apply_op (rr_domain num dpre deff m) eps ga objs allow skip order uorder s =
    apply_op m eps ga objs allow skip order uorder s.
Proof. exact successor_same. Qed.

(* A second round changes nothing: when the values read back are themselves representable (float(text(y)) = y for
   y = float(text(x)), a fact about CPython's float() that the check re-tests on every numeral it sees), the
   re-read domain is well-formed again, and exporting and parsing it returns the very same domain object - so the
   second exported text is the export of the same object. *)
Theorem C08_idempotent : forall (num : numparser) (dpre deff : nat) (m : mdomain),
  wf_mdomain num dpre deff m = true ->
  (forall dx, In dx (domain_nums dpre deff m) -> stable num dx) ->
  parse_domain num (export_domain dpre deff (rr_domain num dpre deff m)) = Ok (rr_domain num dpre deff m).
Proof. exact second_round. Qed.

Theorem C08_idempotent_text : forall (num : numparser) (dpre deff : nat) (m : mdomain),
  wf_mdomain num dpre deff m = true ->
  (forall dx, In dx (domain_nums dpre deff m) -> stable num dx) ->
  forall m'', parse_domain num (export_domain dpre deff (rr_domain num dpre deff m)) = Ok m'' ->
              export_domain dpre deff m'' = export_domain dpre deff (rr_domain num dpre deff m).
Proof. exact second_export. Qed.

(* The hypothesis excluding empty universal conditions cannot be dropped (finding D83, open): a domain in the range
   of the parser whose export parses to a domain with DIFFERENT applicability: (forall (?q - a) (or)) is false as
   soon as an object of type a exists and is printed as nothing; (or (p ?x) (forall (?q - a) (and))) is true and
   becomes (or (p ?x)).  The witness is replayed on the implementation by the check (corpus case D83). *)
Theorem C08_roundtrip_refuted :
  exists (text : string) (m m' : mdomain),
    (do e <- Tokenizer.parse_string Tokenizer.MStr text; parse_domain no_num e) = Ok m /\
    parse_domain no_num (export_domain 2 4 m) = Ok m' /\
    applicable_in m "a1" ["o1"] [("o1", "a")] empty_state = Ok false /\
    applicable_in m' "a1" ["o1"] [("o1", "a")] empty_state = Ok true /\
    applicable_in m "a2" ["o1"] [("o1", "a")] empty_state = Ok true /\
    applicable_in m' "a2" ["o1"] [("o1", "a")] empty_state = Ok false.
Proof. exact refuted_all. Qed.

(* Numerals (C12, reused): the numeral printed for ANY constant with ANY number of decimals, read back exactly as a
   decimal, is within half a unit of the last printed digit of the constant's exact binary value. *)
Theorem C08_numeral : forall (digits : nat) (v : float), print_ok digits v (num_text digits v) = true.
Proof. exact C12_print_value_lemma. Qed.

Print Assumptions C08_roundtrip.
Print Assumptions C08_set_orders.
Print Assumptions C08_example.
Print Assumptions C08_behaviour_actions.
Print Assumptions C08_behaviour_ground.
Print Assumptions C08_behaviour_applicable.
Print Assumptions C08_behaviour_successor.
Print Assumptions C08_numeral.
Print Assumptions C08_vocabulary.
Print Assumptions C08_idempotent.
Print Assumptions C08_idempotent_text.
Print Assumptions C08_roundtrip_refuted.
Print Assumptions C08_range_action.
Print Assumptions C08_range_domain.
Print Assumptions C08_roundtrip_parsed.
Print Assumptions C08_range_example.
