(* Property C08 -- placeholder while the statements are being written (see Proofs/C08_*.v). *)
From Coq Require Import List String.
From Verif Require Import Base.Sexp Model.Domain Model.DomainExporter.
Import ListNotations.
Open Scope string_scope.

Theorem C08_export_shape : forall dpre deff m, exists l, export_domain dpre deff m = SList (Atom "define" :: l).
Proof. intros. eexists. reflexivity. Qed.

Print Assumptions C08_export_shape.
