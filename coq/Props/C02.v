(* Property C02 -- a grounded action call is reported applicable exactly when the action's precondition,
   instantiated with the call's arguments, is true in the state under standard PDDL semantics.
   Statements only; proofs in Proofs/C02_*.v (and Proofs/C20_Subst.v for "grounding = substitution").

   Reading guide
     model      Model.Exec: ground_action (Operator.ground), is_applicable (Operator.is_applicable), eval_g
     spec       Spec.Pddl.holds / applicable (PDDL 2.1 level 2), Spec.Subst.fdiv0 (some division has a zero denominator)
     interface  Model.Exec.denote_pre: the formula an object-model precondition stands for
     sigma      combine (parameter names) (call arguments): repeats and constants allowed, no type condition needed
   Hypotheses of the main theorem, and why each is there
     denote_pre = Some phi  the operators are the ones PDDL knows (and or not = <= >= < > + - * /)
     ground_action = Ok ga  Operator.ground() returned; C02_ground_needs says exactly when (declared predicates, arities,
                            every name a constant or a parameter)
     no_shadow              no domain constant is named like a parameter / quantified variable (impossible in PDDL's
                            lexis; the domain parser does not check it; C02_shadow_refuted shows it is needed)
     pre_ok .. true ..      the same static well-formedness inside quantified bodies, which the library grounds
                            lazily (an ill-formed body raises KeyError/ValueError when -- and only if -- some object
                            instantiates it)
   Conclusion: the answer IS [holds], except that there is no answer (ZeroDivisionError) exactly when [fdiv0].
   Nothing is assumed about types of arguments, about the state, or about the object table.

   Round 3 -- where Model.Exec is NOT the code (finding D07, open): the library stores and looks up a grounded fluent under
   its name followed by the FIRST OCCURRENCES of its arguments, Model.Exec (and PDDL) under the full argument list.
   Model.KeyedState.code_state s is the state as the library sees it (every fluent carries the value stored last under its
   key); the correspondence evaluates is_applicable on that view for worlds with functions of arity >= 3.
     C02_keyed_view_exact   the view gives a fluent its own value whenever the fluents sharing its key share its value;
     C02_keyed_small_arity  applications of one arity <= 2 never share a key (so for functions of arity <= 2 the view IS the
                            state, and C02_applicable describes the code);
     C02_keyed_refuted      arity 3, call (act o1 o2 o1): the code answers false on a state where the precondition is true.

   Wave 3 -- an Operator built WITHOUT an object table (problem_objects=None; NOT the empty table {} of a problem without objects,
   over which quantifiers still range through the domain's constants):
     C02_applicable_noobj   is_applicable .. None .. = [holds] of the precondition with every forall erased (Spec.EraseForall), for EVERY
                            formula; nothing is assumed about the quantified bodies (they are never instantiated);
     C02_eval_g_noobj       the same for any grounded condition; C02_erase_forall_id: on forall-free formulas erasure is the identity
                            (so this contains C02_eval_g_none). *)
From Coq Require Import List String Bool PrimFloat.
From Verif Require Import Base.Result Base.Str Base.PyDict Model.Types Model.Domain Model.Exec Model.KeyedState
  Spec.Pddl Spec.Subst Spec.EraseForall Proofs.C02_Sub Proofs.C20_Defs Proofs.C20_Subst Proofs.C02_Eval Proofs.C02_Main
  Proofs.C02_Keyed Proofs.C02_NoObj.
Import ListNotations.

(* the library's subtype test is the spec's, on any table (so 'forall' ranges over the quantified type and its subtypes) *)
Theorem C02_subtype : forall (d : typetable) (t target : string),
  is_sub_type d t target = subtypeb d t target.
Proof. exact is_sub_type_subtypeb. Qed.

Theorem C02_applicable : forall (d : mdomain) (eps : float) (a : maction) (args : list string) (objs : objects)
                                (s : state) (phi : form) (ga : gaction),
  denote_pre (ma_pre a) = Some phi ->
  ground_action d a args = Ok ga ->
  no_shadow (d_consts d) (dkeys (call_map a args) ++ pre_bvars (ma_pre a)) = true ->
  pre_ok d true (dkeys (call_map a args)) (ma_pre a) = true ->
  is_applicable d eps (Some objs) ga s =
  if fdiv0 (d_types d) objs (combine (dkeys (ma_sig a)) args) s phi then Err EOther
  else Ok (holds eps (d_types d) objs (combine (dkeys (ma_sig a)) args) s phi).
Proof. exact C02_applicable_lemma. Qed.

(* the same against the spec's own action record: is_applicable = Spec.Pddl.applicable *)
Theorem C02_applicable_spec : forall (d : mdomain) (eps : float) (a : maction) (A : action) (args : list string)
                                     (objs : objects) (s : state) (ga : gaction),
  denote_pre (ma_pre a) = Some (a_pre A) -> map fst (a_params A) = dkeys (ma_sig a) ->
  ground_action d a args = Ok ga ->
  no_shadow (d_consts d) (dkeys (call_map a args) ++ pre_bvars (ma_pre a)) = true ->
  pre_ok d true (dkeys (call_map a args)) (ma_pre a) = true ->
  fdiv0 (d_types d) objs (bind_args A args) s (a_pre A) = false ->
  is_applicable d eps (Some objs) ga s = Ok (applicable eps (d_types d) objs A args s).
Proof. exact C02_applicable_spec_lemma. Qed.

Theorem C02_empty : forall (d : mdomain) (eps : float) (a : maction) (args : list string) (oo : option objects)
                           (s : state) (ga : gaction),
  ma_pre a = empty_pre -> ground_action d a args = Ok ga -> is_applicable d eps oo ga s = Ok true.
Proof. exact C02_empty_lemma. Qed.

(* exactly when Operator.ground() returns *)
Theorem C02_ground_needs : forall (d : mdomain) (a : maction) (args : list string),
  is_ok (ground_action d a args) = action_ok d (dkeys (call_map a args)) a.
Proof. exact C02_ground_needs_lemma. Qed.

(* reusable (C03/C04/C16): a grounded condition -- e.g. a 'when' antecedent -- evaluates to [holds] ... *)
Theorem C02_eval_g_some : forall (dom : mdomain) (eps : float) (s : state) (objs : objects)
                                 (pm : pmap) (p : mpre) (g : gpre) (phi : form),
  ground_pre dom pm p = Ok g ->
  denote_pre p = Some phi ->
  no_shadow (d_consts dom) (dkeys pm ++ pre_bvars p) = true ->
  pre_ok dom true (dkeys pm) p = true ->
  eval_g dom eps (Some objs) s g =
  if fdiv0 (d_types dom) objs pm s phi then Err EOther else Ok (holds eps (d_types dom) objs pm s phi).
Proof. exact Proofs.C02_Eval.C02_eval_g_some. Qed.

(* ... and without an object table only when the formula has no forall *)
Theorem C02_eval_g_none : forall (dom : mdomain) (eps : float) (s : state) (objs : objects)
                                 (pm : pmap) (p : mpre) (g : gpre) (phi : form),
  ground_pre dom pm p = Ok g ->
  denote_pre p = Some phi -> forall_free phi = true ->
  no_shadow (d_consts dom) (dkeys pm ++ pre_bvars p) = true ->
  pre_ok dom true (dkeys pm) p = true ->
  eval_g dom eps None s g =
  if fdiv0 (d_types dom) objs pm s phi then Err EOther else Ok (holds eps (d_types dom) objs pm s phi).
Proof. exact Proofs.C02_Eval.C02_eval_g_none. Qed.

(* finding D37 (repaired in 40d673f): with no object table a forall counts as true -- this is how 'when' antecedents
   were evaluated, and still how an operator built without problem objects evaluates *)
Theorem C02_eval_none_refuted :
  exists (d : mdomain) (eps : float) (pm : pmap) (p : mpre) (g : gpre) (phi : form) (objs : objects) (s : state),
    ground_pre d pm p = Ok g /\ denote_pre p = Some phi /\
    no_shadow (d_consts d) (dkeys pm ++ pre_bvars p) = true /\ pre_ok d true (dkeys pm) p = true /\
    eval_g d eps None s g = Ok true /\ holds eps (d_types d) objs pm s phi = false.
Proof. exact C02_eval_none_refuted_lemma. Qed.

(* the no_shadow hypothesis is needed: a constant named "?x" captures the parameter ?x *)
Theorem C02_shadow_refuted :
  exists (d : mdomain) (eps : float) (a : maction) (args : list string) (objs : objects) (s : state) (phi : form)
         (ga : gaction),
    denote_pre (ma_pre a) = Some phi /\ ground_action d a args = Ok ga /\
    pre_ok d true (dkeys (call_map a args)) (ma_pre a) = true /\
    is_applicable d eps (Some objs) ga s = Ok false /\
    holds eps (d_types d) objs (combine (dkeys (ma_sig a)) args) s phi = true.
Proof. exact C02_shadow_refuted_lemma. Qed.


(* ---------- the library's name-keyed view of the fluents (finding D07) ---------- *)
Theorem C02_keyed_view_exact : forall (fl : list (atom * float)) (a : atom) (v : float),
  fluent_get a fl = Some v ->
  (forall b w, In (b, w) fl -> keyed b = keyed a -> w = v) ->
  fluent_get a (fluents (code_state {| facts := []; fluents := fl |})) = Some v.
Proof. exact keyed_view_exact. Qed.

Theorem C02_keyed_small_arity : forall a b : atom,
  List.length (snd a) = List.length (snd b) -> List.length (snd a) <= 2 -> keyed a = keyed b -> a = b.
Proof. exact keyed_inj_small. Qed.

Theorem C02_keyed_refuted :
  denote_pre (ma_pre k_act) = Some k_phi /\
  (exists ga, ground_action k_dom k_act ["o1"; "o2"; "o1"] = Ok ga /\
              is_applicable k_dom k_eps (Some k_objs) ga (code_state k_state) = Ok false /\
              is_applicable k_dom k_eps (Some k_objs) ga k_state = Ok true) /\
  holds k_eps (d_types k_dom) k_objs (combine (dkeys (ma_sig k_act)) ["o1"; "o2"; "o1"]) k_state k_phi = true.
Proof. exact keyed_refuted_lemma. Qed.

(* ---------- an Operator built without an object table ---------- *)
Theorem C02_eval_g_noobj : forall (dom : mdomain) (eps : float) (s : state) (objs : objects)
                                  (pm : pmap) (p : mpre) (g : gpre) (phi : form),
  ground_pre dom pm p = Ok g ->
  denote_pre p = Some phi ->
  no_shadow (d_consts dom) (dkeys pm) = true ->
  eval_g dom eps None s g =
  if fdiv0 (d_types dom) objs pm s (erase_forall phi) then Err EOther
  else Ok (holds eps (d_types dom) objs pm s (erase_forall phi)).
Proof. exact C02_eval_g_noobj_lemma. Qed.

Theorem C02_applicable_noobj : forall (d : mdomain) (eps : float) (a : maction) (args : list string) (objs : objects)
                                      (s : state) (phi : form) (ga : gaction),
  denote_pre (ma_pre a) = Some phi ->
  ground_action d a args = Ok ga ->
  no_shadow (d_consts d) (dkeys (call_map a args)) = true ->
  is_applicable d eps None ga s =
  if fdiv0 (d_types d) objs (combine (dkeys (ma_sig a)) args) s (erase_forall phi) then Err EOther
  else Ok (holds eps (d_types d) objs (combine (dkeys (ma_sig a)) args) s (erase_forall phi)).
Proof. exact C02_applicable_noobj_lemma. Qed.

Theorem C02_erase_forall_id : forall phi : form, forall_free phi = true -> erase_forall phi = phi.
Proof. exact erase_forall_id. Qed.

Theorem C02_erase_forall_free : forall phi : form, forall_free (erase_forall phi) = true.
Proof. exact erase_forall_free. Qed.

Print Assumptions C02_subtype.
Print Assumptions C02_applicable.
Print Assumptions C02_applicable_spec.
Print Assumptions C02_empty.
Print Assumptions C02_ground_needs.
Print Assumptions C02_eval_g_some.
Print Assumptions C02_eval_g_none.
Print Assumptions C02_eval_none_refuted.
Print Assumptions C02_shadow_refuted.
Print Assumptions C02_keyed_view_exact.
Print Assumptions C02_keyed_small_arity.
Print Assumptions C02_keyed_refuted.
Print Assumptions C02_eval_g_noobj.
Print Assumptions C02_applicable_noobj.
Print Assumptions C02_erase_forall_id.
Print Assumptions C02_erase_forall_free.
