(* Property C12 -- numeric expressions evaluate as arithmetic; comparisons use the stated tolerance;
   assignments write v, old+v, old-v; printing and reading back preserves structure and, up to the print
   precision, value.  Statements only; proofs live in Proofs/C12_*.v.

   The model (Model/NumExpr.v) is parametrised by the configuration: EPSILON, DEFAULT_DIGITS, the relative
   tolerance handed to math.isclose and whether forms with other than two operands are rejected.  The theorems
   hold for every configuration unless they say otherwise; [cfg_pinned] is the pinned tree (rel_tol = 1e-9 by
   default, arity unchecked), [cfg_fixed] the tree after the repairs of D20 and D08 (what the correspondence
   check runs against).

   Full statement of the comparison part:  compare_op cfg (cmp_name c) x y = Ok (spec_cmp eps c x y)  for all
   finite x y and eps >= 0.  It is
     - FALSE on the pinned configuration: C12_cmp_refuted_pinned (deviation D20, repaired),
     - true whenever the relative term does not fire: C12_cmp_abs (every configuration; C12_cmp makes the
       relative term explicit),
     - true on the repaired configuration: C12_cmp_fixed, under three IEEE-754 facts about the primitive
       operations that are HYPOTHESES of the theorem (they are statements of Coq's FloatAxioms; nothing is
       assumed globally, no axiom is used).
   Full statement of the arity part: a form with other than two operands is rejected: C12_arity (repaired
   configuration), C12_arity_refuted_pinned (deviation D08, repaired). *)
From Coq Require Import ZArith List String PrimFloat FloatOps.
From Verif Require Import Base.Result Base.Str Base.Sexp Base.Float Model.NumExpr Spec.Arith
  Proofs.C12_Eval Proofs.C12_Cmp Proofs.C12_CmpAt Proofs.C12_Multi Proofs.C12_Groups Proofs.C12_Print Proofs.C12_Main.
Import ListNotations.
Open Scope string_scope.

(* Evaluation: reading the prefix syntax of ANY binary expression and calculating it in a state gives the
   spec's value ((op a b) = a op b; a missing fluent reads 0; division by zero is an error). *)
Theorem C12_eval : forall (strict : bool) (pn : string -> option float) (funcs : domain_functions)
    (tok : float -> string) (st : fluents) (e : aexp),
  wf_aexp pn funcs tok e ->
  exists t, construct strict pn funcs (render tok e) = Ok t /\
            calculate st t = res_of_opt (aeval (val_of st) e).
Proof. exact C12_eval_lemma. Qed.

(* Arity: with the check of fix D08, an operator / comparison / assignment form with other than two operands
   is rejected ... *)
Theorem C12_arity : forall (pn : string -> option float) (funcs : domain_functions) (h : string) (args : list sexp),
  str_in h LEGAL_NUMERICAL_EXPRESSIONS = true -> alookup h funcs = None -> List.length args <> 2%nat ->
  exists k, construct true pn funcs (headed h args) = Err k.
Proof. intros pn funcs h args. exact (strict_rejects_arity true pn funcs h args eq_refl). Qed.

(* ... which the pinned code does not do (D08). *)
Theorem C12_arity_refuted_pinned :
  exists h args, str_in h LEGAL_NUMERICAL_EXPRESSIONS = true /\ List.length args <> 2%nat /\
                 exists t, construct false ex_pn ex_funcs (headed h args) = Ok t.
Proof. exact C12_arity_refuted_pinned_lemma. Qed.

(* Comparisons, every configuration: "within the tolerance, else the ordering", where the tolerance is the
   absolute term eps OR math.isclose's relative term. *)
Theorem C12_cmp : forall (cfg : ncfg) (c : cmp) (x y : float),
  tol_ok (cfg_rel cfg) (cfg_eps cfg) -> is_infinity x = false -> is_infinity y = false ->
  compare_op cfg (cmp_name c) x y =
  Ok (cmp_with (close (cfg_eps cfg) x y || rel_term (cfg_rel cfg) x y) c x y).
Proof. exact C12_cmp_lemma. Qed.

Theorem C12_cmp_abs : forall (cfg : ncfg) (c : cmp) (x y : float),
  tol_ok (cfg_rel cfg) (cfg_eps cfg) -> is_infinity x = false -> is_infinity y = false ->
  rel_term (cfg_rel cfg) x y = false ->
  compare_op cfg (cmp_name c) x y = Ok (spec_cmp (cfg_eps cfg) c x y).
Proof. exact C12_cmp_abs_lemma. Qed.

Theorem C12_cmp_strict : forall (cfg : ncfg) (x y : float),
  compare_op cfg "<" x y = Ok (PrimFloat.ltb x y) /\ compare_op cfg ">" x y = Ok (PrimFloat.ltb y x).
Proof. exact C12_cmp_strict_lemma. Qed.

Theorem C12_cmp_refuted_pinned :
  exists x y, is_infinity x = false /\ is_infinity y = false /\ tol_ok (cfg_rel (cfg_pinned eps_default 4)) eps_default /\
    compare_op (cfg_pinned eps_default 4) "=" x y = Ok true /\ spec_cmp eps_default CEq x y = false.
Proof. exact C12_cmp_refuted_pinned_lemma. Qed.

Theorem C12_cmp_fixed :
  ieee_mul_spec -> ieee_abs_spec -> ieee_leb_spec ->
  forall (eps : float) (digits : nat) (c : cmp) (x y : float),
  f_is_finite x = true -> f_is_finite y = true -> PrimFloat.leb 0%float eps = true ->
  PrimFloat.ltb eps 0%float = false ->
  compare_op (cfg_fixed eps digits) (cmp_name c) x y = Ok (spec_cmp eps c x y).
Proof. exact C12_cmp_fixed_lemma. Qed.

(* The same WITHOUT universally quantified hypotheses: the three IEEE facts cannot be proved in Coq 8.16.1 without
   importing axioms (FloatAxioms declares them with Axiom; float has no eliminator), but at closed values the
   instances the proof uses are decided by kernel computation: ieee_ok_at eps x y is that finite check (a boolean;
   evaluated by the correspondence on the operands of every comparison case of every run, and on one value of each
   class - subnormals, smallest normal, 1e308, largest finite, -0.0 - in Proofs/C12_CmpAt.v: ieee_ok_at_samples). *)
Theorem C12_cmp_fixed_at : forall (eps : float) (digits : nat) (c : cmp) (x y : float),
  ieee_ok_at eps x y = true ->
  f_is_finite x = true -> f_is_finite y = true -> PrimFloat.leb 0%float eps = true ->
  PrimFloat.ltb eps 0%float = false ->
  compare_op (cfg_fixed eps digits) (cmp_name c) x y = Ok (spec_cmp eps c x y).
Proof. exact C12_cmp_fixed_at_lemma. Qed.

(* Assignments: assign / increase / decrease return the target with v, old+v, old-v (old = the state's value,
   0 when missing; v = the calculated right-hand side) ... *)
Theorem C12_assign : forall (cfg : ncfg) (st : fluents) (a : asg) (f : nfun) (rhs : ntree),
  evaluate cfg st (NBin (asg_name a) (NFl f) rhs) =
  (do v <- calculate st rhs; Ok (EvAssign (untyped_rep f) (spec_assign a (val_of st (untyped_rep f)) v))).
Proof. exact C12_assign_lemma. Qed.

(* ... and storing it changes the target's value and nothing else. *)
Theorem C12_assign_frame : forall (st : fluents) (k : string) (v : float) (k' : string),
  val_of (write_back st (EvAssign k v)) k' = if String.eqb k' k then v else val_of st k'.
Proof. exact C12_assign_frame_lemma. Qed.

(* SEVERAL numeric effects of one action (GroundedEffect.apply: all evaluated on the previous state, then stored): for
   ANY list of assign/increase/decrease effects with pairwise distinct targets whose right-hand sides are defined in
   st, every target ends up with v / old+v / old-v where v and old are read in st - also when the right-hand sides
   mention other targets or their own - and every other key of the state being built is untouched ... *)
Theorem C12_assign_simultaneous : forall (cfg : ncfg) (st cur : fluents) (effs : list neff),
  NoDup (map neff_key effs) -> rhs_defined st effs ->
  exists st', apply_effects cfg st cur (map neff_tree effs) = Ok st' /\
              forall k, val_of st' k = match find_eff k effs with
                                       | Some e => match neff_value st e with Ok v => v | Err _ => 0%float end
                                       | None => val_of cur k
                                       end.
Proof. exact C12_assign_simultaneous_lemma. Qed.

(* ... whatever the order in which the effects are visited (the iteration order of the Python set). *)
Theorem C12_assign_order : forall (cfg : ncfg) (st cur : fluents) (effs effs' : list neff),
  NoDup (map neff_key effs) -> rhs_defined st effs -> Permutation.Permutation effs effs' ->
  exists s1 s2, apply_effects cfg st cur (map neff_tree effs) = Ok s1 /\
                apply_effects cfg st cur (map neff_tree effs') = Ok s2 /\
                forall k, val_of s1 k = val_of s2 k.
Proof. exact C12_assign_order_lemma. Qed.

(* ... and whatever the GROUPING: Operator.apply visits the unconditional group, every `when` that fires and every
   instance of a forall-when one after the other, each evaluated on the previous state and stored into the state
   being built; with pairwise distinct targets over all of them the successor valuation is the property's
   (spec_after: targets get v / old+v / old-v read in st, everything else keeps its value). *)
Theorem C12_assign_groups : forall (cfg : ncfg) (st : fluents) (groups : list (list neff)),
  NoDup (map neff_key (List.concat groups)) -> rhs_defined st (List.concat groups) ->
  exists st', apply_groups cfg st groups st = Ok st' /\ forall k, val_of st' k = spec_after st (List.concat groups) k.
Proof. exact C12_assign_groups_lemma. Qed.

(* Printing, value: the numeral printed for ANY constant v with ANY number of digits reads back EXACTLY (as a
   decimal, in Z) to within half a unit of the last printed digit of v's exact binary value; integers are
   printed exactly; infinities and NaN by name. *)
Theorem C12_print_value : forall (digits : nat) (v : float), print_ok digits v (num_text digits v) = true.
Proof. exact C12_print_value_lemma. Qed.

(* Printing, structure: the printed token tree is read back into a tree with the same operators and fluents at
   the same places, each constant replaced by what float() makes of its numeral. *)
Theorem C12_print_structure : forall (strict : bool) (pn : string -> option float) (funcs : domain_functions)
    (digits : nat) (t : ntree),
  tree_ok pn funcs digits t ->
  exists t', construct strict pn funcs (print_sexp digits t) = Ok t' /\ same_shape pn digits t t'.
Proof. exact C12_print_structure_lemma. Qed.

Print Assumptions C12_eval.
Print Assumptions C12_arity.
Print Assumptions C12_arity_refuted_pinned.
Print Assumptions C12_cmp.
Print Assumptions C12_cmp_abs.
Print Assumptions C12_cmp_strict.
Print Assumptions C12_cmp_refuted_pinned.
Print Assumptions C12_cmp_fixed.
Print Assumptions C12_cmp_fixed_at.
Print Assumptions C12_assign.
Print Assumptions C12_assign_simultaneous.
Print Assumptions C12_assign_order.
Print Assumptions C12_assign_groups.
Print Assumptions C12_assign_frame.
Print Assumptions C12_print_value.
Print Assumptions C12_print_structure.
