(* Property C12 -- placeholder while the machinery is being built. *)
From Coq Require Import List String.
From Verif Require Import Base.Result Model.NumExpr Spec.Arith.
