(* Property C20 -- grounding is substitution of the call's arguments for the parameters.
   Statements only; proofs in Proofs/C20_*.v.

   Two layers.
   (A) Operator.ground() as Model/Exec.v has it (used by C02/C03): the grounded action IS the schema with every name
       replaced -- same tree, same order, nothing added or omitted -- and grounding fails exactly on an undeclared
       predicate, an arity mismatch or an unbound name.
   (B) what the operator REPORTS (Model/GroundTyped.v: iteration over the grounded preconditions, typed forms, the
       name-keyed grounded fluents, effect groups) against the spec's substituted schema (Spec/Subst.v):
       full statement  =  for every call, the reported literals (polarity, name, arguments, types), numeric
       expressions and (in)equality pairs are exactly form_lits / form_cmps / form_eqs of the instantiated
       precondition, and likewise per effect group.
       It is FALSE of the code in two input classes, which are exactly the two hypotheses of C20_reported_pre:
         under_forall_touches  a quantified body mentions something the call replaces (finding D38: quantified
                               conditions are reported lifted)          -> C20_reported_refuted_forall
         form_repeats          a fluent application grounds to repeated names (finding D07: name-keyed signature)
                                                                        -> C20_reported_refuted_repeat
   (C) (round 3) the report of (B) lists one item per schema occurrence; the library keeps the items in Python SETS (one
       per connective, one per effect group), so members that are equal under the library's hash/== are kept once
       (Model/GroundSets.v: iter_pre / iter_group = the report with [collapse] applied; this is what the correspondence
       compares with the implementation, as multisets).  The theorems bound what the sets can do:
         C20_iteration_within_report   the iteration is a SUBSEQUENCE of the report (nothing added, no multiplicity raised)
                                       and contains every item of the report at least once (nothing omitted);
         C20_merge_only_same_typed_literal / C20_numeric_never_merged   what a merge needs: the same polarity, name,
                                       arguments AND types; numeric conditions are never merged;
         C20_iteration_exact           when no connective has two equal members, iteration = report (so (B) applies as is);
         C20_group_within_report       the same for an effect group (add/delete literals; numeric effects untouched);
         C20_lower_bound_*             the same facts for the spec's lower bound (Spec/SubstSet.v form_lits_min, the least
                                       the oracle of the correspondence accepts) against form_lits (the most it accepts);
         C20_same_atom_two_typed_forms / C20_same_literal_two_connectives / C20_same_typed_form_one_member
                                       the three shapes computed on the model: (at t1 - truck p1) and (at t1 - vehicle p1)
                                       are two members; (ready u1) at the top level and inside an (or ...) is iterated
                                       twice; (ready ?a) (ready ?b) called with a = b in ONE conjunction is one member. *)
From Coq Require Import List String Bool PrimFloat.
From Verif Require Import Base.Result Base.Str Base.PyDict Model.Types Model.Domain Model.Exec Model.GroundTyped
  Model.GroundSets Spec.Pddl Spec.Subst Spec.SubstSet
  Proofs.C20_Defs Proofs.C20_Subst Proofs.C20_Flat Proofs.C20_Report Proofs.C20_Main Proofs.C20_Consistent Proofs.C20_Sets.
Import ListNotations.

(* ---------- (A) ---------- *)
Theorem C20_ground_is_substitution : forall (d : mdomain) (a : maction) (args : list string) (ga : gaction),
  ground_action d a args = Ok ga ->
  ga = subst_action (gname (d_consts d) (call_map a args)) (call_map a args) a.
Proof. exact ground_action_ok. Qed.

(* the library's name resolution (constants first) is the spec's substitution when no constant is named like a parameter *)
Theorem C20_gname_is_subst : forall (consts : pydict string) (pm : pmap) (t : string),
  no_shadow consts (dkeys pm) = true -> gname consts pm t = subst pm t.
Proof. exact gname_subst. Qed.

Theorem C20_ground_returns_iff : forall (d : mdomain) (a : maction) (args : list string),
  is_ok (ground_action d a args) = action_ok d (dkeys (call_map a args)) a.
Proof. exact ground_action_is_ok. Qed.

(* unknown predicate / unbound name: KeyError; arity mismatch: ValueError; nothing else *)
Theorem C20_ground_error_kinds : forall (d : mdomain) (a : maction) (args : list string) (k : errkind),
  ground_action d a args = Err k -> k = EKey \/ k = EValue.
Proof. exact ground_action_err. Qed.

Theorem C20_lit : forall (d : mdomain) (pm : pmap) (p : string) (args : list string) (a : atom),
  no_shadow (d_consts d) (dkeys pm) = true ->
  ground_lit d pm p args = Ok a -> a = (p, map (subst pm) args).
Proof. exact C20_lit_lemma. Qed.

Theorem C20_lit_returns_iff : forall (d : mdomain) (pm : pmap) (p : string) (args : list string),
  is_ok (ground_lit d pm p args) = lit_ok d (dkeys pm) p args.
Proof. exact C20_lit_returns_lemma. Qed.

Theorem C20_pre : forall (d : mdomain) (pm : pmap) (p : mpre) (g : gpre),
  ground_pre d pm p = Ok g -> g = subst_pre (gname (d_consts d) pm) pm p.
Proof. exact ground_pre_ok. Qed.

(* the same on flat lists: literals, numeric conditions, add/delete and numeric effects are [map (subst sigma)] of the
   schema's, in order, equally many; one effect group per schema group *)
Theorem C20_flat : forall (d : mdomain) (a : maction) (args : list string) (ga : gaction),
  let sigma := combine (dkeys (ma_sig a)) args in
  ground_action d a args = Ok ga ->
  no_shadow (d_consts d) (dkeys sigma) = true ->
  gpre_lits (ga_pre ga) = map (subst_flat_lit (subst sigma)) (mpre_lits (ma_pre a)) /\
  gpre_trees (ga_pre ga) = map (subst_tree (subst sigma)) (mpre_trees (ma_pre a)) /\
  List.length (gpre_lits (ga_pre ga)) = List.length (mpre_lits (ma_pre a)) /\
  List.length (gpre_trees (ga_pre ga)) = List.length (mpre_trees (ma_pre a)) /\
  map gg_disc (ga_groups ga) =
    map (subst_lit (subst sigma)) (ma_disc a) :: map (fun ce => map (subst_lit (subst sigma)) (ce_disc ce)) (ma_cond a) /\
  map gg_num (ga_groups ga) =
    map (subst_tree (subst sigma)) (ma_num a) :: map (fun ce => map (subst_tree (subst sigma)) (ce_num ce)) (ma_cond a) /\
  List.length (ga_groups ga) = S (List.length (ma_cond a)).
Proof. exact C20_flat_lemma. Qed.

(* ---------- (B) ---------- *)
(* the precondition: literals with their typed form, numeric conditions, (in)equalities -- position by position *)
Theorem C20_reported_pre : forall (d : mdomain) (a : maction) (args : list string) (phi : form)
                                  (items : list ritem) (eqs : list eqpair),
  let sigma := combine (dkeys (ma_sig a)) args in
  denote_pre (ma_pre a) = Some phi ->
  no_shadow (d_consts d) (dkeys (ma_sig a) ++ pre_bvars (ma_pre a)) = true ->
  under_forall_touches sigma false phi = false ->
  form_repeats sigma phi = false ->
  report_pre d (ma_sig a) sigma (ma_pre a) = Ok (items, eqs) ->
  map rlit_struct (items_lits items) = form_lits (d_consts d) (ma_sig a) sigma phi /\
  items_nums items = map cmp_gtree_of (form_cmps sigma phi) /\
  eqs = form_eqs sigma phi.
Proof. exact C20_reported_pre_lemma. Qed.

(* add / delete literals (typed form) and numeric effects of the unconditional group *)
Theorem C20_reported_group : forall (d : mdomain) (a : maction) (args : list string)
                                    (disc : list mlit) (nums : list mtree) (g : rgroup),
  let sigma := combine (dkeys (ma_sig a)) args in
  no_shadow (d_consts d) (dkeys (ma_sig a)) = true ->
  report_group d (ma_sig a) sigma None disc nums = Ok g ->
  map rlit_struct (rg_disc g) =
    map (fun l => mk_lit (d_consts d) (ma_sig a) sigma (l_pos l) (l_name l) (l_args l)) disc /\
  (existsb (tree_repeats sigma) nums = false -> rg_num g = map (subst_tree (subst sigma)) nums).
Proof. exact C20_reported_group_lemma. Qed.

(* the antecedent of a conditional group *)
Theorem C20_reported_ante : forall (d : mdomain) (a : maction) (args : list string) (ante : mpre) (phi : form)
                                   (disc : list mlit) (nums : list mtree) (g : rgroup),
  let sigma := combine (dkeys (ma_sig a)) args in
  denote_pre ante = Some phi ->
  no_shadow (d_consts d) (dkeys (ma_sig a) ++ pre_bvars ante) = true ->
  under_forall_touches sigma false phi = false ->
  form_repeats sigma phi = false ->
  report_group d (ma_sig a) sigma (Some ante) disc nums = Ok g ->
  exists items eqs, rg_ante g = Some (items, eqs) /\
    map rlit_struct (items_lits items) = form_lits (d_consts d) (ma_sig a) sigma phi /\
    items_nums items = map cmp_gtree_of (form_cmps sigma phi) /\
    eqs = form_eqs sigma phi.
Proof. exact C20_reported_ante_lemma. Qed.

(* the two models of Operator.ground() agree: whenever the typed report exists, Model.Exec's grounding exists and the
   report's grounded literals, types dropped, are exactly its literals, in order *)
Theorem C20_report_refines_ground : forall (d : mdomain) (p : mpre) (sg : signature) (pm : pmap)
                                           (items : list ritem) (eqs : list eqpair),
  report_pre d sg pm p = Ok (items, eqs) ->
  exists g, ground_pre d pm p = Ok g /\ map rlit_untyped (grounded_lits items) = gpre_lits g.
Proof. exact report_refines_ground. Qed.

(* finding D38: inside the class excluded by [under_forall_touches] the report is not the substituted schema *)
Theorem C20_reported_refuted_forall :
  exists (d : mdomain) (a : maction) (args : list string) (phi : form) (items : list ritem) (eqs : list eqpair),
    denote_pre (ma_pre a) = Some phi /\
    no_shadow (d_consts d) (dkeys (ma_sig a) ++ pre_bvars (ma_pre a)) = true /\
    form_repeats (combine (dkeys (ma_sig a)) args) phi = false /\
    report_pre d (ma_sig a) (combine (dkeys (ma_sig a)) args) (ma_pre a) = Ok (items, eqs) /\
    map rlit_struct (items_lits items) <>
      form_lits (d_consts d) (ma_sig a) (combine (dkeys (ma_sig a)) args) phi.
Proof. exact C20_reported_refuted_forall_lemma. Qed.

(* finding D07: inside the class excluded by [form_repeats] *)
Theorem C20_reported_refuted_repeat :
  exists (d : mdomain) (a : maction) (args : list string) (phi : form) (items : list ritem) (eqs : list eqpair),
    denote_pre (ma_pre a) = Some phi /\
    no_shadow (d_consts d) (dkeys (ma_sig a) ++ pre_bvars (ma_pre a)) = true /\
    under_forall_touches (combine (dkeys (ma_sig a)) args) false phi = false /\
    report_pre d (ma_sig a) (combine (dkeys (ma_sig a)) args) (ma_pre a) = Ok (items, eqs) /\
    items_nums items <> map cmp_gtree_of (form_cmps (combine (dkeys (ma_sig a)) args) phi).
Proof. exact C20_reported_refuted_repeat_lemma. Qed.


(* ---------- (C) ---------- *)
Theorem C20_iteration_within_report : forall (d : mdomain) (sg : signature) (pm : pmap) (p : mpre)
                                             (items : list ritem) (eqs : list eqpair),
  iter_pre d sg pm p = Ok (items, eqs) ->
  exists items0 eqs0, report_pre d sg pm p = Ok (items0, eqs0) /\
    subseq items items0 /\ (forall x, In x items0 <-> In x items).
Proof. exact iter_pre_bounds_lemma. Qed.

Theorem C20_iteration_returns_iff : forall (d : mdomain) (sg : signature) (pm : pmap) (p : mpre),
  is_ok (iter_pre d sg pm p) = is_ok (report_pre d sg pm p).
Proof. exact iter_pre_returns_lemma. Qed.

Theorem C20_iteration_exact : forall (d : mdomain) (sg : signature) (pm : pmap) (p : mpre) (n : rnode),
  report_node d sg pm p = Ok n -> distinct_members n = true -> iter_pre d sg pm p = report_pre d sg pm p.
Proof. exact iter_pre_exact_lemma. Qed.

Theorem C20_merge_only_same_typed_literal : forall (a : rlit) (n : rnode), node_eqb (RNLit a) n = true -> n = RNLit a.
Proof. exact node_eqb_lit. Qed.

Theorem C20_numeric_never_merged : forall (t : gtree) (n : rnode), node_eqb (RNNum t) n = false /\ node_eqb n (RNNum t) = false.
Proof. exact (fun t n => conj (node_eqb_num t n) (node_eqb_num_r n t)). Qed.

Theorem C20_group_within_report : forall (d : mdomain) (sg : signature) (pm : pmap) (ante : option mpre)
                                         (disc : list mlit) (nums : list mtree) (g : rgroup),
  iter_group d sg pm ante disc nums = Ok g ->
  exists g0, report_group d sg pm ante disc nums = Ok g0 /\
    subseq (rg_disc g) (rg_disc g0) /\ (forall x, In x (rg_disc g0) <-> In x (rg_disc g)) /\
    rg_num g = rg_num g0 /\
    match rg_ante g, rg_ante g0 with
    | None, None => True
    | Some (items, _), Some (items0, _) => subseq items items0 /\ (forall x, In x items0 <-> In x items)
    | _, _ => False
    end.
Proof. exact iter_group_bounds_lemma. Qed.

Theorem C20_lower_bound_within_upper : forall (consts scope : list (name * name)) (sg : env) (f : form),
  subseq (form_lits_min consts scope sg f) (form_lits consts scope sg f) /\
  (forall x, In x (form_lits consts scope sg f) <-> In x (form_lits_min consts scope sg f)).
Proof. exact (fun c s g f => conj (form_lits_min_subseq_lemma c s g f) (form_lits_min_same_set_lemma c s g f)). Qed.

Theorem C20_lower_bound_exact : forall (consts scope : list (name * name)) (sg : env) (f : form),
  sdistinct_members (form_node consts scope sg f) = true ->
  form_lits_min consts scope sg f = form_lits consts scope sg f.
Proof. exact form_lits_min_exact_lemma. Qed.

Theorem C20_lower_bound_group : forall (consts scope : list (name * name)) (sg : env) (ps : list prim),
  subseq (prim_lits_min consts scope sg ps) (prim_lits consts scope sg ps) /\
  (forall x, In x (prim_lits consts scope sg ps) <-> In x (prim_lits_min consts scope sg ps)).
Proof. exact (fun c s g ps => conj (prim_lits_min_subseq_lemma c s g ps) (prim_lits_min_same_set_lemma c s g ps)). Qed.

Theorem C20_same_atom_two_typed_forms :
  iter_pre sets_dom convoy_sig (combine (dkeys convoy_sig) ["t1"; "t1"; "p1"]) convoy_pre =
  Ok ([RL {| rl_grounded := true; rl_pos := true; rl_name := "at"; rl_args := ["t1"; "p1"]; rl_types := ["truck"; "place"] |};
       RL {| rl_grounded := true; rl_pos := true; rl_name := "at"; rl_args := ["t1"; "p1"]; rl_types := ["vehicle"; "place"] |}],
      []).
Proof. exact convoy_two_literals. Qed.

Theorem C20_same_literal_two_connectives :
  iter_pre sets_dom check_sig (combine (dkeys check_sig) ["u1"; "u1"]) check_pre =
  Ok ([RL ready_u1; RL ready_u1;
       RL {| rl_grounded := true; rl_pos := true; rl_name := "spare"; rl_args := ["u1"]; rl_types := ["unit"] |}], []).
Proof. exact check_three_items. Qed.

Theorem C20_same_typed_form_one_member :
  iter_pre sets_dom check_sig (combine (dkeys check_sig) ["u1"; "u1"])
           (MPre "and" [MLit true "ready" ["?a"]; MLit true "ready" ["?b"]] [] []) = Ok ([RL ready_u1], []).
Proof. exact same_typed_form_one_member. Qed.

Print Assumptions C20_ground_is_substitution.
Print Assumptions C20_gname_is_subst.
Print Assumptions C20_ground_returns_iff.
Print Assumptions C20_ground_error_kinds.
Print Assumptions C20_lit.
Print Assumptions C20_lit_returns_iff.
Print Assumptions C20_pre.
Print Assumptions C20_flat.
Print Assumptions C20_reported_pre.
Print Assumptions C20_reported_group.
Print Assumptions C20_reported_ante.
Print Assumptions C20_report_refines_ground.
Print Assumptions C20_reported_refuted_forall.
Print Assumptions C20_reported_refuted_repeat.
Print Assumptions C20_iteration_within_report.
Print Assumptions C20_iteration_returns_iff.
Print Assumptions C20_iteration_exact.
Print Assumptions C20_merge_only_same_typed_literal.
Print Assumptions C20_numeric_never_merged.
Print Assumptions C20_group_within_report.
Print Assumptions C20_lower_bound_within_upper.
Print Assumptions C20_lower_bound_exact.
Print Assumptions C20_lower_bound_group.
Print Assumptions C20_same_atom_two_typed_forms.
Print Assumptions C20_same_literal_two_connectives.
Print Assumptions C20_same_typed_form_one_member.
