(* Property C20 -- grounding is substitution of the call's arguments for the parameters.
   Statements only; proofs in Proofs/C20_*.v.

   Two layers.
   (A) Operator.ground() as Model/Exec.v has it (used by C02/C03): the grounded action IS the schema with every name
       replaced -- same tree, same order, nothing added or omitted -- and grounding fails exactly on an undeclared
       predicate, an arity mismatch or an unbound name.
   (B) what the operator REPORTS (Model/GroundTyped.v: iteration over the grounded preconditions, typed forms, the
       name-keyed grounded fluents, effect groups) against the spec's substituted schema (Spec/Subst.v):
       full statement  =  for every call, the reported literals (polarity, name, arguments, types), numeric
       expressions and (in)equality pairs are exactly form_lits / form_cmps / form_eqs of the instantiated
       precondition, and likewise per effect group.
       It is FALSE of the code in two input classes, which are exactly the two hypotheses of C20_reported_pre:
         under_forall_touches  a quantified body mentions something the call replaces (finding D38: quantified
                               conditions are reported lifted)          -> C20_reported_refuted_forall
         form_repeats          a fluent application grounds to repeated names (finding D07: name-keyed signature)
                                                                        -> C20_reported_refuted_repeat *)
From Coq Require Import List String Bool PrimFloat.
From Verif Require Import Base.Result Base.Str Base.PyDict Model.Types Model.Domain Model.Exec Model.GroundTyped
  Spec.Pddl Spec.Subst Proofs.C20_Defs Proofs.C20_Subst Proofs.C20_Flat Proofs.C20_Report Proofs.C20_Main Proofs.C20_Consistent.
Import ListNotations.

(* ---------- (A) ---------- *)
Theorem C20_ground_is_substitution : forall (d : mdomain) (a : maction) (args : list string) (ga : gaction),
  ground_action d a args = Ok ga ->
  ga = subst_action (gname (d_consts d) (call_map a args)) (call_map a args) a.
Proof. exact ground_action_ok. Qed.

(* the library's name resolution (constants first) is the spec's substitution when no constant is named like a parameter *)
Theorem C20_gname_is_subst : forall (consts : pydict string) (pm : pmap) (t : string),
  no_shadow consts (dkeys pm) = true -> gname consts pm t = subst pm t.
Proof. exact gname_subst. Qed.

Theorem C20_ground_returns_iff : forall (d : mdomain) (a : maction) (args : list string),
  is_ok (ground_action d a args) = action_ok d (dkeys (call_map a args)) a.
Proof. exact ground_action_is_ok. Qed.

(* unknown predicate / unbound name: KeyError; arity mismatch: ValueError; nothing else *)
Theorem C20_ground_error_kinds : forall (d : mdomain) (a : maction) (args : list string) (k : errkind),
  ground_action d a args = Err k -> k = EKey \/ k = EValue.
Proof. exact ground_action_err. Qed.

Theorem C20_lit : forall (d : mdomain) (pm : pmap) (p : string) (args : list string) (a : atom),
  no_shadow (d_consts d) (dkeys pm) = true ->
  ground_lit d pm p args = Ok a -> a = (p, map (subst pm) args).
Proof. exact C20_lit_lemma. Qed.

Theorem C20_lit_returns_iff : forall (d : mdomain) (pm : pmap) (p : string) (args : list string),
  is_ok (ground_lit d pm p args) = lit_ok d (dkeys pm) p args.
Proof. exact C20_lit_returns_lemma. Qed.

Theorem C20_pre : forall (d : mdomain) (pm : pmap) (p : mpre) (g : gpre),
  ground_pre d pm p = Ok g -> g = subst_pre (gname (d_consts d) pm) pm p.
Proof. exact ground_pre_ok. Qed.

(* the same on flat lists: literals, numeric conditions, add/delete and numeric effects are [map (subst sigma)] of the
   schema's, in order, equally many; one effect group per schema group *)
Theorem C20_flat : forall (d : mdomain) (a : maction) (args : list string) (ga : gaction),
  let sigma := combine (dkeys (ma_sig a)) args in
  ground_action d a args = Ok ga ->
  no_shadow (d_consts d) (dkeys sigma) = true ->
  gpre_lits (ga_pre ga) = map (subst_flat_lit (subst sigma)) (mpre_lits (ma_pre a)) /\
  gpre_trees (ga_pre ga) = map (subst_tree (subst sigma)) (mpre_trees (ma_pre a)) /\
  List.length (gpre_lits (ga_pre ga)) = List.length (mpre_lits (ma_pre a)) /\
  List.length (gpre_trees (ga_pre ga)) = List.length (mpre_trees (ma_pre a)) /\
  map gg_disc (ga_groups ga) =
    map (subst_lit (subst sigma)) (ma_disc a) :: map (fun ce => map (subst_lit (subst sigma)) (ce_disc ce)) (ma_cond a) /\
  map gg_num (ga_groups ga) =
    map (subst_tree (subst sigma)) (ma_num a) :: map (fun ce => map (subst_tree (subst sigma)) (ce_num ce)) (ma_cond a) /\
  List.length (ga_groups ga) = S (List.length (ma_cond a)).
Proof. exact C20_flat_lemma. Qed.

(* ---------- (B) ---------- *)
(* the precondition: literals with their typed form, numeric conditions, (in)equalities -- position by position *)
Theorem C20_reported_pre : forall (d : mdomain) (a : maction) (args : list string) (phi : form)
                                  (items : list ritem) (eqs : list eqpair),
  let sigma := combine (dkeys (ma_sig a)) args in
  denote_pre (ma_pre a) = Some phi ->
  no_shadow (d_consts d) (dkeys (ma_sig a) ++ pre_bvars (ma_pre a)) = true ->
  under_forall_touches sigma false phi = false ->
  form_repeats sigma phi = false ->
  report_pre d (ma_sig a) sigma (ma_pre a) = Ok (items, eqs) ->
  map rlit_struct (items_lits items) = form_lits (d_consts d) (ma_sig a) sigma phi /\
  items_nums items = map cmp_gtree_of (form_cmps sigma phi) /\
  eqs = form_eqs sigma phi.
Proof. exact C20_reported_pre_lemma. Qed.

(* add / delete literals (typed form) and numeric effects of the unconditional group *)
Theorem C20_reported_group : forall (d : mdomain) (a : maction) (args : list string)
                                    (disc : list mlit) (nums : list mtree) (g : rgroup),
  let sigma := combine (dkeys (ma_sig a)) args in
  no_shadow (d_consts d) (dkeys (ma_sig a)) = true ->
  report_group d (ma_sig a) sigma None disc nums = Ok g ->
  map rlit_struct (rg_disc g) =
    map (fun l => mk_lit (d_consts d) (ma_sig a) sigma (l_pos l) (l_name l) (l_args l)) disc /\
  (existsb (tree_repeats sigma) nums = false -> rg_num g = map (subst_tree (subst sigma)) nums).
Proof. exact C20_reported_group_lemma. Qed.

(* the antecedent of a conditional group *)
Theorem C20_reported_ante : forall (d : mdomain) (a : maction) (args : list string) (ante : mpre) (phi : form)
                                   (disc : list mlit) (nums : list mtree) (g : rgroup),
  let sigma := combine (dkeys (ma_sig a)) args in
  denote_pre ante = Some phi ->
  no_shadow (d_consts d) (dkeys (ma_sig a) ++ pre_bvars ante) = true ->
  under_forall_touches sigma false phi = false ->
  form_repeats sigma phi = false ->
  report_group d (ma_sig a) sigma (Some ante) disc nums = Ok g ->
  exists items eqs, rg_ante g = Some (items, eqs) /\
    map rlit_struct (items_lits items) = form_lits (d_consts d) (ma_sig a) sigma phi /\
    items_nums items = map cmp_gtree_of (form_cmps sigma phi) /\
    eqs = form_eqs sigma phi.
Proof. exact C20_reported_ante_lemma. Qed.

(* the two models of Operator.ground() agree: whenever the typed report exists, Model.Exec's grounding exists and the
   report's grounded literals, types dropped, are exactly its literals, in order *)
Theorem C20_report_refines_ground : forall (d : mdomain) (p : mpre) (sg : signature) (pm : pmap)
                                           (items : list ritem) (eqs : list eqpair),
  report_pre d sg pm p = Ok (items, eqs) ->
  exists g, ground_pre d pm p = Ok g /\ map rlit_untyped (grounded_lits items) = gpre_lits g.
Proof. exact report_refines_ground. Qed.

(* finding D38: inside the class excluded by [under_forall_touches] the report is not the substituted schema *)
Theorem C20_reported_refuted_forall :
  exists (d : mdomain) (a : maction) (args : list string) (phi : form) (items : list ritem) (eqs : list eqpair),
    denote_pre (ma_pre a) = Some phi /\
    no_shadow (d_consts d) (dkeys (ma_sig a) ++ pre_bvars (ma_pre a)) = true /\
    form_repeats (combine (dkeys (ma_sig a)) args) phi = false /\
    report_pre d (ma_sig a) (combine (dkeys (ma_sig a)) args) (ma_pre a) = Ok (items, eqs) /\
    map rlit_struct (items_lits items) <>
      form_lits (d_consts d) (ma_sig a) (combine (dkeys (ma_sig a)) args) phi.
Proof. exact C20_reported_refuted_forall_lemma. Qed.

(* finding D07: inside the class excluded by [form_repeats] *)
Theorem C20_reported_refuted_repeat :
  exists (d : mdomain) (a : maction) (args : list string) (phi : form) (items : list ritem) (eqs : list eqpair),
    denote_pre (ma_pre a) = Some phi /\
    no_shadow (d_consts d) (dkeys (ma_sig a) ++ pre_bvars (ma_pre a)) = true /\
    under_forall_touches (combine (dkeys (ma_sig a)) args) false phi = false /\
    report_pre d (ma_sig a) (combine (dkeys (ma_sig a)) args) (ma_pre a) = Ok (items, eqs) /\
    items_nums items <> map cmp_gtree_of (form_cmps (combine (dkeys (ma_sig a)) args) phi).
Proof. exact C20_reported_refuted_repeat_lemma. Qed.

Print Assumptions C20_ground_is_substitution.
Print Assumptions C20_gname_is_subst.
Print Assumptions C20_ground_returns_iff.
Print Assumptions C20_ground_error_kinds.
Print Assumptions C20_lit.
Print Assumptions C20_lit_returns_iff.
Print Assumptions C20_pre.
Print Assumptions C20_flat.
Print Assumptions C20_reported_pre.
Print Assumptions C20_reported_group.
Print Assumptions C20_reported_ante.
Print Assumptions C20_report_refines_ground.
Print Assumptions C20_reported_refuted_forall.
Print Assumptions C20_reported_refuted_repeat.
