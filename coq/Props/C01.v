(* Property C01 - domain text is parsed faithfully or rejected, never silently altered.
   Statements only; proofs live in Proofs/C01_*.v.

   [parse_domain]  = the model of DomainParser.parse_domain (Model/Domain.v), [read_domain] = the independent
   reading of the grammar (Spec/Grammar.v), [e] = the token tree of the text (what C11 proves the reader returns,
   for every layout, letter case and comment placement).

   Full statements and what is proved:
     vocabulary_statement       FALSE of the code (finding D45: trailing untyped constants are dropped);
        C01_vocabulary_partial  holds whenever every constant is followed by its type,
        C01_vocabulary_refuted  the witness (replayed on the implementation by the check).
     faithful_statement         FALSE of the code (finding D47: '(f)' for a function declared with parameters is read
                                as the declaration's own parameter list; and '(= 1 2)' over two numerals is stored as
                                an object equality, which raises at grounding);
        C01_faithful_partial    holds for every action whose reading satisfies [action_ok] (no such term),
        C01_faithful_refuted    the witness: parsed, grounded and evaluated without any error, other meaning. *)
From Coq Require Import List Ascii String Bool Arith PrimFloat Permutation.
From Verif Require Import Base.Result Base.Str Base.Sexp Base.PyDict Model.Types Model.Domain Model.Exec
  Spec.Pddl Spec.Grammar Spec.Faithful Proofs.C01_Defs Proofs.C01_Typed Proofs.C01_Vocab Proofs.C01_Pre
  Proofs.C01_Eff Proofs.C01_Action Proofs.C01_Domain Proofs.C01_Witness.
Import ListNotations.
Open Scope string_scope.
Open Scope list_scope.

(* ---------- vocabulary: types (with parents, any order), constants, predicates, functions, action schemas ------- *)
(* full statement (Proofs/C01_Defs.v):
     vocabulary_statement := forall num e m sd, parse_domain num e = Ok m -> read_domain num e = Some sd ->
        sections_once e -> ~ In ":private" (map fst (sd_preds sd)) -> model_vocabulary m = spec_vocabulary sd *)
Theorem C01_vocabulary_partial : forall num e m sd,
  parse_domain num e = Ok m -> read_domain num e = Some sd ->
  sections_once e -> constants_all_typed e -> ~ In ":private" (map fst (sd_preds sd)) ->
  model_vocabulary m = spec_vocabulary sd.
Proof. exact vocabulary_partial. Qed.

Theorem C01_vocabulary_refuted : ~ vocabulary_statement.
Proof. exact vocabulary_statement_false. Qed.

(* with every name declared once, the tables are the declarations exactly as written, in order *)
Theorem C01_vocabulary_distinct : forall sd, distinct_names sd -> spec_vocabulary sd = plain_vocabulary sd.
Proof. exact spec_vocabulary_plain. Qed.

(* the building blocks, without any side condition: typed lists (grouped / untyped parameters) and (:types ...) *)
Theorem C01_signature : forall tt toks sg,
  parse_signature tt toks = Ok sg -> exists rows, read_typed toks = Some rows /\ sg = dict_of rows.
Proof. exact parse_signature_spec. Qed.

Theorem C01_types : forall toks tt rows,
  parse_types toks = Ok tt -> read_types toks = Some rows -> tt = type_rows rows.
Proof. exact parse_types_spec. Qed.

(* what happens to the constants in general: the parsed table plus the dropped names is the declared table *)
Theorem C01_constants : forall tt toks r names rows,
  parse_constants tt toks = Ok r -> atom_names toks = Some names -> read_typed_list names [] = Some rows ->
  dupdate r (map (fun c => (c, "object")) (trailing_untyped names [])) = dict_of rows.
Proof. exact parse_constants_spec. Qed.

(* ---------- preconditions and effects denote what is written ---------- *)
(* full statement (Proofs/C01_Defs.v):
     faithful_statement := forall num e m sd n ma, parse_domain num e = Ok m -> read_domain num e = Some sd ->
        sections_once e -> names_ok sd -> dget (d_actions m) n = Some ma ->
        exists sa, In sa (sd_actions sd) /\ n = lower_string (a_name sa) /\ action_faithful ma sa
   where action_faithful = same name, same ordered typed parameters, the precondition denotes an equivalent formula
   (forall eps tt objs env s, holds ... f' = holds ... f), the effects denote the same groups up to order. *)
Theorem C01_faithful_partial : forall num e m sd n ma,
  parse_domain num e = Ok m -> read_domain num e = Some sd -> sections_once e -> names_ok sd ->
  dget (d_actions m) n = Some ma ->
  exists sa, In sa (sd_actions sd) /\ n = lower_string (a_name sa) /\
             (action_ok (vo_funcs (spec_vocabulary sd)) sa = true -> action_faithful ma sa).
Proof. exact faithful_action_ok. Qed.

(* all actions at once, in the order of the text *)
Theorem C01_faithful_all : forall num e m sd,
  parse_domain num e = Ok m -> read_domain num e = Some sd -> sections_once e -> names_ok sd ->
  exists parsed,
    d_actions m = dict_of (map name_pair parsed) /\
    Forall2 (fun ma sa => ma_name ma = lower_string (a_name sa) /\
                          (action_ok (vo_funcs (spec_vocabulary sd)) sa = true -> action_faithful ma sa))
            parsed (sd_actions sd).
Proof. exact faithful_all_ok. Qed.

Theorem C01_faithful_refuted : ~ faithful_statement.
Proof. exact faithful_statement_false. Qed.

(* the same witness with the silence made explicit: the altered action is grounded and evaluated without an error *)
Theorem C01_faithful_refuted_silent :
  exists num e m sd ma sa,
    parse_domain num e = Ok m /\ read_domain num e = Some sd /\ sections_once e /\ names_ok sd /\
    dget (d_actions m) (lower_string (a_name sa)) = Some ma /\ sd_actions sd = [sa] /\
    ~ action_faithful ma sa /\
    exists ga s objs, ground_action m ma ["o1"] = Ok ga /\ is_applicable m 0x1p-14%float (Some objs) ga s = Ok true.
Proof. exact faithful_refuted_silent. Qed.

(* one section at a time, for any tables: preconditions ... *)
Theorem C01_precondition : forall num tt consts preds funcs sfuncs,
  (forall f sg, dget funcs f = Some sg -> lookup f sfuncs = Some sg) ->
  (forall f sg, dget funcs f = Some sg -> str_in f keywords = false) ->
  (forall p, dmem preds p = true -> str_in p keywords = false) ->
  forall sg e p f,
  parse_preconditions num tt consts preds funcs sg e = Ok p ->
  read_precondition num e = Some f ->
  form_ok sfuncs f = true ->
  exists f', denote_pre p = Some f' /\ form_equiv f' f.
Proof. exact parse_preconditions_faithful. Qed.

(* ... and effects *)
Theorem C01_effects : forall num tt consts preds funcs sfuncs,
  (forall f sg, dget funcs f = Some sg -> lookup f sfuncs = Some sg) ->
  (forall f sg, dget funcs f = Some sg -> str_in f keywords = false) ->
  (forall p, dmem preds p = true -> str_in p keywords = false) ->
  forall sg e ef es,
  parse_effects num tt consts preds funcs sg e = Ok ef ->
  read_effects num e = Some es ->
  forallb (eff_ok sfuncs) es = true ->
  exists es', denote_eff_parts (ea_disc ef) (ea_num ef) (ea_cond ef) (ea_univ ef) = Some es' /\ effs_rel es' es.
Proof. exact parse_effects_faithful. Qed.

(* ---------- the hypotheses are satisfiable by a non-trivial text ---------- *)
Theorem C01_example :
  is_ok (parse_domain num_tab example_sexp) = true /\
  sections_once example_sexp /\ constants_all_typed example_sexp /\
  match read_domain num_tab example_sexp with
  | Some sd =>
      names_not_keywords (map fst (sd_preds sd)) && names_not_keywords (map fst (sd_funcs sd)) &&
      negb (str_in ":private" (map fst (sd_preds sd))) &&
      forallb (action_ok (vo_funcs (spec_vocabulary sd))) (sd_actions sd)
  | None => false
  end = true.
Proof. exact example_all. Qed.

Print Assumptions C01_vocabulary_partial.
Print Assumptions C01_vocabulary_refuted.
Print Assumptions C01_vocabulary_distinct.
Print Assumptions C01_signature.
Print Assumptions C01_types.
Print Assumptions C01_constants.
Print Assumptions C01_faithful_partial.
Print Assumptions C01_faithful_all.
Print Assumptions C01_faithful_refuted.
Print Assumptions C01_faithful_refuted_silent.
Print Assumptions C01_precondition.
Print Assumptions C01_effects.
Print Assumptions C01_example.
