(* Property C01 - domain text is parsed faithfully or rejected, never silently altered.
   Statements only; proofs live in Proofs/C01_*.v.

   [parse_domain]  = the model of DomainParser.parse_domain (Model/Domain.v), [read_domain] = the independent
   reading of the grammar (Spec/Grammar.v), [e] = the token tree of the text (what C11 proves the reader returns,
   for every layout, letter case and comment placement).  No bound on the size of the text anywhere.

     C01_vocabulary           the parsed tables are the declarations of the text (types with parents in any order,
                              constants, predicates, functions, action schemas with ordered typed parameters).
     C01_faithful_partial     every parsed action has the name, the parameters, a precondition denoting an equivalent
                              formula and the same effect groups as the action written, provided its reading is
                              [action_ok]: no '=' over two numerals, no assignment to a reserved word.
     faithful_statement       (the same without [action_ok]) is FALSE: the library stores '(= 1 1.0)' as an object
                              equality over the names "1" and "1.0";  C01_faithful_refuted is the witness and
                              C01_refuted_raises shows that this action raises at its first grounding - the outcome
                              the property allows ("at the latest when the affected action is first grounded").
   The deviations found while building this (D45 trailing untyped constants dropped, D46/D07 repeated argument or
   wrong arity silently altered, D47 '(f)' read as the declaration) are repaired in /repo; their witnesses are the
   regression examples at the end. *)
From Coq Require Import List Ascii String Bool Arith PrimFloat Permutation.
From Verif Require Import Base.Result Base.Str Base.Sexp Base.PyDict Model.Types Model.Domain Model.Exec
  Spec.Pddl Spec.Grammar Spec.Faithful Proofs.C01_Defs Proofs.C01_Typed Proofs.C01_Vocab Proofs.C01_Pre
  Proofs.C01_Eff Proofs.C01_Action Proofs.C01_Domain Proofs.C01_Witness.
Import ListNotations.
Open Scope string_scope.
Open Scope list_scope.

(* ---------- vocabulary: types (with parents, any order), constants, predicates, functions, action schemas ------- *)
Theorem C01_vocabulary : forall num e m sd,
  parse_domain num e = Ok m -> read_domain num e = Some sd ->
  sections_once e -> ~ In ":private" (map fst (sd_preds sd)) ->
  model_vocabulary m = spec_vocabulary sd.
Proof. exact vocabulary_faithful. Qed.

(* with every name declared once, the tables are the declarations exactly as written, in order *)
Theorem C01_vocabulary_distinct : forall sd, distinct_names sd -> spec_vocabulary sd = plain_vocabulary sd.
Proof. exact spec_vocabulary_plain. Qed.

(* the building blocks, without any side condition: typed lists (grouped / untyped parameters), (:types ...),
   (:constants ...) *)
Theorem C01_signature : forall tt toks sg,
  parse_signature tt toks = Ok sg -> exists rows, read_typed toks = Some rows /\ sg = dict_of rows.
Proof. exact parse_signature_spec. Qed.

Theorem C01_types : forall toks tt rows,
  parse_types toks = Ok tt -> read_types toks = Some rows -> tt = type_rows rows.
Proof. exact parse_types_spec. Qed.

Theorem C01_constants : forall tt toks r names rows,
  parse_constants tt toks = Ok r -> atom_names toks = Some names -> read_typed_list names [] = Some rows ->
  r = dict_of rows.
Proof. exact parse_constants_spec. Qed.

(* ---------- preconditions and effects denote what is written ---------- *)
(* action_faithful ma sa (Proofs/C01_Defs.v) = same lower-case name, same ordered typed parameters, the precondition
   denotes an equivalent formula (forall eps tt objs env s, holds ... f' = holds ... f; the object model keeps the
   (in)equality pairs apart from the other operands, hence "equivalent"), the effects denote the same groups up to
   the order inside a group and of the groups (the library keeps both in sets). *)
Theorem C01_faithful_partial : forall num e m sd n ma,
  parse_domain num e = Ok m -> read_domain num e = Some sd -> sections_once e -> names_ok sd ->
  dget (d_actions m) n = Some ma ->
  exists sa, In sa (sd_actions sd) /\ n = lower_string (a_name sa) /\
             (action_ok sa = true -> action_faithful ma sa).
Proof. exact faithful_action_ok. Qed.

(* all actions at once, in the order of the text *)
Theorem C01_faithful_all : forall num e m sd,
  parse_domain num e = Ok m -> read_domain num e = Some sd -> sections_once e -> names_ok sd ->
  exists parsed,
    d_actions m = dict_of (map name_pair parsed) /\
    Forall2 (fun ma sa => ma_name ma = lower_string (a_name sa) /\ (action_ok sa = true -> action_faithful ma sa))
            parsed (sd_actions sd).
Proof. exact faithful_all_ok. Qed.

Theorem C01_faithful_refuted : ~ faithful_statement.
Proof. exact faithful_statement_false. Qed.

(* the witness of the refutation cannot be used: Operator.ground() raises for every call of the action *)
Theorem C01_refuted_raises :
  exists m sd ma sa,
    parse_domain num_tab numpair_sexp = Ok m /\ read_domain num_tab numpair_sexp = Some sd /\
    sections_once numpair_sexp /\ names_ok sd /\
    sd_actions sd = [sa] /\ dget (d_actions m) (lower_string (a_name sa)) = Some ma /\
    ~ action_faithful ma sa /\
    forall args, exists k, ground_action m ma args = Err k.
Proof. exact numpair_witness. Qed.

(* one section at a time, for any tables: preconditions ... *)
Theorem C01_precondition : forall num tt consts preds funcs,
  (forall f sg, dget funcs f = Some sg -> str_in f keywords = false) ->
  (forall p, dmem preds p = true -> str_in p keywords = false) ->
  forall sg e p f,
  parse_preconditions num tt consts preds funcs sg e = Ok p ->
  read_precondition num e = Some f ->
  form_ok f = true ->
  exists f', denote_pre p = Some f' /\ form_equiv f' f.
Proof. exact parse_preconditions_faithful. Qed.

(* ... and effects *)
Theorem C01_effects : forall num tt consts preds funcs,
  (forall f sg, dget funcs f = Some sg -> str_in f keywords = false) ->
  (forall p, dmem preds p = true -> str_in p keywords = false) ->
  forall sg e ef es,
  parse_effects num tt consts preds funcs sg e = Ok ef ->
  read_effects num e = Some es ->
  forallb eff_ok es = true ->
  exists es', denote_eff_parts (ea_disc ef) (ea_num ef) (ea_cond ef) (ea_univ ef) = Some es' /\ effs_rel es' es.
Proof. exact parse_effects_faithful. Qed.

(* ---------- the hypotheses are satisfiable by a non-trivial text ---------- *)
Theorem C01_example :
  is_ok (parse_domain num_tab example_sexp) = true /\
  sections_once example_sexp /\
  match read_domain num_tab example_sexp with
  | Some sd =>
      names_not_keywords (map fst (sd_preds sd)) && names_not_keywords (map fst (sd_funcs sd)) &&
      negb (str_in ":private" (map fst (sd_preds sd))) &&
      forallb action_ok (sd_actions sd)
  | None => false
  end = true.
Proof. exact example_all. Qed.

(* ---------- regression: the witnesses of the repaired deviations ---------- *)
Theorem C01_D45_repaired :
  match parse_domain num_tab d45_sexp with Ok m => d_consts m | Err _ => [] end
  = [("c1", "a"); ("c2", "object"); ("c3", "object")].
Proof. exact d45_repaired. Qed.

Theorem C01_D46_repeated_rejected : is_ok (parse_domain num_tab (text_sexp (d46_text "(r ?x ?x)"))) = false.
Proof. exact d46_repeated_rejected. Qed.

Theorem C01_D47_rejected : is_ok (parse_domain num_tab (text_sexp (d46_text "(>= (f) 1)"))) = false.
Proof. exact d47_rejected. Qed.

Print Assumptions C01_vocabulary.
Print Assumptions C01_vocabulary_distinct.
Print Assumptions C01_signature.
Print Assumptions C01_types.
Print Assumptions C01_constants.
Print Assumptions C01_faithful_partial.
Print Assumptions C01_faithful_all.
Print Assumptions C01_faithful_refuted.
Print Assumptions C01_refuted_raises.
Print Assumptions C01_precondition.
Print Assumptions C01_effects.
Print Assumptions C01_example.
Print Assumptions C01_D45_repaired.
Print Assumptions C01_D46_repeated_rejected.
Print Assumptions C01_D47_rejected.
