(* Property C01 - domain text is parsed faithfully or rejected, never silently altered.
   Statements only; proofs live in Proofs/C01_*.v.

   [parse_domain]  = the model of DomainParser.parse_domain (Model/Domain.v), [read_domain] = the independent
   reading of the grammar (Spec/Grammar.v), [e] = the token tree of the text (what C11 proves the reader returns,
   for every layout, letter case and comment placement).  No bound on the size of the text anywhere.

     C01_vocabulary           the parsed tables are the declarations of the text (types with parents in any order,
                              constants, predicates, functions, action schemas with ordered typed parameters).
     C01_faithful_partial     every parsed action has the name, the parameters, a precondition denoting an equivalent
                              formula and the same effect groups as the action written, provided its reading is
                              [action_ok]: no '=' over two numerals, no assignment to a reserved word.
     faithful_statement       (the same without [action_ok]) is FALSE: the library stores '(= 1 1.0)' as an object
                              equality over the names "1" and "1.0";  C01_faithful_refuted is the witness and
                              C01_refuted_raises shows that this action raises at its first grounding - the outcome
                              the property allows ("at the latest when the affected action is first grounded").
     C01_rejects_*            nothing is skipped: whatever stands where a condition / an effect item / a numeric term / a
                              name of a typed list is expected and is not a form the library represents makes the
                              parser fail (imply, exists, when-in-condition, positive literals over undeclared
                              predicates, scale-up/-down, nested and, n-ary arithmetic, either, repeated arguments);
     C01_first_use_*          what is stored although it cannot be evaluated (a negative literal / an effect over an
                              undeclared predicate, a literal of the wrong arity, an (in)equality over a name that is
                              not a parameter such as '(= 1 1.0)') makes Operator.ground() fail for every call.
     C01_supported_accepted   every domain of the supported fragment G (Spec/Fragment.v, a decidable predicate on the
                              token tree written with the Spec readers only) is accepted by the parser.
     C01_merge_*              the library keeps the operands of a condition in a SET and skips a compound operand it takes
                              for one already present, the model appends to a LIST: for every duplicate test that relates
                              only conditions of the same meaning both denote the same formula (C01_merge_sound), the
                              structural test of the library's __eq__ is such a test (C01_merge_structural); a test on
                              the printed text with constants rounded to two decimals is not (C01_merge_printed_refuted,
                              with the witness (or (sealed ?t) (<= (leak ?t) 0.004)) / ... 0.001)).
   The deviations found while building this (D45 trailing untyped constants dropped, D46/D07 repeated argument or
   wrong arity silently altered, D47 '(f)' read as the declaration) are repaired in /repo; their witnesses are the
   regression examples at the end. *)
From Coq Require Import List Ascii String Bool Arith PrimFloat Permutation.
From Verif Require Import Base.Result Base.Str Base.Sexp Base.PyDict Model.Types Model.Domain Model.Exec
  Spec.Pddl Spec.Grammar Spec.Faithful Proofs.C01_Defs Proofs.C01_Typed Proofs.C01_Vocab Proofs.C01_Pre
  Spec.Fragment Proofs.C01_Eff Proofs.C01_Action Proofs.C01_Domain Proofs.C01_Witness Proofs.C01_Rejects Proofs.C01_Accept
  Proofs.C01_Merge.
Import ListNotations.
Open Scope string_scope.
Open Scope list_scope.

(* ---------- vocabulary: types (with parents, any order), constants, predicates, functions, action schemas ------- *)
Theorem C01_vocabulary : forall num e m sd,
  parse_domain num e = Ok m -> read_domain num e = Some sd ->
  sections_once e -> ~ In ":private" (map fst (sd_preds sd)) ->
  model_vocabulary m = spec_vocabulary sd.
Proof. exact vocabulary_faithful. Qed.

(* with every name declared once, the tables are the declarations exactly as written, in order *)
Theorem C01_vocabulary_distinct : forall sd, distinct_names sd -> spec_vocabulary sd = plain_vocabulary sd.
Proof. exact spec_vocabulary_plain. Qed.

(* the building blocks, without any side condition: typed lists (grouped / untyped parameters), (:types ...),
   (:constants ...) *)
Theorem C01_signature : forall tt toks sg,
  parse_signature tt toks = Ok sg -> exists rows, read_typed toks = Some rows /\ sg = dict_of rows.
Proof. exact parse_signature_spec. Qed.

Theorem C01_types : forall toks tt rows,
  parse_types toks = Ok tt -> read_types toks = Some rows -> tt = type_rows rows.
Proof. exact parse_types_spec. Qed.

Theorem C01_constants : forall tt toks r names rows,
  parse_constants tt toks = Ok r -> atom_names toks = Some names -> read_typed_list names [] = Some rows ->
  r = dict_of rows.
Proof. exact parse_constants_spec. Qed.

(* ---------- preconditions and effects denote what is written ---------- *)
(* action_faithful ma sa (Proofs/C01_Defs.v) = same lower-case name, same ordered typed parameters, the precondition
   denotes an equivalent formula (forall eps tt objs env s, holds ... f' = holds ... f; the object model keeps the
   (in)equality pairs apart from the other operands, hence "equivalent"), the effects denote the same groups up to
   the order inside a group and of the groups (the library keeps both in sets). *)
Theorem C01_faithful_partial : forall num e m sd n ma,
  parse_domain num e = Ok m -> read_domain num e = Some sd -> sections_once e -> names_ok sd ->
  dget (d_actions m) n = Some ma ->
  exists sa, In sa (sd_actions sd) /\ n = lower_string (a_name sa) /\
             (action_ok sa = true -> action_faithful ma sa).
Proof. exact faithful_action_ok. Qed.

(* all actions at once, in the order of the text *)
Theorem C01_faithful_all : forall num e m sd,
  parse_domain num e = Ok m -> read_domain num e = Some sd -> sections_once e -> names_ok sd ->
  exists parsed,
    d_actions m = dict_of (map name_pair parsed) /\
    Forall2 (fun ma sa => ma_name ma = lower_string (a_name sa) /\ (action_ok sa = true -> action_faithful ma sa))
            parsed (sd_actions sd).
Proof. exact faithful_all_ok. Qed.

Theorem C01_faithful_refuted : ~ faithful_statement.
Proof. exact faithful_statement_false. Qed.

(* the witness of the refutation cannot be used: Operator.ground() raises for every call of the action *)
Theorem C01_refuted_raises :
  exists m sd ma sa,
    parse_domain num_tab numpair_sexp = Ok m /\ read_domain num_tab numpair_sexp = Some sd /\
    sections_once numpair_sexp /\ names_ok sd /\
    sd_actions sd = [sa] /\ dget (d_actions m) (lower_string (a_name sa)) = Some ma /\
    ~ action_faithful ma sa /\
    forall args, exists k, ground_action m ma args = Err k.
Proof. exact numpair_witness. Qed.

(* one section at a time, for any tables: preconditions ... *)
Theorem C01_precondition : forall num tt consts preds funcs,
  (forall f sg, dget funcs f = Some sg -> str_in f keywords = false) ->
  (forall p, dmem preds p = true -> str_in p keywords = false) ->
  forall sg e p f,
  parse_preconditions num tt consts preds funcs sg e = Ok p ->
  read_precondition num e = Some f ->
  form_ok f = true ->
  exists f', denote_pre p = Some f' /\ form_equiv f' f.
Proof. exact parse_preconditions_faithful. Qed.

(* ... and effects *)
Theorem C01_effects : forall num tt consts preds funcs,
  (forall f sg, dget funcs f = Some sg -> str_in f keywords = false) ->
  (forall p, dmem preds p = true -> str_in p keywords = false) ->
  forall sg e ef es,
  parse_effects num tt consts preds funcs sg e = Ok ef ->
  read_effects num e = Some es ->
  forallb eff_ok es = true ->
  exists es', denote_eff_parts (ea_disc ef) (ea_num ef) (ea_cond ef) (ea_univ ef) = Some es' /\ effs_rel es' es.
Proof. exact parse_effects_faithful. Qed.

(* ---------- rejected, never skipped ---------- *)
(* x stands where a condition is expected (a conjunct, a member of a nested and/or, of a forall body): then its head
   is one the parser knows - and, or, not, =, a comparison, forall, or a DECLARED predicate.  So imply, exists,
   when ..., and positive literals over undeclared predicates are errors wherever they occur. *)
Theorem C01_rejects_condition : forall num tt consts preds funcs sg body p x,
  parse_preconditions num tt consts preds funcs sg (SList body) = Ok p ->
  cond_position x (conds_of body) ->
  exists h, head_of x = Ok h /\ cond_head_ok preds h = true.
Proof. exact parse_preconditions_rejects. Qed.

Theorem C01_rejects_condition_form : forall num tt consts preds funcs sg body h args,
  cond_head_ok preds h = false ->
  cond_position (SList (Atom h :: args)) (conds_of body) ->
  exists k, parse_preconditions num tt consts preds funcs sg (SList body) = Err k.
Proof. exact precondition_form_rejected. Qed.

(* an effect is (and e1 ... en), every ei headed by a declared predicate, not, forall, when or an assignment:
   scale-up / scale-down, a nested and, a single-literal body, an undeclared predicate are errors *)
Theorem C01_rejects_effect : forall num tt consts preds funcs sg e ef,
  parse_effects num tt consts preds funcs sg e = Ok ef ->
  exists nodes, e = SList (Atom "and" :: nodes) /\
                forall x, In x nodes -> exists h, head_of x = Ok h /\ eff_head_ok preds h = true.
Proof. exact parse_effects_rejects. Qed.

(* n-ary arithmetic: every arithmetic operator of an accepted numeric term has exactly two operands *)
Theorem C01_rejects_nary : forall num funcs fuel e t,
  construct num funcs fuel e = Ok t -> arith_binary e = true.
Proof. exact construct_binary. Qed.

(* either: every token of an accepted typed list is a name *)
Theorem C01_rejects_either : forall tt toks sg,
  parse_signature tt toks = Ok sg -> forall x, In x toks -> exists s, x = Atom s.
Proof. exact parse_signature_names. Qed.

(* a repeated argument: the arguments of an accepted literal are pairwise different names *)
Theorem C01_rejects_repeated : forall sg consts pos n args l,
  parse_untyped_predicate sg consts pos (SList (Atom n :: args)) = Ok l ->
  atom_names args = Some (l_args l) /\ has_dup (l_args l) = false.
Proof. exact literal_no_repeat. Qed.

(* ---------- stored but unusable: the first grounding raises ---------- *)
Theorem C01_first_use_precondition : forall dom a op os eqs neqs pos p args,
  ma_pre a = MPre op os eqs neqs -> In (MLit pos p args) os -> bad_literal dom p args ->
  forall call, exists k, ground_action dom a call = Err k.
Proof. exact ground_action_bad_precondition. Qed.

Theorem C01_first_use_effect : forall dom a l,
  In l (ma_disc a) -> bad_literal dom (l_name l) (l_args l) ->
  forall call, exists k, ground_action dom a call = Err k.
Proof. exact ground_action_bad_effect. Qed.

Theorem C01_first_use_when_result : forall dom a ce l,
  In ce (ma_cond a) -> In l (ce_disc ce) -> bad_literal dom (l_name l) (l_args l) ->
  forall call, exists k, ground_action dom a call = Err k.
Proof. exact ground_action_bad_when_result. Qed.

Theorem C01_first_use_equality : forall dom a op os eqs neqs x y,
  ma_pre a = MPre op os eqs neqs -> In (x, y) (eqs ++ neqs) ->
  ~ In x (dkeys (ma_sig a)) \/ ~ In y (dkeys (ma_sig a)) ->
  forall call, exists k, ground_action dom a call = Err k.
Proof. exact ground_action_unbound_equality. Qed.

(* ---------- operands kept in a set: merging siblings of the same meaning is invisible, merging others is not ------- *)
(* add_operand_unique same c p = p when an operand of p is [same] as c, else add_operand c p (Proofs/C01_Merge.v);
   sound_test same = "same a b = true only if a and b denote equivalent formulas (or both nothing)" *)
Theorem C01_merge_sound : forall same, sound_test same ->
  forall c p, same_meaning (denote_pre (add_operand_unique same c p)) (denote_pre (add_operand c p)).
Proof. exact merge_sound. Qed.

(* the library's own test - same connective, operands / equality pairs / inequality pairs equal as sets, literals equal,
   quantifier over the same variable and type, numeric operands never equal (identity) - is sound *)
Theorem C01_merge_structural_test_sound : sound_test structural_same.
Proof. exact structural_same_sound. Qed.

Theorem C01_merge_structural : forall c p,
  same_meaning (denote_pre (add_operand_unique structural_same c p)) (denote_pre (add_operand c p)).
Proof. exact merge_structural. Qed.

(* the hypothesis cannot be dropped: a test that takes '(or (sealed ?t) (<= (leak ?t) 0.001))' for the sibling with 0.004
   (as comparing the texts printed with two decimals does) changes what the parent conjunction means *)
Theorem C01_merge_unsound_witness : forall same,
  same (leak_cond c_tight) (leak_cond c_loose) = true ->
  ~ same_meaning (denote_pre (add_operand_unique same (leak_cond c_tight) (MPre "and" [leak_cond c_loose] [] [])))
                 (denote_pre (add_operand (leak_cond c_tight) (MPre "and" [leak_cond c_loose] [] []))).
Proof. exact merge_unsound_witness. Qed.

Theorem C01_merge_printed_refuted :
  printed_same 2 (leak_cond c_tight) (leak_cond c_loose) = true /\ ~ sound_test (printed_same 2).
Proof. exact (conj twins_print_alike printed_merge_unsound). Qed.

(* the structural test does merge something (the hypothesis of C01_merge_sound is met by a test that fires) *)
Theorem C01_merge_example :
  add_operand_unique structural_same
    (MNested (MPre "or" [MLit true "q" ["?x"]; MLit false "p" ["?x"]] [("?x", "?y")] []))
    (MPre "and" [MNested (MPre "or" [MLit false "p" ["?x"]; MLit true "q" ["?x"]] [("?x", "?y")] [])] [] [])
  = MPre "and" [MNested (MPre "or" [MLit false "p" ["?x"]; MLit true "q" ["?x"]] [("?x", "?y")] [])] [] [].
Proof. exact merge_structural_fires. Qed.

(* ---------- the supported fragment is accepted ---------- *)
Theorem C01_supported_accepted : forall num e, G num e = true -> exists m, parse_domain num e = Ok m.
Proof. exact supported_accepted. Qed.

(* G is inhabited by the non-trivial example below (types child-before-parent, a parent-only type, constants, grouped
   and untyped parameters, or / not / = / forall / comparisons, add / del / increase / when / forall-when) *)
Theorem C01_example_in_G : G num_tab example_sexp = true.
Proof. exact example_in_G. Qed.

(* ---------- the hypotheses are satisfiable by a non-trivial text ---------- *)
Theorem C01_example :
  is_ok (parse_domain num_tab example_sexp) = true /\
  sections_once example_sexp /\
  match read_domain num_tab example_sexp with
  | Some sd =>
      names_not_keywords (map fst (sd_preds sd)) && names_not_keywords (map fst (sd_funcs sd)) &&
      negb (str_in ":private" (map fst (sd_preds sd))) &&
      forallb action_ok (sd_actions sd)
  | None => false
  end = true.
Proof. exact example_all. Qed.

(* ---------- regression: the witnesses of the repaired deviations ---------- *)
Theorem C01_D45_repaired :
  match parse_domain num_tab d45_sexp with Ok m => d_consts m | Err _ => [] end
  = [("c1", "a"); ("c2", "object"); ("c3", "object")].
Proof. exact d45_repaired. Qed.

Theorem C01_D46_repeated_rejected : is_ok (parse_domain num_tab (text_sexp (d46_text "(r ?x ?x)"))) = false.
Proof. exact d46_repeated_rejected. Qed.

Theorem C01_D47_rejected : is_ok (parse_domain num_tab (text_sexp (d46_text "(>= (f) 1)"))) = false.
Proof. exact d47_rejected. Qed.

Print Assumptions C01_vocabulary.
Print Assumptions C01_vocabulary_distinct.
Print Assumptions C01_signature.
Print Assumptions C01_types.
Print Assumptions C01_constants.
Print Assumptions C01_faithful_partial.
Print Assumptions C01_faithful_all.
Print Assumptions C01_faithful_refuted.
Print Assumptions C01_refuted_raises.
Print Assumptions C01_precondition.
Print Assumptions C01_effects.
Print Assumptions C01_rejects_condition.
Print Assumptions C01_rejects_condition_form.
Print Assumptions C01_rejects_effect.
Print Assumptions C01_rejects_nary.
Print Assumptions C01_rejects_either.
Print Assumptions C01_rejects_repeated.
Print Assumptions C01_first_use_precondition.
Print Assumptions C01_first_use_effect.
Print Assumptions C01_first_use_when_result.
Print Assumptions C01_first_use_equality.
Print Assumptions C01_merge_sound.
Print Assumptions C01_merge_structural_test_sound.
Print Assumptions C01_merge_structural.
Print Assumptions C01_merge_unsound_witness.
Print Assumptions C01_merge_printed_refuted.
Print Assumptions C01_merge_example.
Print Assumptions C01_supported_accepted.
Print Assumptions C01_example_in_G.
Print Assumptions C01_example.
Print Assumptions C01_D45_repaired.
Print Assumptions C01_D46_repeated_rejected.
Print Assumptions C01_D47_rejected.
