(* Structured correspondence for C17: the per-agent domain TEXTS are parsed by the model's own domain parser
   (Model/Domain.v), combined by Model/CombineDomains.v, exported by C08's exporter model and parsed again;
   compared with what the implementation reports for locate_domains and for the re-parsed exported file.
   Three verdict units per case:
     combine  agree: vocabulary of the model's combination = vocabulary of locate_domains' result (both raise when
                     a file does not parse);  ok: nothing further (the union oracle is Corr/C17.v's);
     wf       agree: when every file parses and the files agree on the parents of shared types, the model's
                     combination satisfies wf_mdomain, the hypothesis of C17_roundtrip_exporter (so the theorem
                     speaks about this case);  ok: nothing to judge;
     reparse  agree: when wf holds, the model's parse of the model's export of the combination has the vocabulary
                     the implementation reports for the re-parsed exported file;
              ok   : the implementation's re-parsed file has the vocabulary of its combination. *)
From Coq Require Import List Ascii String Bool Arith PrimFloat.
From Verif Require Import Base.Result Base.Str Base.Sexp Base.PyDict Model.Tokenizer Model.Types Model.Domain
  Model.DomainExporter Model.CombineDomains Spec.Pddl Proofs.C08_Defs Corr.Common Corr.Core.
Import ListNotations.
Open Scope string_scope.
Open Scope list_scope.

Record scase := SC {
  s_texts : list string;              (* the agent files in discovery order, escaped *)
  s_nums : list (string * float);     (* float(token) for the numerals of the files and of the exported text *)
  s_dpre : nat; s_deff : nat;         (* DEFAULT_DECIMAL_DIGITS, DEFAULT_DIGITS *)
  s_dummy : bool;
  s_types_agree : bool;               (* no type is given two different parents by the files *)
  s_vocab : obs string;               (* ops_core.vocab(locate_domains(...)) *)
  s_rt_vocab : obs string             (* ops_core.vocab(parse(export_combined_domain(...))) *)
}.

Definition s_num (c : scase) : numparser := fun s => lookup s (s_nums c).

Definition s_model (c : scase) : result mdomain :=
  locate_from_texts (s_num c) (s_dummy c) (map unesc (s_texts c)).

Definition s_model_rt (c : scase) (m : mdomain) : obs string :=
  match parse_domain (s_num c) (export_domain (s_dpre c) (s_deff c) m) with
  | Ok m' => Returned (model_vocab m')
  | Err _ => Raised
  end.

Definition judge_s (c : scase) : list verdict :=
  let m := s_model c in
  let mv := match m with Ok d => Returned (model_vocab d) | Err _ => Raised end in
  let wf := match m with Ok d => wf_mdomain (s_num c) (s_dpre c) (s_deff c) d | Err _ => false end in
  [ {| v_agree := obs_eqb String.eqb mv (s_vocab c); v_ok := true; v_known := false |};
    {| v_agree := match m with Ok _ => wf || negb (s_types_agree c) | Err _ => true end; v_ok := true; v_known := false |};
    {| v_agree := match m with
                  | Ok d => if wf then obs_eqb String.eqb (s_model_rt c d) (s_rt_vocab c) else true
                  | Err _ => true
                  end;
       v_ok := match s_vocab c with
               | Returned v => obs_eqb String.eqb (Returned v) (s_rt_vocab c) || negb (s_types_agree c)
               | Raised => true
               end;
       v_known := false |} ].

Definition run (cases : list scase) : string := t2s (map verdict_char (flat_map judge_s cases)).

Definition explain (c : scase) :=
  let m := s_model c in
  (match m with Ok d => Returned (model_vocab d) | Err k => Raised end,
   match m with Ok d => Some (wf_mdomain (s_num c) (s_dpre c) (s_deff c) d, s_model_rt c d) | Err _ => None end).
