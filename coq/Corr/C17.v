(* Correspondence for C17: the converters' results versus the model (Model/Combine.v) and the union spec
   (Spec/Combine.v).  The harness parses every per-agent file with the implementation and hands the
   vocabulary dumps over; see harness/ops_c17.py for the dump format. *)
From Coq Require Import List Ascii String Bool.
From Verif Require Import Base.Result Base.Str Model.Combine Spec.Combine Corr.Common.
Import ListNotations.
Open Scope string_scope.
Open Scope list_scope.

(* short constructors for the literals *)
Definition D := Build_domainv.
Definition P := Build_problemv.

Record dcase := DC {
  dc_defaults : alist;               (* Domain().types before the call *)
  dc_dummy : bool;
  dc_files : list (obs domainv);     (* per-agent dumps in discovery order; Raised: the file does not parse *)
  dc_obs : obs domainv;              (* locate_domains *)
  dc_fresh_after : list string;      (* names in Domain().types after the call *)
  dc_others_same : bool;             (* unrelated domains parsed before: unchanged, and parse the same again *)
  dc_rt : bool;                      (* export + re-parse gave the same maps *)
  dc_expect : option domainv         (* the unsplit domain the generator started from *)
}.

Record pcase := PC {
  pc_files : list (obs problemv);
  pc_obs : obs problemv;
  pc_rt : bool;
  pc_fresh_after : list string;      (* names in Domain().types after combine_problems / export_combined_problem *)
  pc_expect : option problemv
}.

Inductive case := CD (c : dcase) | CP (c : pcase).

Definition result_of_obs {A} (o : obs A) : result A :=
  match o with Returned a => Ok a | Raised => Err EOther end.

Fixpoint returned_all {A} (l : list (obs A)) : option (list A) :=
  match l with
  | [] => Some []
  | Returned a :: r => match returned_all r with Some l' => Some (a :: l') | None => None end
  | Raised :: _ => None
  end.

Definition opt_eqb (a b : option string) : bool :=
  match a, b with
  | Some x, Some y => String.eqb x y
  | None, None => true
  | _, _ => false
  end.

(* ---------------------------------------------------------------- equality of observables (as maps / sets).
   Only what the property names: types, constants, predicates, functions, actions / objects, facts, fluent
   values, goals.  The domain name, the requirements and the problem name cross the boundary and are shown by
   [explain], but neither the agreement nor the oracle looks at them (the code takes them from the file found
   last, C17_name_reqs_last; a change there is outside C17). *)
Definition domain_eqb (a b : domainv) : bool :=
  map_equiv_b (d_types a) (d_types b) && map_equiv_b (d_consts a) (d_consts b) &&
  map_equiv_b (d_preds a) (d_preds b) && map_equiv_b (d_funcs a) (d_funcs b) &&
  map_equiv_b (d_acts a) (d_acts b).

Definition flat (c : flist) : list (string * string) :=
  List.concat (map (fun kl => map (fun x => (fst kl, x)) (snd kl)) c).

Fixpoint nodup_pairs_b (l : list (string * string)) : bool :=
  match l with
  | [] => true
  | x :: r => negb (mem_pair x r) && nodup_pairs_b r
  end.

Definition pairs_equiv_b (a b : list (string * string)) : bool :=
  nodup_pairs_b a && nodup_pairs_b b &&
  forallb (fun kv => mem_pair kv b) a && forallb (fun kv => mem_pair kv a) b.

Definition pairs_union_b (ds : list (list (string * string))) (c : list (string * string)) : bool :=
  nodup_pairs_b c &&
  forallb (fun kv => existsb (mem_pair kv) ds) c &&
  forallb (fun d => forallb (fun kv => mem_pair kv c) d) ds.

Definition problem_eqb (a b : problemv) : bool :=
  map_equiv_b (p_objs a) (p_objs b) &&
  map_equiv_b (p_fluents a) (p_fluents b) && pairs_equiv_b (flat (p_facts a)) (flat (p_facts b)) &&
  nodup_b (keys (p_facts a)) && nodup_b (keys (p_facts b)) &&
  set_equiv_b (p_goals a) (p_goals b) && set_equiv_b (p_ngoals a) (p_ngoals b).

(* ---------------------------------------------------------------- model *)
Definition d_model (c : dcase) : obs domainv :=
  obs_of_result (locate_domains_r (dc_defaults c) (dc_dummy c) (map result_of_obs (dc_files c))).

(* names a Domain() created after the call starts with, by the store model *)
Definition d_model_fresh (c : dcase) : list string :=
  match returned_all (dc_files c) with
  | Some fs => keys (fresh_domain_types code_init (fst (locate_types_store code_init fs [dc_defaults c])))
  | None => keys (dc_defaults c)
  end.

Definition p_model (c : pcase) : obs problemv :=
  obs_of_result (combine_problems_r (map result_of_obs (pc_files c))).

(* ---------------------------------------------------------------- spec oracle *)
Definition section_ok (ds : list alist) (c : alist) : bool :=
  if agree_b ds then union_of_b ds c else weak_union_of_b ds c.

Definition dummy_preds : alist := [(DUMMY_PRED, DUMMY_PRED_TEXT)].
Definition dummy_acts : alist := [(DUMMY_ADD, DUMMY_ADD_TEXT); (DUMMY_DEL, DUMMY_DEL_TEXT)].

Definition d_checks (c : dcase) : list (string * bool) :=
  match returned_all (dc_files c), dc_obs c with
  | None, _ => [("some file does not parse: nothing demanded", true)]
  | Some fs, Raised => [("all files parse but the call raised", false)]
  | Some fs, Returned r =>
      let dm := dc_dummy c in
      [("types", section_ok (dc_defaults c :: map d_types fs) (d_types r));
       ("constants", section_ok (map d_consts fs) (d_consts r));
       ("predicates", section_ok ((if dm then [dummy_preds] else []) ++ map d_preds fs) (d_preds r)
                      && (negb dm || forallb (fun kv => mem_pair kv (d_preds r)) dummy_preds));
       ("functions", section_ok (map d_funcs fs) (d_funcs r));
       ("actions", section_ok ((if dm then [dummy_acts] else []) ++ map d_acts fs) (d_acts r)
                   && (negb dm || forallb (fun kv => mem_pair kv (d_acts r)) dummy_acts));
       ("default types untouched", set_equiv_b (dc_fresh_after c) ["object"]);
       ("other domains untouched", dc_others_same c);
       (* files that contradict each other about the parent of a type give a combination whose type objects
          are mixed: the dictionary holds the last file's declaration of the type, but a subtype declared by
          another file still points to that file's own (losing) declaration, so its ancestor chain differs
          from the one obtained by re-reading the exported names.  Such a combination is not one domain;
          what the property demands of contradicting files is the weak union only *)
       ("export/re-parse", dc_rt c || negb (agree_b (dc_defaults c :: map d_types fs)));
       ("equals the unsplit domain",
        match dc_expect c with
        | None => true
        | Some e =>
            if dm then
              map_equiv_b (d_types r) (d_types e) && map_equiv_b (d_consts r) (d_consts e) &&
              map_equiv_b (d_funcs r) (d_funcs e) &&
              section_ok [dummy_preds; d_preds e] (d_preds r) && section_ok [dummy_acts; d_acts e] (d_acts r)
            else domain_eqb r e
        end)]
  end.

Definition p_checks (c : pcase) : list (string * bool) :=
  match returned_all (pc_files c), pc_obs c with
  | None, _ => [("some file does not parse: nothing demanded", true)]
  | Some fs, Raised => [("all files parse but the call raised", false)]
  | Some fs, Returned r =>
      [("objects", section_ok (map p_objs fs) (p_objs r));
       ("fluents", section_ok (map p_fluents fs) (p_fluents r));
       ("facts", pairs_union_b (map (fun f => flat (p_facts f)) fs) (flat (p_facts r)));
       ("goals", set_union_of_b (map p_goals fs) (p_goals r));
       ("numeric goals", set_union_of_b (map p_ngoals fs) (p_ngoals r));
       ("export/re-parse", pc_rt c);
       ("default types untouched", set_equiv_b (pc_fresh_after c) ["object"]);
       ("equals the unsplit problem",
        match pc_expect c with None => true | Some e => problem_eqb r e end)]
  end.

Definition all_ok (l : list (string * bool)) : bool := forallb snd l.

Definition judge (c : case) : verdict :=
  match c with
  | CD c =>
      {| v_agree := obs_eqb domain_eqb (d_model c) (dc_obs c) &&
                    set_equiv_b (d_model_fresh c) (dc_fresh_after c);
         v_ok := all_ok (d_checks c);
         v_known := false |}
  | CP c =>
      {| v_agree := obs_eqb problem_eqb (p_model c) (pc_obs c);
         v_ok := all_ok (p_checks c);
         v_known := false |}
  end.

Definition run (cases : list case) : string := summary judge cases.

(* debugging aid: the failed sub-checks and what the model computes *)
Definition explain (c : case) :=
  match c with
  | CD c => (filter (fun x => negb (snd x)) (d_checks c), inl (d_model c, d_model_fresh c))
  | CP c => (filter (fun x => negb (snd x)) (p_checks c), inr (p_model c))
  end.
