(* Correspondence for C17: the converters' results versus the model (Model/Combine.v) and the union spec
   (Spec/Combine.v).  The harness parses every per-agent file with the implementation and hands the
   vocabulary dumps over; see harness/ops_c17.py for the dump format. *)
From Coq Require Import List Ascii String Bool NArith.
From Verif Require Import Base.Result Base.Str Model.Combine Spec.Combine Corr.Common.
Import ListNotations.
Open Scope string_scope.
Open Scope list_scope.

(* short constructors for the literals *)
Definition D := Build_domainv.
Definition P := Build_problemv.

Record dcase := DC {
  dc_defaults : alist;               (* Domain().types before the call *)
  dc_dummy : bool;
  dc_files : list (obs domainv);     (* per-agent dumps in discovery order; Raised: the file does not parse *)
  dc_obs : obs domainv;              (* locate_domains *)
  dc_fresh_after : list string;      (* names in Domain().types after the call *)
  dc_default_after : list string;    (* names in the module-level DEFAULT_TYPES after the call *)
  dc_others : list alist;            (* unrelated domains (typed, untyped, one sharing type names with the files):
                                        name -> digest (dump + subtype relation).  Head of the list: the reference,
                                        with the subtype relation read off the domain's own parent pointers; then
                                        the digests with the relation as is_sub_type answers, of the object parsed
                                        BEFORE the call (taken before the call, after locate_domains, at the end of
                                        the job) and of the same text PARSED AGAIN at the last two moments *)
  dc_rt : obs domainv;               (* the combination exported by DomainExporter and parsed again (Raised: the
                                        export or the parse raised) *)
  dc_alt : option (obs domainv * obs domainv);
                                     (* locate_domains with the OTHER setting of add_dummy_actions, and that
                                        combination exported and parsed again (None: not run for this job) *)
  dc_expect : option domainv;        (* the unsplit domain the generator started from *)
  dc_subs : list (N * alist * alist) (* every Domain object looked at after the call (0 the combination, 1 its re-parsed
                                        export, 2 / 3 the same with the other dummy setting): its type dump
                                        (type -> ancestor chain, read off the parent pointers) and the subtype relation
                                        as PDDLType.is_sub_type answers it on every ordered pair of its types
                                        (type -> the types it is a subtype of) *)
}.

Record pcase := PC {
  pc_files : list (obs problemv);
  pc_obs : obs problemv;
  pc_rt : obs problemv;              (* the combination exported by ProblemExporter and parsed again *)
  pc_fresh_after : list string;      (* names in Domain().types after combine_problems / export_combined_problem *)
  pc_others : list alist;            (* as dc_others: before the job, at its end, parsed again at its end *)
  pc_expect : option problemv
}.

Inductive case := CD (c : dcase) | CP (c : pcase).

Definition result_of_obs {A} (o : obs A) : result A :=
  match o with Returned a => Ok a | Raised => Err EOther end.

Fixpoint returned_all {A} (l : list (obs A)) : option (list A) :=
  match l with
  | [] => Some []
  | Returned a :: r => match returned_all r with Some l' => Some (a :: l') | None => None end
  | Raised :: _ => None
  end.

Definition opt_eqb (a b : option string) : bool :=
  match a, b with
  | Some x, Some y => String.eqb x y
  | None, None => true
  | _, _ => false
  end.

(* ---------------------------------------------------------------- equality of observables (as maps / sets).
   Only what the property names: types, constants, predicates, functions, actions / objects, facts, fluent
   values, goals.  The domain name, the requirements and the problem name cross the boundary and are shown by
   [explain], but neither the agreement nor the oracle looks at them (the code takes them from the file found
   last, C17_name_reqs_last; a change there is outside C17). *)
Definition domain_eqb (a b : domainv) : bool :=
  map_equiv_b (d_types a) (d_types b) && map_equiv_b (d_consts a) (d_consts b) &&
  map_equiv_b (d_preds a) (d_preds b) && map_equiv_b (d_funcs a) (d_funcs b) &&
  map_equiv_b (d_acts a) (d_acts b).

Definition flat (c : flist) : list (string * string) :=
  List.concat (map (fun kl => map (fun x => (fst kl, x)) (snd kl)) c).

Fixpoint nodup_pairs_b (l : list (string * string)) : bool :=
  match l with
  | [] => true
  | x :: r => negb (mem_pair x r) && nodup_pairs_b r
  end.

Definition pairs_equiv_b (a b : list (string * string)) : bool :=
  nodup_pairs_b a && nodup_pairs_b b &&
  forallb (fun kv => mem_pair kv b) a && forallb (fun kv => mem_pair kv a) b.

Definition pairs_union_b (ds : list (list (string * string))) (c : list (string * string)) : bool :=
  nodup_pairs_b c &&
  forallb (fun kv => existsb (mem_pair kv) ds) c &&
  forallb (fun d => forallb (fun kv => mem_pair kv c) d) ds.

Definition problem_eqb (a b : problemv) : bool :=
  map_equiv_b (p_objs a) (p_objs b) &&
  map_equiv_b (p_fluents a) (p_fluents b) && pairs_equiv_b (flat (p_facts a)) (flat (p_facts b)) &&
  nodup_b (keys (p_facts a)) && nodup_b (keys (p_facts b)) &&
  set_equiv_b (p_goals a) (p_goals b) && set_equiv_b (p_ngoals a) (p_ngoals b).

(* ---------------------------------------------------------------- the subtype relation of a type dump.
   A type entry is the chain of the type's ancestors (nearest first, blank-separated).  The relation the library
   answers on the types of one Domain object must be the reflexive closure of these chains: t <= u iff u = t or u is
   in t's chain. *)
Fixpoint words_aux (s cur : string) : list string :=
  match s with
  | EmptyString => match cur with EmptyString => [] | _ => [cur] end
  | String c r =>
      if Ascii.eqb c " "
      then match cur with EmptyString => words_aux r "" | _ => cur :: words_aux r "" end
      else words_aux r (cur ++ String c "")
  end.
Definition words (s : string) : list string := words_aux s "".

Definition supers_of (types : alist) (k chain : string) : list string :=
  filter (fun b => String.eqb b k || str_in b (words chain)) (keys types).

Definition sub_table_ok (types sub : alist) : bool :=
  set_equiv_b (keys types) (keys sub) &&
  forallb (fun kv => match lookup (fst kv) sub with
                     | Some s_ => set_equiv_b (words s_) (supers_of types (fst kv) (snd kv))
                     | None => false
                     end) types.

Definition sub_tag (n : N) : string :=
  match n with
  | 0%N => "the combination" | 1%N => "the re-parsed export"
  | 2%N => "the combination, other dummy setting" | _ => "the re-parsed export, other dummy setting"
  end.

(* the table of an object must be the table of the dump that crossed for that object *)
Definition sub_checks (dumps : list (N * obs domainv)) (subs : list (N * alist * alist)) : list (string * bool) :=
  map (fun x => let '(n, types, sub) := x in
         (("is_sub_type on every pair of types = closure of the parent chains: " ++ sub_tag n)%string,
          sub_table_ok types sub &&
          existsb (fun d => N.eqb (fst d) n &&
                            match snd d with Returned r => map_equiv_b (d_types r) types | Raised => false end) dumps))
      subs ++
  (* and no returned object goes without its table *)
  map (fun d => (("is_sub_type table present: " ++ sub_tag (fst d))%string,
                 match snd d with Returned _ => existsb (fun x => N.eqb (fst (fst x)) (fst d)) subs | Raised => true end))
      dumps.

(* ---------------------------------------------------------------- model *)
Definition d_model (c : dcase) : obs domainv :=
  obs_of_result (locate_domains_r (dc_defaults c) (dc_dummy c) (map result_of_obs (dc_files c))).
Definition d_model2 (c : dcase) : obs domainv :=
  obs_of_result (locate_domains_r (dc_defaults c) (negb (dc_dummy c)) (map result_of_obs (dc_files c))).
Definition dc_obs2 (c : dcase) : obs domainv :=
  match dc_alt c with Some (o, _) => o | None => d_model2 c end.

(* names a Domain() created after the call starts with, by the store model *)
Definition d_model_fresh (c : dcase) : list string :=
  match returned_all (dc_files c) with
  | Some fs => keys (fresh_domain_types code_init (fst (locate_types_store code_init fs [dc_defaults c])))
  | None => keys (dc_defaults c)
  end.

(* the subtype relation is_sub_type answers on the combination is the closure of the chains the model computes *)
Definition d_model_sub (c : dcase) : bool :=
  match d_model c with
  | Returned m =>
      forallb (fun x => let '(n, _, sub) := x in negb (N.eqb n 0) || sub_table_ok (d_types m) sub) (dc_subs c)
  | Raised => true
  end.

Definition p_model (c : pcase) : obs problemv :=
  obs_of_result (combine_problems_r (map result_of_obs (pc_files c))).

(* ---------------------------------------------------------------- spec oracle *)
Definition section_ok (ds : list alist) (c : alist) : bool :=
  if agree_b ds then union_of_b ds c else weak_union_of_b ds c.

Definition dummy_preds : alist := [(DUMMY_PRED, DUMMY_PRED_TEXT)].
Definition dummy_acts : alist := [(DUMMY_ADD, DUMMY_ADD_TEXT); (DUMMY_DEL, DUMMY_DEL_TEXT)].

(* every observation of the unrelated domains equals the first one (taken before the call) *)
Definition others_same_b (l : list alist) : bool :=
  match l with
  | [] => true
  | ref :: rest => forallb (fun o => map_equiv_b ref o) rest
  end.

(* the sections of the combination [r] against the per-agent files, with or without the dummy entries *)
Definition union_checks (tag : string) (dm : bool) (defaults : alist) (fs : list domainv) (r : domainv)
  : list (string * bool) :=
  [((tag ++ "types")%string, section_ok (defaults :: map d_types fs) (d_types r));
   ((tag ++ "constants")%string, section_ok (map d_consts fs) (d_consts r));
   ((tag ++ "predicates")%string, section_ok ((if dm then [dummy_preds] else []) ++ map d_preds fs) (d_preds r)
                  && (negb dm || forallb (fun kv => mem_pair kv (d_preds r)) dummy_preds));
   ((tag ++ "functions")%string, section_ok (map d_funcs fs) (d_funcs r));
   ((tag ++ "actions")%string, section_ok ((if dm then [dummy_acts] else []) ++ map d_acts fs) (d_acts r)
               && (negb dm || forallb (fun kv => mem_pair kv (d_acts r)) dummy_acts))].

(* export + re-parse, section by section: the re-read file has the combination's maps.
   Files that contradict each other about the parent of a type give a combination whose type objects
   are mixed: the dictionary holds the last file's declaration of the type, but a subtype declared by
   another file still points to that file's own (losing) declaration, so its ancestor chain differs
   from the one obtained by re-reading the exported names.  Such a combination is not one domain;
   what the property demands of contradicting files is the weak union only ([lenient]). *)
Definition rt_checks (tag : string) (lenient : bool) (r : domainv) (rt : obs domainv) : list (string * bool) :=
  match rt with
  | Raised => [((tag ++ "the export or the parse of the exported file raised")%string, lenient)]
  | Returned d =>
      [((tag ++ "types")%string, lenient || map_equiv_b (d_types r) (d_types d));
       ((tag ++ "constants")%string, lenient || map_equiv_b (d_consts r) (d_consts d));
       ((tag ++ "predicates")%string, lenient || map_equiv_b (d_preds r) (d_preds d));
       ((tag ++ "functions")%string, lenient || map_equiv_b (d_funcs r) (d_funcs d));
       ((tag ++ "actions")%string, lenient || map_equiv_b (d_acts r) (d_acts d))]
  end.

Definition d_checks (c : dcase) : list (string * bool) :=
  match returned_all (dc_files c), dc_obs c with
  | None, _ => [("some file does not parse: nothing demanded", true)]
  | Some fs, Raised => [("all files parse but the call raised", false)]
  | Some fs, Returned r =>
      let dm := dc_dummy c in
      let lenient := negb (agree_b (dc_defaults c :: map d_types fs)) in
      union_checks "" dm (dc_defaults c) fs r ++
      match dc_alt c with
      | None => []
      | Some (Raised, _) => [("all files parse but the call with the other dummy setting raised", false)]
      | Some (Returned r2, rt2) =>
          union_checks "other dummy setting: " (negb dm) (dc_defaults c) fs r2 ++
          rt_checks "export/re-parse, other dummy setting: " lenient r2 rt2
      end ++
      [("default types untouched", set_equiv_b (dc_fresh_after c) ["object"] &&
                                   set_equiv_b (dc_default_after c) ["object"]);
       ("other domains untouched, parsed again the same", others_same_b (dc_others c))] ++
      rt_checks "export/re-parse: " lenient r (dc_rt c) ++
      sub_checks ([(0%N, dc_obs c); (1%N, dc_rt c)] ++
                  match dc_alt c with Some (o, rt2) => [(2%N, o); (3%N, rt2)] | None => [] end) (dc_subs c) ++
      [("equals the unsplit domain",
        match dc_expect c with
        | None => true
        | Some e =>
            if dm then
              map_equiv_b (d_types r) (d_types e) && map_equiv_b (d_consts r) (d_consts e) &&
              map_equiv_b (d_funcs r) (d_funcs e) &&
              section_ok [dummy_preds; d_preds e] (d_preds r) && section_ok [dummy_acts; d_acts e] (d_acts r)
            else domain_eqb r e
        end)]
  end.

Definition prt_checks (r : problemv) (rt : obs problemv) : list (string * bool) :=
  match rt with
  | Raised => [("export/re-parse: the export or the parse of the exported file raised", false)]
  | Returned q =>
      [("export/re-parse: objects", map_equiv_b (p_objs r) (p_objs q));
       ("export/re-parse: fluents", map_equiv_b (p_fluents r) (p_fluents q));
       ("export/re-parse: facts", pairs_equiv_b (flat (p_facts r)) (flat (p_facts q)));
       ("export/re-parse: goals", set_equiv_b (p_goals r) (p_goals q));
       ("export/re-parse: numeric goals", set_equiv_b (p_ngoals r) (p_ngoals q))]
  end.

Definition p_checks (c : pcase) : list (string * bool) :=
  match returned_all (pc_files c), pc_obs c with
  | None, _ => [("some file does not parse: nothing demanded", true)]
  | Some fs, Raised => [("all files parse but the call raised", false)]
  | Some fs, Returned r =>
      [("objects", section_ok (map p_objs fs) (p_objs r));
       ("fluents", section_ok (map p_fluents fs) (p_fluents r));
       ("facts", pairs_union_b (map (fun f => flat (p_facts f)) fs) (flat (p_facts r)));
       ("goals", set_union_of_b (map p_goals fs) (p_goals r));
       ("numeric goals", set_union_of_b (map p_ngoals fs) (p_ngoals r))] ++
      prt_checks r (pc_rt c) ++
      [("default types untouched", set_equiv_b (pc_fresh_after c) ["object"]);
       ("other domains untouched, parsed again the same", others_same_b (pc_others c));
       ("equals the unsplit problem",
        match pc_expect c with None => true | Some e => problem_eqb r e end)]
  end.

Definition all_ok (l : list (string * bool)) : bool := forallb snd l.

Definition judge (c : case) : verdict :=
  match c with
  | CD c =>
      {| v_agree := obs_eqb domain_eqb (d_model c) (dc_obs c) &&
                    obs_eqb domain_eqb (d_model2 c) (dc_obs2 c) &&
                    set_equiv_b (d_model_fresh c) (dc_fresh_after c) &&
                    d_model_sub c;
         v_ok := all_ok (d_checks c);
         v_known := false |}
  | CP c =>
      {| v_agree := obs_eqb problem_eqb (p_model c) (pc_obs c);
         v_ok := all_ok (p_checks c);
         v_known := false |}
  end.

Definition run (cases : list case) : string := summary judge cases.

(* ---------------------------------------------------------------- one directory, several discovery orders.
   The per-agent dumps of a directory are the same for every order; they cross once, each run names its order by
   positions.  [expand] rebuilds the cases above, which are judged one by one. *)
Record drun := DR {
  dr_order : list N; dr_dummy : bool; dr_obs : obs domainv; dr_fresh_after : list string;
  dr_default_after : list string; dr_others : list alist; dr_rt : obs domainv;
  dr_alt : option (obs domainv * obs domainv); dr_subs : list (N * alist * alist)
}.

Record prun := PR {
  pr_order : list N; pr_obs : obs problemv; pr_rt : obs problemv; pr_fresh_after : list string;
  pr_others : list alist
}.

Inductive group :=
  | GD (defaults : alist) (files : list (obs domainv)) (expect : option domainv) (runs : list drun)
  | GP (files : list (obs problemv)) (expect : option problemv) (runs : list prun).

(* positions are binary numbers (N): a unary nat literal costs as many constructors as its value *)
Definition pick {A} (files : list (obs A)) (order : list N) : list (obs A) :=
  map (fun i => nth (N.to_nat i) files Raised) order.

Definition expand (g : group) : list case :=
  match g with
  | GD defaults files expect runs =>
      map (fun r => CD (DC defaults (dr_dummy r) (pick files (dr_order r)) (dr_obs r) (dr_fresh_after r)
                           (dr_default_after r) (dr_others r) (dr_rt r) (dr_alt r) expect (dr_subs r))) runs
  | GP files expect runs =>
      map (fun r => CP (PC (pick files (pr_order r)) (pr_obs r) (pr_rt r) (pr_fresh_after r) (pr_others r) expect)) runs
  end.

Definition run_groups (gs : list group) : string := summary judge (flat_map expand gs).

(* ---------------------------------------------------------------- table-coded literals.
   Parsing string literals dominates the cost of a shard, and the same names and entry texts occur in every dump
   of a directory.  A group therefore crosses as  let t := [texts] in GD ...  with every dump written through the
   decoders below: a text is its position in [t]; a dict is the list  k0 v0 k1 v1 ...  of positions.  The decoding
   is part of the evaluated term (nothing is compared before it is decoded). *)
Definition tget (t : list string) (i : N) : string := nth (N.to_nat i) t "".

Fixpoint dec_pairs (t : list string) (l : list N) : alist :=
  match l with
  | a :: b :: r => (tget t a, tget t b) :: dec_pairs t r
  | _ => []
  end.

Definition ES (t : list string) (l : list N) : list string := map (tget t) l.
Definition EA (t : list string) (l : list N) : alist := dec_pairs t l.

Definition ED (t : list string) (name : option N) (reqs types consts preds funcs acts : list N) : domainv :=
  D (option_map (tget t) name) (ES t reqs) (EA t types) (EA t consts) (EA t preds) (EA t funcs) (EA t acts).

Definition EP (t : list string) (name : N) (objs : list N) (facts : list (N * list N))
  (fluents goals ngoals : list N) : problemv :=
  P (tget t name) (EA t objs) (map (fun kf => (tget t (fst kf), ES t (snd kf))) facts) (EA t fluents)
    (ES t goals) (ES t ngoals).

(* debugging aid: the failed sub-checks and what the model computes *)
Definition explain (c : case) :=
  match c with
  | CD c => (filter (fun x => negb (snd x)) (d_checks c), inl (d_model c, d_model2 c, d_model_fresh c))
  | CP c => (filter (fun x => negb (snd x)) (p_checks c), inr (p_model c))
  end.
