(* Correspondence for C13.
   (a) glue: the model's convert_expr_to_pddl / transform_expression against what the implementation
       printed for the sympy tree it was given;
   (b) end to end translation validation: the proved checker of Spec/Poly.v on (input conditions, printed
       output), plus evaluation of input and output at rational points as a second oracle;
   (c) the elimination decision: the model of extract_eliminated_expressions / _simplify_numeric_preconditions
       (Model/Elimination.v) against what the implementation extracted, which calls it made with which assumptions and
       what it returned; independently of the model, every extracted assumption must follow from the input equalities. *)
From Coq Require Import List Ascii String Bool ZArith QArith Qabs.
From Verif Require Import Base.Result Base.Str Base.Sexp Model.Tokenizer Model.SymbolicGlue Spec.Poly Model.Elimination Corr.Common.
Import ListNotations.
Open Scope string_scope.
Open Scope list_scope.

Inductive case :=
| CE2E (entry : string) (digits : nat) (conds assum : list string) (out : obs (list string)) (reader_ok : bool)
       (points : list (list (string * Q))) (hints : list string)
| CGlue (digits : nat) (flag : bool) (symmap : list (string * string)) (tree : stree) (out : obs string)
| CTrans (text : string) (given : list (string * string)) (res : string) (map_after : list (string * string))
(* one call of _simplify_numeric_preconditions: the conditions (exact constants); what extract_eliminated_expressions returned
   for each equality, in order; the calls of simplify_equality (false) / simplify_inequality (true) with the assumptions they
   were given and their results; what was returned *)
| CElim (conds : list string) (extracted : list (option (string * string)))
        (calls : list (bool * (list (string * string) * option string))) (out : obs (list string)).

(* ------------------------------------------------------------------ reading *)
Definition rd_sexp (s : string) : option sexp :=
  match parse MStr (unesc s) with Ok e => Some e | Err _ => None end.
Definition rd_cond (s : string) : option cond := match rd_sexp s with Some e => cond_of_sexp e | None => None end.
Definition rd_expr (s : string) : option expr := match rd_sexp s with Some e => expr_of_sexp e | None => None end.
Definition rd_conds (l : list string) : option (list cond) := all_some (map rd_cond l).
Definition rd_and (s : string) : option (list cond) :=
  match rd_sexp s with
  | Some (SList (Atom a :: cs)) => if String.eqb a "and" then all_some (map cond_of_sexp cs) else None
  | _ => None
  end.

Definition rd_or (s : string) : option (list cond) :=
  match rd_sexp s with
  | Some (SList (Atom a :: cs)) => if String.eqb a "or" then all_some (map cond_of_sexp cs) else None
  | _ => None
  end.

(* hints (untrusted candidates handed to the checker): numbers may be written p/q *)
Fixpoint split_slash (t : text) : option (text * text) :=
  match t with
  | [] => None
  | c :: r => if Ascii.eqb c "/" then Some ([], r)
              else match split_slash r with Some (a, b) => Some (c :: a, b) | None => None end
  end.
Definition read_hnum (s : string) : option Q :=
  match split_slash (s2t s) with
  | Some (a, b) => match read_number (t2s a), read_number (t2s b) with
                   | Some x, Some y => if Qeq_bool y 0 then None else Some (Qred (x / y))
                   | _, _ => None
                   end
  | None => read_number s
  end.
Definition rd_hcond (s : string) : option cond :=
  match rd_sexp s with Some e => cond_of_sexp_with read_hnum e | None => None end.
Definition rd_hexpr (s : string) : option expr :=
  match rd_sexp s with Some e => expr_of_sexp_with read_hnum e | None => None end.

(* ------------------------------------------------------------------ second oracle: evaluation at points *)
Fixpoint evars (e : expr) : list string :=
  match e with ENum _ => [] | EVar v => [v] | EBin _ a b => evars a ++ evars b end.
Definition cvars (c : cond) : list string := evars (c_l c) ++ evars (c_r c).

Definition canon_point (p : list (string * Q)) : list (string * Q) :=
  map (fun kv => (match rd_expr (fst kv) with Some (EVar v) => v | _ => fst kv end, snd kv)) p.

Definition slack (d : nat) (p : list (string * Q)) : Q :=
  let s := fold_right (fun kv acc => Qabs (snd kv) + acc) 1 p in
  Qred (2 * tol_of d * (s * s * s)).

Definition margin (rho : valuation) (c : cond) : option Q :=
  match eval_opt rho (c_l c), eval_opt rho (c_r c) with
  | Some x, Some y => Some (Qabs (x - y))
  | _, _ => None
  end.
Definition holds_b (rho : valuation) (c : cond) : option bool :=
  match eval_opt rho (c_l c), eval_opt rho (c_r c) with
  | Some x, Some y => Some (cmp_b (c_op c) x y)
  | _, _ => None
  end.

(* agreement of the truth values of input and output at one point; points where something is undefined or where
   some condition is within the rounding slack of its boundary are not informative *)
Definition point_ok (d : nat) (ins outs : list cond) (p : list (string * Q)) : bool :=
  let p' := canon_point p in
  let rho := lookup p' in
  match all_some (map (holds_b rho) ins), all_some (map (holds_b rho) outs),
        all_some (map (margin rho) (ins ++ outs)) with
  | Some ti, Some to, Some ms =>
      Bool.eqb (forallb (fun b => b) ti) (forallb (fun b => b) to)
      || existsb (fun m => Qle_bool m (slack d p')) ms
  | _, _, _ => true
  end.

(* the same for a disjunction: some input condition holds exactly when some output condition does *)
Definition point_ok_or (d : nat) (ins outs : list cond) (p : list (string * Q)) : bool :=
  let p' := canon_point p in
  let rho := lookup p' in
  match all_some (map (holds_b rho) ins), all_some (map (holds_b rho) outs),
        all_some (map (margin rho) (ins ++ outs)) with
  | Some ti, Some to, Some ms =>
      Bool.eqb (existsb (fun b => b) ti) (existsb (fun b => b) to)
      || existsb (fun m => Qle_bool m (slack d p')) ms
  | _, _, _ => true
  end.

Definition point_ok_expr (d : nat) (e o : expr) (p : list (string * Q)) : bool :=
  let p' := canon_point p in
  let rho := lookup p' in
  match eval_opt rho e, eval_opt rho o with
  | Some x, Some y => Qle_bool (Qabs (x - y)) (slack d p')
  | _, _ => true
  end.

(* the second oracle when the output is a structural rounding of a hint: the hint has exactly the value of the input at
   the points (the rounding itself is syntactic) *)
Definition exact_point (e h : expr) (p : list (string * Q)) : bool :=
  let rho := lookup (canon_point p) in
  match eval_opt rho e, eval_opt rho h with
  | Some x, Some y => Qeq_bool x y
  | _, _ => true
  end.

(* the second oracle when some output condition is a STRUCTURAL rounding (of itself or of a hint): rounding a constant inside a
   product of sums moves the value by the rounding error times the other factors ((h + 8823) * 0.0005 at 3 decimals is printed
   (h + 8823) * 0.001 - every constant within half a unit of the third decimal), which no slack computed from the point alone
   bounds.  The points then judge the EXACT half: the input conditions and the mid conditions (the conditions of which the
   outputs are roundings, as the checker found them) have the same truth value at every point; the rounding half is syntactic *)
Definition msat_b (rho : valuation) (m : mcond) : option bool :=
  match m with
  | MExact c => holds_b rho c
  | MPoly o l r => Some (cmp_b o (peval rho l) (peval rho r))
  end.
Definition point_exact_mids (as_or : bool) (ins : list cond) (mids : list mcond) (p : list (string * Q)) : bool :=
  let rho := lookup (canon_point p) in
  match all_some (map (holds_b rho) ins), all_some (map (msat_b rho) mids) with
  | Some ti, Some tm => if as_or then Bool.eqb (existsb (fun b => b) ti) (existsb (fun b => b) tm)
                        else Bool.eqb (forallb (fun b => b) ti) (forallb (fun b => b) tm)
  | _, _ => true
  end.

(* ------------------------------------------------------------------ end-to-end judgement *)
(* ev_path (evidence only, never part of the verdict): which part of the proved checker validated the outputs of the case -
   "p" every output condition coefficientwise on polynomial normal forms, "e" some by the structural rounding relation
   with the output itself as the exactly equivalent condition (none needed a hint), "h" some only as the structural
   rounding of a hint, "i" nothing was printed (every condition omitted as an identity / implied), "-" not validated *)
Record e2e_view := { ev_parsed : bool; ev_check : bool; ev_points : bool; ev_reader : bool; ev_path : ascii }.

Definition bad_view (reader_ok : bool) : e2e_view :=
  {| ev_parsed := false; ev_check := false; ev_points := true; ev_reader := reader_ok; ev_path := "-" |}.

Definition path_char (ps : list (option vpath)) : ascii :=
  if existsb (fun p => match p with None => true | Some _ => false end) ps then "-"
  else if existsb (fun p => match p with Some VHint => true | _ => false end) ps then "h"
  else if existsb (fun p => match p with Some VSelf => true | _ => false end) ps then "e"
  else match ps with [] => "i" | _ => "p" end.

Definition view_e2e (entry : string) (d : nat) (conds assum : list string) (out : obs (list string))
           (reader_ok : bool) (points : list (list (string * Q))) (hints : list string) : e2e_view :=
  if String.eqb entry "expr" then
    match map rd_expr conds, out with
    | [Some e], Returned [o] =>
        match rd_expr o with
        | Some oe => let hs := somes (map rd_hexpr hints) in
                     let pth := check_expr_path d hs e oe in     (* = check_expr d hs e oe: C13_traced_expr_same *)
                     {| ev_parsed := true; ev_check := match pth with Some _ => true | None => false end;
                        ev_points := if forallb (point_ok_expr d e oe) points then true
                                     else existsb (fun h => if eround_b (tol_of d) h oe
                                                            then forallb (exact_point e h) points else false) hs;
                        ev_reader := reader_ok; ev_path := path_char [pth] |}
        | None => bad_view reader_ok
        end
    | _, _ => bad_view reader_ok
    end
  else
    match rd_conds conds, rd_conds assum with
    | Some cs, Some asm =>
        let hs := somes (map rd_hcond hints) in
        let is_or := String.eqb entry "or" in
        let outs := match out with
                    | Returned os => if String.eqb entry "print"
                                     then match os with [t] => rd_and t | _ => None end
                                     else if is_or then match os with [t] => rd_or t | _ => None end
                                     else rd_conds os
                    | Raised => None
                    end in
        match outs with
        | Some os =>
            let chk := if String.eqb entry "ineq"
                       then match cs, os with
                            | [c], [o] => match check_under d asm hs c o with
                                          | Some m => (true, [Some (mid_path o m)], [m])
                                          | None => (false, [None], [])
                                          end
                            | [c], [] => (implied (filter is_eq asm) c, [], [])       (* the inequality was omitted *)
                            | _, _ => (false, [None], [])
                            end
                       else if is_or then (check_or d hs cs os, or_paths d hs cs os, or_mids d hs cs os)   (* C13_disjunction_sound *)
                       else let r := check_pre_tr d hs cs os in       (* fst r = check_pre d hs cs os: C13_traced_pre_same *)
                            (fst r, out_paths d (snd r) os, snd r) in
            let ok := fst (fst chk) in
            let pth := if ok then path_char (snd (fst chk)) else "-"%char in
            let structural := Ascii.eqb pth "e" || Ascii.eqb pth "h" in
            let mids := List.map (fun a => MExact a) asm ++ snd chk in
            {| ev_parsed := true; ev_check := ok;
               ev_points := forallb (fun p => (if is_or then point_ok_or d cs os p else point_ok d (cs ++ asm) (os ++ asm) p)
                                              || (structural && point_exact_mids is_or (cs ++ asm) mids p)) points;
               ev_reader := reader_ok;
               ev_path := pth |}
        | None => bad_view reader_ok
        end
    | _, _ => bad_view reader_ok
    end.

(* ------------------------------------------------------------------ glue judgement *)
Definition canon_fluent (t : string) : string :=
  match parse MStr (s2t t) with Ok e => show_sexp e | Err _ => t end.

Fixpoint expr_of_pexpr (p : pexpr) : option expr :=
  match p with
  | PNum x => Some (ENum (pnum_value x))
  | PFl t => Some (EVar (canon_fluent t))
  | PBin op a b =>
      match binop_of op, expr_of_pexpr a, expr_of_pexpr b with
      | Some o, Some x, Some y => Some (EBin o x y)
      | _, _, _ => None
      end
  end.

Definition unesc_map (m : list (string * string)) : list (string * string) :=
  map (fun kv => (unesc_s (fst kv), snd kv)) m.

Definition glue_model (d : nat) (flag : bool) (m : list (string * string)) (t : stree) : obs string :=
  obs_of_result (convert_expr_to_pddl d flag (unesc_map m) t).

(* the text the model prints reads back (tokenizer + restricted grammar) as the expression the glue theorem
   speaks about *)
Definition glue_readback (d : nat) (flag : bool) (m : list (string * string)) (t : stree) : bool :=
  match conv d flag (unesc_map m) t with
  | Ok (Some p) =>
      match parse MStr (s2t (show_pexpr p)) with
      | Ok e => match expr_of_sexp e, expr_of_pexpr p with
                | Some a, Some b => expr_eqb a b
                | _, _ => false
                end
      | Err _ => false
      end
  | _ => true
  end.

Definition pair_eqb (a b : string * string) : bool := String.eqb (fst a) (fst b) && String.eqb (snd a) (snd b).
Fixpoint list_eqb {A} (eqb : A -> A -> bool) (a b : list A) : bool :=
  match a, b with
  | [], [] => true
  | x :: xs, y :: ys => eqb x y && list_eqb eqb xs ys
  | _, _ => false
  end.

(* transform_expression: the dictionary after the call (order included: the functions are visited sorted, the symbol
   names are made unique) and the text with every function replaced by its symbol *)
Definition trans_ok (text : string) (given : list (string * string)) (res : string) (after : list (string * string)) : bool :=
  let text' := unesc_s text in
  let given' := unesc_map given in
  let after' := unesc_map after in
  match fluents_in text' with
  | [] => String.eqb (unesc_s res) text' && list_eqb pair_eqb after' given'
  | found =>
      match transform_map given' found with
      | Ok m => list_eqb pair_eqb after' m && String.eqb (unesc_s res) (transform_text text' m)
      | Err _ => false
      end
  end.

(* ------------------------------------------------------------------ the elimination decision *)
Fixpoint expr_eqq (a b : expr) : bool :=
  match a, b with
  | ENum p, ENum q => Qeq_bool p q
  | EVar v, EVar w => String.eqb v w
  | EBin o x y, EBin o' x' y' => binop_eqb o o' && expr_eqq x x' && expr_eqq y y'
  | _, _ => false
  end.
Definition cond_eqq (a b : cond) : bool :=
  cmp_eqb (c_op a) (c_op b) && expr_eqq (c_l a) (c_l b) && expr_eqq (c_r a) (c_r b).

Fixpoint list_eqb2 {A B} (f : A -> B -> bool) (a : list A) (b : list B) : bool :=
  match a, b with
  | [], [] => true
  | x :: xs, y :: ys => f x y && list_eqb2 f xs ys
  | _, _ => false
  end.

Definition rd_pair (p : string * string) : option (expr * expr) :=
  match rd_expr (fst p), rd_expr (snd p) with Some a, Some r => Some (a, r) | _, _ => None end.

(* the observable of an extraction is WHICH expression is replaced BY WHAT VALUE: the replaced expression is compared as a
   tree, the replacing one up to polynomial normal form (0 - B instead of -1 * B is the same assumption) *)
Definition same_value (a b : expr) : bool :=
  expr_eqq a b ||
  match pnorm a, pnorm b with Some p, Some q => is_zero (pclean (psub p q)) | _, _ => false end.
Definition pair_agree (m : expr * expr) (i : string * string) : bool :=
  match rd_pair i with Some y => expr_eqq (fst m) (fst y) && same_value (snd m) (snd y) | None => false end.
Definition opt_pair_agree (m : option (expr * expr)) (i : option (string * string)) : bool :=
  match m, i with None, None => true | Some x, Some p => pair_agree x p | _, _ => false end.

(* a = r is the equality e itself with terms moved across: (a - r) = +-(l - r') as polynomials (also when e has no solution) *)
Definition moved_terms (e : cond) (ar : expr * expr) : bool :=
  match pnorm (EBin OSub (fst ar) (snd ar)), pnorm (diff e) with
  | Some p, Some q => is_zero (pclean (psub p q)) || is_zero (pclean (padd p q))
  | _, _ => false
  end.

Record elim_view := { el_parsed : bool; el_extract : bool; el_calls : bool; el_out : bool; el_follow : bool }.

Definition view_elim (conds : list string) (extracted : list (option (string * string)))
           (calls : list (bool * (list (string * string) * option string))) (out : obs (list string)) : elim_view :=
  match rd_conds conds with
  | None => {| el_parsed := false; el_extract := false; el_calls := false; el_out := false; el_follow := false |}
  | Some cs =>
      let eqs := filter is_eq cs in
      let asm := assumptions_of cs in
      let table := combine cs (map (fun call => option_map unesc_s (snd (snd call))) calls) in
      let look := fun c => match find (fun kv => cond_eqq (fst kv) c) table with Some kv => snd kv | None => None end in
      {| el_parsed := true;
         el_extract := list_eqb2 opt_pair_agree (map extract_eliminated eqs) extracted;
         (* one call per condition, in order: an equality alone, an inequality with ALL the assumptions (a call that raised
            ends the list early) *)
         el_calls := match out with
                     | Returned _ => Nat.eqb (List.length calls) (List.length cs)
                     | Raised => Nat.leb (List.length calls) (List.length cs)
                     end &&
                     list_eqb2 (fun c call => Bool.eqb (negb (is_eq c)) (fst call) &&
                                              list_eqb2 pair_agree (if is_eq c then [] else asm) (fst (snd call)))
                               (firstn (List.length calls) cs) calls;
         el_out := match out with
                   | Returned os => list_eqb String.eqb (simplify_numeric_preconditions look (fun c _ => look c) cs)
                                             (map unesc_s os)
                   | Raised => true
                   end;
         (* the oracle, independent of the model: what was extracted follows from the equalities of the conjunction *)
         el_follow := forallb (fun x => match x with
                                        | None => true
                                        | Some p => match rd_pair p with
                                                    | Some ar => existsb (fun e => moved_terms e ar) eqs
                                                                 || implied eqs (cond_of_assumption ar)
                                                    | None => false
                                                    end
                                        end) extracted |}
  end.

Definition judge_path (c : case) : verdict * ascii :=
  match c with
  | CE2E entry d conds assum out reader_ok points hints =>
      let v := view_e2e entry d conds assum out reader_ok points hints in
      ({| v_agree := true;
          v_ok := ev_parsed v && ev_check v && ev_points v && ev_reader v;
          v_known := false |}, ev_path v)
  | CGlue d flag m t out =>
      ({| v_agree := obs_eqb String.eqb (glue_model d flag m t)
                             (match out with Returned s => Returned (unesc_s s) | Raised => Raised end)
                     && glue_readback d flag m t
                     && forallb fl_ok_b (map fst (unesc_map m))      (* the hypothesis of C13_glue_readback *)
                     && (match out with Returned _ => wf_tree t | Raised => true end);   (* the hypothesis of C13_glue (value) *)
          v_ok := true; v_known := false |}, "g"%char)
  | CTrans text given res after =>
      ({| v_agree := trans_ok text given res after; v_ok := true; v_known := false |}, "t"%char)
  | CElim conds extracted calls out =>
      let v := view_elim conds extracted calls out in
      ({| v_agree := el_parsed v && el_extract v && el_calls v && el_out v; v_ok := el_parsed v && el_follow v;
          v_known := false |}, "x"%char)
  end.

Definition judge (c : case) : verdict := fst (judge_path c).

Definition run (cases : list case) : string := summary judge cases.

(* two characters per case: the verdict and the checker path (evidence) *)
Definition run2 (cases : list case) : string :=
  t2s (flat_map (fun c => let r := judge_path c in [verdict_char (fst r); snd r]) cases).

(* debugging aid *)
Inductive explanation :=
| XE2E (v : e2e_view) (ins : option (list cond))
| XGlue (model : obs string) (readback : bool) (table_shape : bool) (tree_wf : bool)
| XTrans (found : list string) (model_text : string) (model_map : result (list (string * string)))
| XElim (v : elim_view) (model_extracted : list (option (expr * expr))).

Definition explain (c : case) : explanation :=
  match c with
  | CE2E entry d conds assum out reader_ok points hints =>
      XE2E (view_e2e entry d conds assum out reader_ok points hints) None
  | CGlue d flag m t out => XGlue (glue_model d flag m t) (glue_readback d flag m t) (forallb fl_ok_b (map fst (unesc_map m)))
                                  (wf_tree t)
  | CTrans text given res after =>
      XTrans (fluents_in (unesc_s text)) (transform_text (unesc_s text) (unesc_map after))
             (transform_map (unesc_map given) (fluents_in (unesc_s text)))
  | CElim conds extracted calls out =>
      XElim (view_elim conds extracted calls out)
            (match rd_conds conds with Some cs => map extract_eliminated (filter is_eq cs) | None => [] end)
  end.
