(* Correspondence for C19: status, action list and written plan file of MetricFFParser / ENHSPParser versus the
   model (agree) and versus the spec (ok): the generator's plan rendered by Spec.PlannerLogs.expected_action and a
   line-by-line oracle that does not use the position scanner. *)
From Coq Require Import List Ascii String Bool.
From Verif Require Import Base.Result Base.Str Model.PlannerLogs Spec.PlannerLogs Corr.Common.
Import ListNotations.
Open Scope string_scope.
Open Scope list_scope.

(* the pattern texts read from the imported module on this run (escaped) *)
Record consts := { k_plan : string; k_valid : string; k_nosol : list string }.

Fixpoint list_eqb {A} (eqb : A -> A -> bool) (a b : list A) : bool :=
  match a, b with
  | [], [] => true
  | x :: a', y :: b' => eqb x y && list_eqb eqb a' b'
  | _, _ => false
  end.

Definition text_eqb (a b : text) : bool := list_eqb Ascii.eqb a b.

Definition opt_eqb {A} (eqb : A -> A -> bool) (a b : option A) : bool :=
  match a, b with
  | None, None => true
  | Some x, Some y => eqb x y
  | _, _ => false
  end.

(* the scanners of Model.PlannerLogs were written for exactly these pattern texts *)
Definition consts_ok (k : consts) : bool :=
  String.eqb (unesc_s (k_plan k)) plan_regex_src &&
  String.eqb (unesc_s (k_valid k)) valid_plan_src &&
  list_eqb String.eqb (map unesc_s (k_nosol k)) no_solution_srcs &&
  simple_src valid_plan_src && forallb simple_src no_solution_srcs.

(* what the generator knows about the input *)
Inductive expectation :=
| ExpPlan (steps : list string)            (* a rendering of this plan: each step "name arg ... arg", single blanks *)
| ExpNoPlan (nosol : bool) (nofile : bool) (* no plan marker; a no-solution marker was planted or not; no step-like line at all *)
| ExpNone.                                  (* raw text: judged by the oracle only *)

Record case := {
  c_enhsp : bool;
  c_text : string;                 (* the log / plan file bytes, escaped *)
  c_status : string;               (* implementation: returned status ("" for ENHSP) *)
  c_actions : list string;         (* implementation: returned action list, escaped *)
  c_file : option string;          (* implementation: bytes of the plan file afterwards, None if none was written *)
  c_file_concat : bool;            (* literal compression (round 3): true = a plan file exists and its bytes are exactly the
                                      concatenation of the returned actions (compared by the harness); [c_file] is then unused *)
  c_expect : expectation }.

Record observation := { o_status : string; o_actions : list text; o_file : option text }.

Definition obs_eqb (a b : observation) : bool :=
  String.eqb (o_status a) (o_status b) && list_eqb text_eqb (o_actions a) (o_actions b) &&
  opt_eqb text_eqb (o_file a) (o_file b).

Definition impl_obs (c : case) : observation :=
  {| o_status := c_status c; o_actions := map unesc (c_actions c);
     o_file := if c_file_concat c then Some (List.concat (map unesc (c_actions c)))
               else match c_file c with Some f => Some (unesc f) | None => None end |}.

Definition status_str (s : status) : string :=
  match s with StOk => "ok" | StNoSolution => "no-solution" | StTimeout => "timeout" end.

Definition model_obs (c : case) : observation :=
  let t := unesc (c_text c) in
  if c_enhsp c then
    {| o_status := ""; o_actions := enhsp_parse_plan_content t; o_file := Some (enhsp_plan_file t) |}
  else
    {| o_status := status_str (fst (get_solving_status t)); o_actions := snd (get_solving_status t);
       o_file := parse_plan_file t |}.

(* ---------- the oracle: line by line, no position scanning ---------- *)
Fixpoint is_prefix (p t : text) : bool :=
  match p, t with
  | [], _ => true
  | a :: p', c :: t' => Ascii.eqb a c && is_prefix p' t'
  | _ :: _, [] => false
  end.

Fixpoint substring_b (needle hay : text) : bool :=
  is_prefix needle hay || match hay with [] => false | _ :: r => substring_b needle r end.

(* complete lines (terminated by LF), without the LF; the unterminated rest is dropped *)
Fixpoint complete_lines (t : text) (cur : text) : list text :=
  match t with
  | [] => []
  | c :: r => if Ascii.eqb c LF then rev cur :: complete_lines r [] else complete_lines r (c :: cur)
  end.

Definition drop_last_cr (l : text) : text :=
  match rev l with
  | c :: r => if Ascii.eqb c CR then rev r else l
  | [] => l
  end.

(* a step line: optional "step", blanks, a number, ": ", then a non-empty rest of the line made of
   word characters, blanks, '+', '?' and '-' *)
Definition oracle_line (l0 : text) : option text :=
  let l := drop_last_cr l0 in
  let l := match strip_prefix (s2t "step") l with Some r => r | None => l end in
  let l := drop_while is_blank l in
  match take_while is_digit l, drop_while is_digit l with
  | _ :: _, c1 :: c2 :: body =>
      if Ascii.eqb c1 ":" && Ascii.eqb c2 " " && forallb in_class body
      then match body with [] => None | _ => Some body end else None
  | _, _ => None
  end.

Fixpoint filter_map {A B} (f : A -> option B) (l : list A) : list B :=
  match l with
  | [] => []
  | x :: r => match f x with Some y => y :: filter_map f r | None => filter_map f r end
  end.

Definition oracle_actions (t : text) : list text :=
  map (fun b => LP :: strip (lower_text b) ++ [RP; LF]) (filter_map oracle_line (complete_lines t [])).

Fixpoint split_sp (t : text) (cur : text) : list text :=
  match t with
  | [] => [rev cur]
  | c :: r => if Ascii.eqb c SP then rev cur :: split_sp r [] else split_sp r (c :: cur)
  end.

Definition expected_of (steps : list string) : list text :=
  map (fun s => expected_action (split_sp (unesc s) [])) steps.

Definition file_of (acts : list text) : option text :=
  match acts with [] => None | _ => Some (List.concat acts) end.

Definition spec_ok_ff (c : case) : bool :=
  let t := unesc (c_text c) in
  let o := impl_obs c in
  let has_marker := substring_b marker t in
  (* the oracle *)
  (if has_marker
   then String.eqb (o_status o) "ok" && list_eqb text_eqb (o_actions o) (oracle_actions t) &&
        opt_eqb text_eqb (o_file o) (file_of (oracle_actions t))
   else (String.eqb (o_status o) "no-solution" || String.eqb (o_status o) "timeout") &&
        match o_actions o with [] => true | _ => false end) &&
  (* the generator's knowledge *)
  match c_expect c with
  | ExpPlan steps =>
      String.eqb (o_status o) "ok" && list_eqb text_eqb (o_actions o) (expected_of steps) &&
      opt_eqb text_eqb (o_file o) (file_of (expected_of steps))
  | ExpNoPlan nosol nofile =>
      String.eqb (o_status o) (if nosol then "no-solution" else "timeout") &&
      match o_actions o with [] => true | _ => false end &&
      (if nofile then match o_file o with None => true | Some _ => false end else true)
  | ExpNone => true
  end.

(* the last action of a file whose last line is not terminated comes back without its line feed *)
Definition drop_final_lf (t : text) : text :=
  match rev t with c :: r => if Ascii.eqb c LF then rev r else t | [] => t end.
Definition relax_last (l : list text) : list text :=
  match rev l with x :: r => rev (drop_final_lf x :: r) | [] => [] end.

Definition spec_ok_enhsp (c : case) : bool :=
  let o := impl_obs c in
  (* the file is rewritten with exactly the returned lines *)
  opt_eqb text_eqb (o_file o) (Some (List.concat (o_actions o))) &&
  match c_expect c with
  | ExpPlan steps => list_eqb text_eqb (o_actions o) (expected_of steps) ||
                     list_eqb text_eqb (relax_last (o_actions o)) (relax_last (expected_of steps))
  | _ => true
  end.

Definition judge (k : consts) (c : case) : verdict :=
  {| v_agree := consts_ok k && obs_eqb (model_obs c) (impl_obs c);
     v_ok := if c_enhsp c then spec_ok_enhsp c else spec_ok_ff c;
     v_known := false |}.

Definition run (k : consts) (cases : list case) : string := summary (judge k) cases.

(* debugging aid for replay files *)
Definition show_obs (o : observation) := (o_status o, map t2s (o_actions o), match o_file o with Some f => Some (t2s f) | None => None end).
Definition explain (k : consts) (c : case) :=
  (consts_ok k, show_obs (model_obs c), show_obs (impl_obs c),
   if c_enhsp c then [] else map t2s (oracle_actions (unesc (c_text c)))).

(* ------------------------------------------------------------------------------------------------
   LARGE logs / plan files (> 64 KiB; round 3, seeded change C19_D): the text crosses as segments
   (Corr.BigText.expand), the action list and the plan file as digests (Corr.BigText.digest_texts).
   [b_joined] is the digest of the concatenation of the returned actions (computed by the harness from the
   returned list): the file written must be exactly that. *)
From Coq Require Import Uint63.
From Verif Require Import Corr.BigText.

Inductive bexpectation :=
| BExpPlan (actions : digest_t)              (* digest of the expected action list (the generator knows the plan) *)
| BExpNoPlan (nosol : bool)
| BExpNone.

Record bigcase := {
  b_enhsp : bool;
  b_segs : list seg;
  b_status : string;
  b_actions : digest_t;             (* implementation: digest of the returned action list *)
  b_joined : digest_t;              (* digest of the one-element list [concatenation of the returned actions] *)
  b_file : option digest_t;         (* implementation: digest of [bytes of the plan file], None if none was written *)
  b_expect : bexpectation }.

Definition odigest_eqb (a b : option digest_t) : bool := opt_eqb digest_eqb a b.

Definition file_digest (f : option text) : option digest_t :=
  match f with Some t => Some (digest_texts [t]) | None => None end.

Definition judge_big (k : consts) (c : bigcase) : verdict :=
  let t := expand (b_segs c) in
  if b_enhsp c then
    let acts := enhsp_parse_plan_content t in
    {| v_agree := String.eqb (b_status c) "" && digest_eqb (digest_texts acts) (b_actions c) &&
                  odigest_eqb (Some (digest_texts [List.concat acts])) (b_file c);
       v_ok := odigest_eqb (b_file c) (Some (b_joined c)) &&
               match b_expect c with BExpPlan d => digest_eqb d (b_actions c) | _ => true end;
       v_known := false |}
  else
    let r := get_solving_status t in
    let oracle := oracle_actions t in
    {| v_agree := consts_ok k && String.eqb (status_str (fst r)) (b_status c) &&
                  digest_eqb (digest_texts (snd r)) (b_actions c) &&
                  odigest_eqb (file_digest (parse_plan_file t)) (b_file c);
       v_ok := (if substring_b marker t
                then String.eqb (b_status c) "ok" && digest_eqb (digest_texts oracle) (b_actions c) &&
                     odigest_eqb (b_file c) (file_digest (file_of oracle))
                else (String.eqb (b_status c) "no-solution" || String.eqb (b_status c) "timeout") &&
                     digest_eqb (digest_texts []) (b_actions c)) &&
               (if (digest_count (b_actions c) =? 0)%uint63 then true else odigest_eqb (b_file c) (Some (b_joined c))) &&
               match b_expect c with
               | BExpPlan d => String.eqb (b_status c) "ok" && digest_eqb d (b_actions c)
               | BExpNoPlan nosol => String.eqb (b_status c) (if nosol then "no-solution" else "timeout") &&
                                     digest_eqb (digest_texts []) (b_actions c)
               | BExpNone => true
               end;
       v_known := false |}.

Definition run_big (k : consts) (cases : list bigcase) : string := summary (judge_big k) cases.

Definition explain_big (k : consts) (c : bigcase) :=
  let t := expand (b_segs c) in
  if b_enhsp c then
    (consts_ok k, "", digest_texts (enhsp_parse_plan_content t), Some (digest_texts [enhsp_plan_file t]),
     map t2s (firstn 3 (enhsp_parse_plan_content t)))
  else
    (consts_ok k, status_str (fst (get_solving_status t)), digest_texts (snd (get_solving_status t)),
     file_digest (parse_plan_file t), map t2s (firstn 3 (oracle_actions t))).
