(* Correspondence for C15: the joint actions returned by PlanConverter.convert_plan and the final states of the
   sequential and of the joint run (library functions), versus the model (agree) and versus the spec (ok):
   structure of the regrouping, every step a well-defined joint action of the spec, both spec runs ending in the
   same state, and the library's two final states equal to it. *)
From Coq Require Import List Ascii String Bool Arith PrimFloat.
From Verif Require Import Base.Result Base.Str Base.Sexp Base.PyDict Base.Float
  Model.Tokenizer Model.Types Model.Domain Model.Exec Model.PlanConverter
  Spec.Pddl Spec.Grammar Spec.JointPlan Corr.Common Corr.Core.
Import ListNotations.
Open Scope string_scope.
Open Scope list_scope.

(* constants of the imported module on this run (escaped) *)
Record consts := { k_regex : string; k_nop : string }.
Definition consts_ok (k : consts) : bool :=
  String.eqb (unesc_s (k_regex k)) plan_regex_src && String.eqb (unesc_s (k_nop k)) nop_name.

Record case := {
  c_text : string;                     (* domain text, escaped *)
  c_nums : list (string * float);      (* float(token) for the numerals of the domain *)
  c_eps : float;
  c_objs : objects;
  c_init : state;                      (* the problem's initial state *)
  c_plan : string;                     (* the plan file's text, escaped *)
  c_calls : option (list call);        (* the generator's plan (lower case); None for a raw text *)
  c_agents : list string;
  c_flag : bool;                       (* should_validate_concurrency_constraint *)
  c_joint : obs (list joint);          (* convert_plan: names and parameters of every slot, or raised *)
  c_joint_text : list string;          (* str(joint action) for every step, escaped *)
  c_seq_final : obs state;             (* library: the extracted actions applied one by one *)
  c_joint_final : obs state;           (* library: apply_actions on the operational actions of every step *)
  c_intact : bool                      (* seen by the driver around convert_plan: the agent list object, the plan file and the
                                          problem's initial state are as before the call (the model is a pure function) *)
}.

Definition numtab (c : case) : string -> option float := fun s => lookup s (c_nums c).
Definition case_sexp (c : case) : result sexp := parse MFile (unesc (c_text c)).
Definition model_domain (c : case) : result mdomain := do e <- case_sexp c; parse_domain (numtab c) e.
Definition spec_domain (c : case) : option sdomain :=
  match case_sexp c with Ok e => read_domain (numtab c) e | Err _ => None end.

(* ---------- model ---------- *)
Record mobs := { m_joint : obs (list joint); m_seq : obs state; m_jfinal : obs state }.

Definition model_obs (c : case) : mobs :=
  match model_domain c with
  | Err _ => {| m_joint := Raised; m_seq := Raised; m_jfinal := Raised |}
  | Ok d =>
      let t := unesc (c_plan c) in
      let js := convert_plan d (c_eps c) (c_agents c) (c_flag c) insertion_ok (c_init c) t in
      {| m_joint := obs_of_result js;
         m_seq := obs_of_result (do pa <- extract_plan_actions (c_agents c) t;
                                 run_sequential d (c_eps c) (c_init c) (map fst pa));
         m_jfinal := obs_of_result (do j <- js; run_joint d (c_eps c) (c_init c) j) |}
  end.

Definition joint_eqb (a b : joint) : bool := list_eqb call_eqb a b.

Definition agree (c : case) : bool :=
  let m := model_obs c in
  obs_eqb (list_eqb joint_eqb) (m_joint m) (c_joint c) &&
  match c_joint c with
  | Returned js => list_eqb String.eqb (map show_joint js) (map unesc_s (c_joint_text c))
  | Raised => true
  end &&
  obs_eqb state_equiv (m_seq m) (c_seq_final c) &&
  obs_eqb state_equiv (m_jfinal m) (c_joint_final c).

(* ---------- spec oracle ---------- *)
Definition spec_world (c : case) : option jworld :=
  match spec_domain c with
  | Some sd => Some {| jw_eps := c_eps c; jw_tt := spec_tt sd; jw_objs := dupdate (sd_consts sd) (c_objs c); jw_actions := sd_actions sd |}
  | None => None
  end.

(* which kinds of interference do neighbouring actions of different agents show?  (classifies the recorded findings)
   'a' an atom added by one and deleted by the other; 'e' the effects are not compatible ('a', or something the EFFECTS
   of one read is changed by the other, or a fluent is written by both); 'p' something the PRECONDITION of one reads is
   changed by the other *)
Definition kind_bits (w : jworld) (agents : list name) (a b : call) : bool * bool * bool :=
  let x := call_fp w a in
  let y := call_fp w b in
  match executor agents a, executor agents b with
  | Some ea, Some eb =>
      if String.eqb ea eb then (false, false, false)
      else (negb (disjoint (fp_adds x) (fp_dels y) && disjoint (fp_dels x) (fp_adds y)),
            negb (fp_effects_compatible x y),
            negb (fp_preconditions_untouched x y))
  | _, _ => (false, false, false)
  end.

Fixpoint neighbour_bits (w : jworld) (agents : list name) (plan : list call) : bool * bool * bool :=
  match plan with
  | a :: ((b :: _) as r) =>
      let '(x1, x2, x3) := kind_bits w agents a b in
      let '(y1, y2, y3) := neighbour_bits w agents r in
      (x1 || y1, x2 || y2, x3 || y3)
  | _ => (false, false, false)
  end.

Definition case_bits (c : case) : bool * bool * bool :=
  match spec_world c, c_calls c with
  | Some w, Some plan => neighbour_bits w (c_agents c) plan
  | _, _ => (false, false, false)
  end.

(* '0'..'7': bit 0 = 'a', bit 1 = 'e', bit 2 = 'p' *)
Definition class_char (c : case) : ascii :=
  let '(a, e, p) := case_bits c in
  ascii_of_nat (48 + (if a then 1 else 0) + (if e then 2 else 0) + (if p then 4 else 0)).

(* the class of the open finding D70: some neighbouring actions of different agents where one changes what the
   precondition of the other reads *)
Definition known_class (c : case) : bool := snd (case_bits c).

(* the joint run with a given notion of compatibility of the members *)
Fixpoint joint_run_with (rel : jworld -> call -> call -> bool) (w : jworld) (s : state) (js : list joint) : option state :=
  match js with
  | [] => Some s
  | j :: r =>
      if forallb (app w s) (members j) && pairwise (rel w) (members j)
      then joint_run_with rel w (joint_step w s j) r else None
  end.

(* [rel] = non_interfering: the property; [rel] = effects_compatible: everything but "no precondition is touched" *)
Definition spec_ok_with (rel : jworld -> call -> call -> bool) (c : case) : bool :=
  match spec_world c, c_calls c with
  | Some w, Some plan =>
      match seq_run w (c_init c) plan with
      | None => true                                   (* not a valid plan: outside the property's quantifier *)
      | Some fin =>
          match c_joint c with
          | Raised => false
          | Returned js =>
              structure_okb (c_agents c) plan js &&
              match joint_run_with rel w (c_init c) js with
              | Some fin' => state_eqv float_eq fin' fin
              | None => false
              end &&
              obs_eqb state_equiv (Returned fin) (c_seq_final c) &&
              obs_eqb state_equiv (Returned fin) (c_joint_final c)
          end
      end
  | _, _ => true                                       (* raw text / unreadable domain: the model alone judges *)
  end.

Definition spec_ok (c : case) : bool := spec_ok_with non_interfering c.

(* The property quantifies over actions whose simultaneous effects are consistent (Spec.Pddl.consistent: no atom added by
   one effect group and deleted by another, no fluent assigned twice).  An action instance such as (act2 a2 c0) with
   effects (not (p0 ?x)) and (when .. (p0 c0)) is not: the library's answer then depends on the iteration order of a set
   of effect objects hashed by address (it differed between two runs inside ONE long-lived process).  Such plans are
   outside the quantifier: recognised on the INPUT (the plan's calls, or what the model's scanner extracts from a raw
   text) along the spec's sequential run, and along the joint run of the returned joint actions (members in slot order). *)
Fixpoint seq_consistent (w : jworld) (s : state) (plan : list call) : bool :=
  match plan with
  | [] => true
  | c :: r => consistent (groups_of w s c) && seq_consistent w (step w s c) r
  end.

Fixpoint joint_consistent (w : jworld) (s : state) (js : list joint) : bool :=
  match js with
  | [] => true
  | j :: r => seq_consistent w s (members j) && joint_consistent w (fold_left (step w) (members j) s) r
  end.

Definition case_plan (c : case) : list call :=
  match c_calls c with
  | Some p => p
  | None => match extract_plan_actions (c_agents c) (unesc (c_plan c)) with Ok pa => map fst pa | Err _ => [] end
  end.

Definition effects_consistent (c : case) : bool :=
  match spec_world c with
  | Some w => seq_consistent w (c_init c) (case_plan c) &&
              match c_joint c with Returned js => joint_consistent w (c_init c) js | Raised => true end
  | None => true
  end.

Definition judge (k : consts) (c : case) : verdict :=
  if negb (effects_consistent c) then {| v_agree := c_intact c; v_ok := c_intact c; v_known := false |} else
  {| v_agree := consts_ok k && agree c && c_intact c;
     v_ok := spec_ok c && c_intact c;
     (* inside the class of D70 everything else must still hold *)
     v_known := known_class c && spec_ok_with effects_compatible c |}.

(* two characters per case: the verdict, then the class of the input ('c': inconsistent effects, not judged) *)
Definition run (k : consts) (cases : list case) : string :=
  t2s (flat_map (fun c => [verdict_char (judge k c); if effects_consistent c then class_char c else "c"%char]) cases).

(* debugging aid: per step of the joint run (continued past ill-defined steps): all members applicable in the
   step's pre-state?  pairwise non-interfering? *)
Fixpoint joint_trace (w : jworld) (s : state) (js : list joint) : list (bool * bool) :=
  match js with
  | [] => []
  | j :: r => (forallb (app w s) (members j), pairwise (non_interfering w) (members j)) :: joint_trace w (joint_step w s j) r
  end.

Definition explain (k : consts) (c : case) :=
  (consts_ok k, model_obs c,
   match spec_world c, c_calls c with
   | Some w, Some plan =>
       Some (seq_run w (c_init c) plan,
             match c_joint c with
             | Returned js => Some (structure_okb (c_agents c) plan js, joint_run w (c_init c) js, joint_trace w (c_init c) js)
             | Raised => None end,
             neighbour_bits w (c_agents c) plan)
   | _, _ => None
   end).
