(* Correspondence for C18 (renaming the parameters of an action).
   A case = one generated domain, one of its actions, one mapping passed to Action.change_signature, and what the
   implementation showed afterwards: the renamed action's signature, its text (assembled from the library's own
   printing methods, also for the action before the renaming), and for a small universe of states and calls the
   applicability and the successor of the ORIGINAL and of the RENAMED action (both through Operator).
     agree : the model (Model.ChangeSignature on Model.Domain's reading of the texts, Model.Exec for the probes)
             gives what the implementation gave;
     ok    : the implementation satisfies the property - judged without the model: signature = map rho of the
             declared parameters, printed renamed action = Spec.Rename.ren_action rho (printed original action) up
             to the order of conjuncts, renamed behaves as the original on every probe - whenever the mapping is an
             admissible renaming of that action (decided here on the spec's reading, not trusted from the generator),
             and also when it is an injective renaming that lands on a quantified variable or a constant (the class
             of the recorded finding D75, v_known).
             The signature unit also demands that the side condition of theorem C18_rename (renaming_ok, computed on
             the model's reading) holds whenever the oracle treats the mapping as admissible, so that every judged
             case lies inside the proved statement.
   A case may carry further mappings (r_more) passed to further calls on the same action - the same mapping again, its
   inverse (round trip), a mapping chosen for the renamed action; the observables are then those after the LAST call,
   the model is the fold of change_signature (Proofs.C18_Seq.cs_seq), the oracle the fold of Spec.Rename.ren_action,
   admissibility is demanded of every step on the action as renamed so far (admissible_seqb), and the side condition
   checked is the one of theorem C18_rename_seq (ok_seq).
   Isolation: Action.change_signature is a method of ONE action; the model is a function of that action alone, so it
   predicts that the declarations of the domain (domain.predicates, domain.functions) and the other actions print after
   the call(s) what they printed before (an object shared between the action and its domain, renamed in place, shows
   here).  Demanded of every case, whatever the mapping.
   Verdicts per case: signature, text, isolation, then (applicability, successor) per probe. *)
From Coq Require Import List Ascii String Bool Arith PrimFloat.
From Verif Require Import Base.Result Base.Str Base.Sexp Base.PyDict Base.Float
  Model.Tokenizer Model.Types Model.Domain Model.Exec Model.ChangeSignature Model.ChangeSignatureAlpha
  Spec.Pddl Spec.Grammar Spec.Rename Proofs.C18_Check Proofs.C18_Seq Proofs.C18_ParsedDomain Proofs.C18_NumOk
  Corr.Common Corr.Core Corr.C18Flag.
Import ListNotations.
Open Scope string_scope.
Open Scope list_scope.

(* ---------- cases ---------- *)
Record rprobe := {
  q_args : list string;
  q_state : state;
  q_app0 : obs bool;  q_succ0 : obs state;           (* the action as parsed *)
  q_app1 : obs bool;  q_succ1 : obs state            (* after change_signature *)
}.

Record rcase := {
  r_text : string;                                   (* domain text, escaped *)
  r_nums : list (string * float);                    (* float(token) table for the three texts *)
  r_eps : float;
  r_objs : objects;
  r_action : string;
  r_map : list (string * string);                    (* the dict passed, in insertion order *)
  r_more : list (list (string * string));            (* further dicts passed to further calls, one after another
                                                        (the same one again, its inverse, another one); mostly [] *)
  r_sig : obs (list (string * string));              (* signature after the last call (name, type name), or raised *)
  r_print0 : string;                                 (* the action's text before the call *)
  r_print1 : obs string;                             (* ... after the last call *)
  r_rest0 : string;                                  (* the REST of the domain before the call: declared predicates and
                                                        functions, the other actions (printed by the library) *)
  r_rest1 : obs string;                              (* ... after the last call *)
  r_probes : list rprobe
}.

Definition rnum (c : rcase) : string -> option float := fun s => lookup s (r_nums c).

(* ---------- comparison up to the order of set-like collections ---------- *)
Fixpoint remove_first {A} (eqb : A -> A -> bool) (x : A) (l : list A) : option (list A) :=
  match l with
  | [] => None
  | y :: r => if eqb x y then Some r
              else match remove_first eqb x r with Some r' => Some (y :: r') | None => None end
  end.
Fixpoint multiset_eqb {A} (eqb : A -> A -> bool) (a b : list A) : bool :=
  match a with
  | [] => match b with [] => true | _ => false end
  | x :: r => match remove_first eqb x b with Some b' => multiset_eqb eqb r b' | None => false end
  end.

(* Python sets of hashable values (pairs of names, predicates, nested conditions): equal as sets *)
Definition set_eqb {A} (eqb : A -> A -> bool) (a b : list A) : bool :=
  forallb (fun x => existsb (eqb x) b) a && forallb (fun y => existsb (fun x => eqb x y) a) b.

Definition strs_eqb (a b : list string) : bool := list_eqb String.eqb a b.
Definition pair_eqb (a b : string * string) : bool := String.eqb (fst a) (fst b) && String.eqb (snd a) (snd b).

Fixpoint mtree_eqb (a b : mtree) : bool :=
  match a, b with
  | TNum x, TNum y => float_beq x y
  | TFn f xs, TFn g ys => String.eqb f g && strs_eqb xs ys
  | TNode o l r, TNode o' l' r' => String.eqb o o' && mtree_eqb l l' && mtree_eqb r r'
  | _, _ => false
  end.

Fixpoint mpre_eqv (fuel : nat) (a b : mpre) : bool :=
  match fuel with
  | 0 => false
  | S fu =>
      match a, b with
      | MPre o os e n, MPre o' os' e' n' =>
          String.eqb o o' && set_eqb (mcond_eqv fu) os os' && set_eqb pair_eqb e e' && set_eqb pair_eqb n n'
      end
  end
with mcond_eqv (fuel : nat) (a b : mcond) : bool :=
  match fuel with
  | 0 => false
  | S fu =>
      match a, b with
      | MLit p q xs, MLit p' q' ys => Bool.eqb p p' && String.eqb q q' && strs_eqb xs ys
      | MNum t, MNum t' => mtree_eqb t t'
      | MNested x, MNested y => mpre_eqv fu x y
      | MUniv v ty x, MUniv v' ty' y => String.eqb v v' && String.eqb ty ty' && mpre_eqv fu x y
      | _, _ => false
      end
  end.
Definition deep : nat := 64.

Definition mlit_eqb (a b : mlit) : bool :=
  Bool.eqb (l_pos a) (l_pos b) && String.eqb (l_name a) (l_name b) && strs_eqb (l_args a) (l_args b).
Definition mcondeff_eqv (a b : mcondeff) : bool :=
  mpre_eqv deep (ce_ante a) (ce_ante b) && set_eqb mlit_eqb (ce_disc a) (ce_disc b) &&
  multiset_eqb mtree_eqb (ce_num a) (ce_num b).
Definition muniveff_eqv (a b : muniveff) : bool :=
  String.eqb (ue_var a) (ue_var b) && String.eqb (ue_ty a) (ue_ty b) && mcondeff_eqv (ue_ce a) (ue_ce b).
Definition maction_eqv (a b : maction) : bool :=
  String.eqb (ma_name a) (ma_name b) && list_eqb pair_eqb (ma_sig a) (ma_sig b) &&
  mpre_eqv deep (ma_pre a) (ma_pre b) && set_eqb mlit_eqb (ma_disc a) (ma_disc b) &&
  multiset_eqb mtree_eqb (ma_num a) (ma_num b) && multiset_eqb mcondeff_eqv (ma_cond a) (ma_cond b) &&
  multiset_eqb muniveff_eqv (ma_univ a) (ma_univ b).

(* the same on the spec's syntax *)
Definition binop_eqb (a b : binop) : bool :=
  match a, b with OAdd, OAdd | OSub, OSub | OMul, OMul | ODiv, ODiv => true | _, _ => false end.
Definition cmpop_eqb (a b : cmpop) : bool :=
  match a, b with CEq, CEq | CLe, CLe | CGe, CGe | CLt, CLt | CGt, CGt => true | _, _ => false end.
Definition assignop_eqb (a b : assignop) : bool :=
  match a, b with AAssign, AAssign | AIncrease, AIncrease | ADecrease, ADecrease => true | _, _ => false end.
Fixpoint nexp_eqb (a b : nexp) : bool :=
  match a, b with
  | NNum x, NNum y => float_beq x y
  | NFl f xs, NFl g ys => String.eqb f g && strs_eqb xs ys
  | NBin o l r, NBin o' l' r' => binop_eqb o o' && nexp_eqb l l' && nexp_eqb r r'
  | _, _ => false
  end.
Fixpoint form_eqv (fuel : nat) (a b : form) : bool :=
  match fuel with
  | 0 => false
  | S fu =>
      match a, b with
      | FAtom p xs, FAtom q ys | FNotAtom p xs, FNotAtom q ys => String.eqb p q && strs_eqb xs ys
      | FEq x y, FEq x' y' | FNeq x y, FNeq x' y' => String.eqb x x' && String.eqb y y'
      | FCmp c l r, FCmp c' l' r' => cmpop_eqb c c' && nexp_eqb l l' && nexp_eqb r r'
      (* conjunctions and disjunctions as SETS of members: the library keeps them in hash sets, and a nested condition
         that equals a sibling (same members, written in another order) may or may not survive a re-hash - "and" and
         "or" are idempotent, so the meaning is the same; a member that is LOST has no equivalent left and is still seen *)
      | FAnd l, FAnd l' | FOr l, FOr l' => set_eqb (form_eqv fu) l l'
      | FForall v ty x, FForall v' ty' y => String.eqb v v' && String.eqb ty ty' && form_eqv fu x y
      | _, _ => false
      end
  end.
Definition prim_eqb (a b : prim) : bool :=
  match a, b with
  | PAdd p xs, PAdd q ys | PDel p xs, PDel q ys => String.eqb p q && strs_eqb xs ys
  | PNum k f xs r, PNum k' g ys r' => assignop_eqb k k' && String.eqb f g && strs_eqb xs ys && nexp_eqb r r'
  | _, _ => false
  end.
Definition eff_eqv (a b : eff) : bool :=
  match a, b with
  | EPrims x, EPrims y => multiset_eqb prim_eqb x y
  | EWhen c x, EWhen c' y => form_eqv deep c c' && multiset_eqb prim_eqb x y
  | EForall v ty c x, EForall v' ty' c' y =>
      String.eqb v v' && String.eqb ty ty' && form_eqv deep c c' && multiset_eqb prim_eqb x y
  | _, _ => false
  end.
Definition action_eqv (a b : action) : bool :=
  String.eqb (a_name a) (a_name b) && list_eqb pair_eqb (a_params a) (a_params b) &&
  form_eqv deep (a_pre a) (a_pre b) && multiset_eqb eff_eqv (a_effs a) (a_effs b).

(* ---------- reading the texts ---------- *)
Definition text_sexp (s : string) : result sexp := parse MFile (unesc s).

Definition model_dom (c : rcase) : result mdomain := do e <- text_sexp (r_text c); parse_domain (rnum c) e.
Definition spec_dom (c : rcase) : option sdomain :=
  match text_sexp (r_text c) with Ok e => read_domain (rnum c) e | Err _ => None end.

(* "(:action name :parameters (...) :precondition ... :effect ...)" in the context of the parsed domain *)
Definition model_action_of_text (c : rcase) (d : mdomain) (s : string) : result maction :=
  do e <- text_sexp s;
  match e with
  | SList (Atom _ :: body) => parse_action (rnum c) (d_types d) (d_consts d) (d_preds d) (d_funcs d) body
  | _ => Err ESyntax
  end.
Definition spec_action_of_text (c : rcase) (s : string) : option action :=
  match text_sexp s with
  | Ok (SList (Atom _ :: body)) => read_action (rnum c) body
  | _ => None
  end.

(* ---------- the renaming as a function, and whether it is admissible for a spec action ---------- *)
Definition rho_of (m : list (string * string)) : ren := fun n => match lookup n m with Some x => x | None => n end.

Fixpoint dedup (l : list string) : list string :=
  match l with [] => [] | x :: r => if str_in x r then dedup r else x :: dedup r end.
Fixpoint injective_on (rho : ren) (l : list string) : bool :=      (* l duplicate-free *)
  match l with
  | [] => true
  | x :: r => negb (str_in (rho x) (map rho r)) && injective_on rho r
  end.

Definition admissibleb (consts : list string) (m : list (string * string)) (a : action) : bool :=
  let rho := rho_of m in
  let ps := params a in
  forallb (fun kv => str_in (fst kv) ps || String.eqb (rho (fst kv)) (fst kv)) m &&
  injective_on rho (dedup (ps ++ free_action a ++ consts)) &&
  forallb (fun p => String.eqb (rho p) p || negb (str_in (rho p) (bound_action a))) ps &&
  forallb (fun p => String.eqb (rho p) p || negb (str_in p consts)) ps.

(* a sequence of mappings: each one admissible for the action as renamed so far (spec's reading) *)
Fixpoint admissible_seqb (consts : list string) (ms : list (list (string * string))) (a : action) : bool :=
  match ms with
  | [] => true
  | m :: r => admissibleb consts m a && admissible_seqb consts r (ren_action (rho_of m) a)
  end.
Definition ren_all (ms : list (list (string * string))) (a : action) : action :=
  fold_left (fun a m => ren_action (rho_of m) a) ms a.

(* ---------- only when Corr.C18Flag.d75b_patched is set (a tree that carries proposed_fixes/D75b.diff) ----------
   The patched library renames a quantified variable out of the way (to a fresh name) when a new parameter name equals
   it.  The model is then Model.ChangeSignatureAlpha; the oracle compares texts up to the names of bound variables: both
   actions are normalised (the variable of a quantifier at depth k becomes "#k", a name no renaming can produce), after
   which Spec.Rename.ren_action cannot capture anything. *)
Definition model_cs (m : list (string * string)) (a : maction) : result maction :=
  if d75b_patched then change_signature_a m a else Ok (change_signature m a).
Definition model_cs_seq (ms : list (list (string * string))) (a : maction) : result maction :=
  foldM (fun a m => model_cs m a) ms a.

Definition depth_name (k : nat) : string := "#" ++ nat_to_string k.
Definition sub_name (sub : list (string * string)) (n : string) : string :=
  match lookup n sub with Some x => x | None => n end.
Fixpoint norm_nexp (sub : list (string * string)) (n : nexp) : nexp :=
  match n with
  | NNum x => NNum x
  | NFl f args => NFl f (map (sub_name sub) args)
  | NBin o a b => NBin o (norm_nexp sub a) (norm_nexp sub b)
  end.
Fixpoint norm_form (k : nat) (sub : list (string * string)) (f : form) : form :=
  match f with
  | FAtom p args => FAtom p (map (sub_name sub) args)
  | FNotAtom p args => FNotAtom p (map (sub_name sub) args)
  | FEq a b => FEq (sub_name sub a) (sub_name sub b)
  | FNeq a b => FNeq (sub_name sub a) (sub_name sub b)
  | FCmp c l r => FCmp c (norm_nexp sub l) (norm_nexp sub r)
  | FAnd l => FAnd (map (norm_form k sub) l)
  | FOr l => FOr (map (norm_form k sub) l)
  | FForall v ty body => FForall (depth_name k) ty (norm_form (S k) ((v, depth_name k) :: sub) body)
  end.
Definition norm_prim (sub : list (string * string)) (p : prim) : prim :=
  match p with
  | PAdd q args => PAdd q (map (sub_name sub) args)
  | PDel q args => PDel q (map (sub_name sub) args)
  | PNum k f args rhs => PNum k f (map (sub_name sub) args) (norm_nexp sub rhs)
  end.
Definition norm_eff (e : eff) : eff :=
  match e with
  | EPrims es => EPrims es
  | EWhen c es => EWhen (norm_form 0 [] c) es
  | EForall v ty c es =>
      EForall (depth_name 0) ty (norm_form 1 [(v, depth_name 0)] c) (map (norm_prim [(v, depth_name 0)]) es)
  end.
Definition norm_action (a : action) : action :=
  if d75b_patched then
    {| a_name := a_name a; a_params := a_params a; a_pre := norm_form 0 [] (a_pre a); a_effs := map norm_eff (a_effs a) |}
  else a.

(* admissible except that a new name may be a quantified variable of the action (the patched library makes room) *)
Definition admissible_mod_boundb (consts : list string) (m : list (string * string)) (a : action) : bool :=
  let rho := rho_of m in
  let ps := params a in
  forallb (fun kv => str_in (fst kv) ps || String.eqb (rho (fst kv)) (fst kv)) m &&
  injective_on rho (dedup (ps ++ free_action a ++ consts)) &&
  forallb (fun p => String.eqb (rho p) p || negb (str_in p consts)) ps.

(* The recorded finding D75: the mapping is a renaming of the parameters (moves them only, injective on them)
   but sends one to the name of a quantified variable of the action or of a constant of the domain.  The library
   does not notice; the renamed action can mean something else (capture).  Such cases are JUDGED (they are
   injective maps, the property's wording covers them) and classified as the known class. *)
Definition captureb (consts : list string) (m : list (string * string)) (a : action) : bool :=
  let rho := rho_of m in
  let ps := params a in
  forallb (fun kv => str_in (fst kv) ps || String.eqb (rho (fst kv)) (fst kv)) m &&
  injective_on rho (dedup ps) &&
  existsb (fun p => negb (String.eqb (rho p) p) && (str_in (rho p) (bound_action a) || str_in (rho p) consts)) ps.

(* ---------- model answers ---------- *)
Definition default_order (ga : gaction) : list nat := seq 0 (List.length (ga_groups ga)).
Definition default_uorder (ga : gaction) : list nat := seq 0 (List.length (ma_univ (ga_action ga))).

Definition m_app (c : rcase) (d : mdomain) (g : result gaction) (q : rprobe) : obs bool :=
  obs_of_result (do ga <- g; is_applicable d (r_eps c) (Some (quantification_objects d (r_objs c))) ga (q_state q)).
Definition m_succ (c : rcase) (d : mdomain) (g : result gaction) (q : rprobe) : obs state :=
  obs_of_result (do ga <- g;
                 apply_op d (r_eps c) ga (Some (quantification_objects d (r_objs c))) false false (default_order ga) (default_uorder ga)
                          (q_state q)).

Definition sig_eqb (a b : list (string * string)) : bool := list_eqb pair_eqb a b.

Definition judge (c : rcase) : list verdict :=
  let es := text_sexp (r_text c) in                                     (* the domain text is read once *)
  let md := match es with Ok e => parse_domain (rnum c) e | Err k => Err k end in
  let sd := match es with Ok e => read_domain (rnum c) e | Err _ => None end in
  let m := r_map c in
  let ms := r_map c :: r_more c in
  let ma := match md with Ok d => match dget (d_actions d) (r_action c) with Some a => Some (d, a) | None => None end
                        | Err _ => None end in
  let sa := match sd with Some d => match find_action d (r_action c) with Some a => Some (d, a) | None => None end
                        | None => None end in
  let adm := match sa with Some (d, a) => admissible_seqb (map fst (sd_consts d)) ms a | None => false end in
  let cap := match sa, r_more c with
             | Some (d, a), [] => negb adm && captureb (map fst (sd_consts d)) m a
             | _, _ => false end in
  (* with the patch, a capture by a quantified variable alone is no longer a deviation: judged, not known *)
  let made_room := match sa, r_more c with
                   | Some (d, a), [] => d75b_patched && cap && admissible_mod_boundb (map fst (sd_consts d)) m a
                   | _, _ => false end in
  let known := cap && negb made_room in
  let judged := adm || cap in
  let mr := match ma with Some (d, a) => Some (d, model_cs_seq ms a) | None => None end in   (* renamed once per case *)
  (* signature *)
  let v_sig :=
    {| v_agree := match ma with
                  | Some (d, a) =>
                      match mr with
                      | Some (_, Ok ra) => obs_eqb sig_eqb (Returned (ma_sig ra)) (r_sig c)
                      | _ => false end &&
                      (* every case the oracle judges lies inside the theorem: the side condition of C18_rename
                         (of C18_rename_seq for several calls) holds at every step *)
                      (negb adm || ok_seq d a ms) &&
                      (* ... and inside C18_rename_parsed_domain: the two hypotheses on the text and on the float() table are
                         decided here (Proofs.C18_NumOk.num_okb_sound, Proofs.C18_ParsedDomain.funcs_heads_okb_sound) *)
                      (negb adm || (num_okb (r_nums c) && match es with Ok e => funcs_heads_okb e | Err _ => false end))
                  | None => false end;
       v_ok := negb judged ||
               match sa with
               | Some (_, a) => obs_eqb sig_eqb (Returned (a_params (ren_all ms a))) (r_sig c)
               | None => false end;
       v_known := known |} in
  (* text *)
  let v_txt :=
    {| v_agree := match ma, r_print1 c with
                  | Some (d, _), Returned t1 =>
                      match model_action_of_text c d (r_print0 c), model_action_of_text c d t1 with
                      | Ok a0, Ok a1 => match model_cs_seq ms a0 with Ok x => maction_eqv a1 x | Err _ => false end
                      | Ok _, Err _ => negb adm     (* a foreign mapping can produce a text that is not an action *)
                      | _, _ => false
                      end
                  | _, _ => false end;
       v_ok := negb judged ||
               match r_print1 c with
               | Returned t1 =>
                   match spec_action_of_text c (r_print0 c), spec_action_of_text c t1 with
                   | Some a0, Some a1 => action_eqv (norm_action a1) (ren_all ms (norm_action a0))
                   | _, _ => false
                   end
               | Raised => false end;
       v_known := known |} in
  (* isolation: the rest of the domain prints what it printed before *)
  let untouched := obs_eqb String.eqb (Returned (r_rest0 c)) (r_rest1 c) in
  let v_iso := {| v_agree := untouched; v_ok := untouched; v_known := false |} in
  (* probes *)
  let v_probes :=
    flat_map (fun q =>
      let g := match mr with Some (d, Ok ra) => ground_action d ra (q_args q) | _ => Err EOther end in
      let consistent_probe :=
        match sa with
        | Some (d, a) => consistent (all_groups (r_eps c) (spec_tt d) (dupdate (sd_consts d) (r_objs c)) a (q_args q) (q_state q))
        | None => true end in
      [ {| v_agree := match mr with
                      | Some (d, _) => obs_eqb Bool.eqb (m_app c d g q) (q_app1 q)
                      | None => false end;
           v_ok := negb judged || obs_eqb Bool.eqb (q_app1 q) (q_app0 q);
           v_known := known |};
        {| v_agree := negb consistent_probe ||
                      match mr with
                      | Some (d, _) => obs_eqb state_equiv (m_succ c d g q) (q_succ1 q)
                      | None => false end;
           v_ok := negb judged || negb consistent_probe || obs_eqb state_equiv (q_succ1 q) (q_succ0 q);
           v_known := known |} ]) (r_probes c) in
  v_sig :: v_txt :: v_iso :: v_probes.

Definition run (cs : list rcase) : string := t2s (map verdict_char (flat_map judge cs)).

(* debugging aid for replay files *)
Definition explain (c : rcase) :=
  let md := model_dom c in
  let m := r_map c :: r_more c in
  (match md with
   | Ok d => match dget (d_actions d) (r_action c) with
             | Some a => Some (match model_cs_seq m a with Ok x => Some (ma_sig x) | Err _ => None end,
                               match model_action_of_text c d (r_print0 c) with
                               | Ok a0 => match model_cs_seq m a0 with Ok x => Some x | Err _ => None end | Err _ => None end,
                               match r_print1 c with
                               | Returned t1 => match model_action_of_text c d t1 with Ok a1 => Some a1 | Err _ => None end
                               | Raised => None end,
                               map (fun q => let g := do x <- model_cs_seq m a; ground_action d x (q_args q) in
                                             (m_app c d g q, m_succ c d g q))
                                   (r_probes c))
             | None => None end
   | Err _ => None end,
   match spec_dom c with
   | Some d => match find_action d (r_action c) with
               | Some a => Some (admissible_seqb (map fst (sd_consts d)) m a,
                                 a_params (ren_all m a),
                                 match spec_action_of_text c (r_print0 c) with
                                 | Some a0 => Some (ren_all m a0) | None => None end,
                                 match r_print1 c with
                                 | Returned t1 => spec_action_of_text c t1 | Raised => None end)
               | None => None end
   | None => None end).
