(* Correspondence for C02, exhaustive small scope: one domain text holding one action per formula, a tiny universe,
   and for every (action, argument tuple) a truth table over all assignments to the ground atoms / fluents the
   formula's vocabulary mentions (the remaining atoms and fluents keep a random base value).
   The states are NOT sent one by one: both sides enumerate them from the same code (n = 0 .. 2^k * B^m - 1). *)
From Coq Require Import List Ascii String Bool Arith NArith PrimFloat.
From Verif Require Import Base.Result Base.Str Base.Sexp Base.PyDict Model.Types Model.Domain Model.Exec Model.KeyedState
  Spec.Pddl Spec.Grammar Spec.Subst Spec.EraseForall Corr.Common Corr.Core.
Import ListNotations.
Open Scope string_scope.
Open Scope list_scope.

Record row := {
  r_action : string;
  r_args : list string;
  r_base_facts : N;                 (* bit i set: atom i of the universe holds (relevant positions are 0 here) *)
  r_base_fl : N;                    (* digit j (base |grid|): index of fluent j's value *)
  r_rel_atoms : list nat;           (* positions enumerated exhaustively *)
  r_rel_fl : list nat;
  r_ans : string                    (* one character per state: T / F returned, E raised *)
}.

Record scase := {
  sc_world : world;                 (* text, numerals, eps, objects; no probes *)
  sc_noobj : bool;                  (* wave 3: the Operators were built with problem_objects=None (no object table at all) *)
  sc_atoms : list atom;
  sc_fluents : list atom;
  sc_grid : list float;
  sc_rows : list row
}.

Fixpoint rel_mask (rel : list nat) (n : N) (t : nat) : N :=
  match rel with
  | [] => 0%N
  | i :: r => ((if N.testbit n (N.of_nat t) then N.shiftl 1 (N.of_nat i) else 0) + rel_mask r n (S t))%N
  end.

Fixpoint facts_of (atoms : list atom) (m : N) : list atom :=
  match atoms with
  | [] => []
  | a :: r => (if N.odd m then [a] else []) ++ facts_of r (N.div2 m)
  end.

Definition digit (B c : N) (t : nat) : N := ((c / B ^ (N.of_nat t)) mod B)%N.

Fixpoint index_of (j : nat) (l : list nat) (t : nat) : option nat :=
  match l with
  | [] => None
  | x :: r => if Nat.eqb x j then Some t else index_of j r (S t)
  end.

Definition fluents_of (fl : list atom) (grid : list float) (base_code rel_code : N) (rel : list nat)
  : list (atom * float) :=
  let B := N.of_nat (List.length grid) in
  map (fun ja : nat * atom =>
         let d := match index_of (fst ja) rel 0 with
                  | Some t => digit B rel_code t
                  | None => digit B base_code (fst ja)
                  end in
         (snd ja, nth (N.to_nat d) grid 0%float))
      (combine (seq 0 (List.length fl)) fl).

Definition state_of (c : scase) (r : row) (n : N) : state :=
  let k := N.of_nat (List.length (r_rel_atoms r)) in
  {| facts := facts_of (sc_atoms c) (r_base_facts r + rel_mask (r_rel_atoms r) n 0)%N;
     fluents := fluents_of (sc_fluents c) (sc_grid c) (r_base_fl r) (N.shiftr n k) (r_rel_fl r) |}.

Definition ans_obs (ch : ascii) : obs bool :=
  if Ascii.eqb ch "T" then Returned true else if Ascii.eqb ch "F" then Returned false else Raised.

Definition mk_probe (r : row) (st : state) (o : obs bool) : probe :=
  {| p_action := r_action r; p_args := r_args r; p_state := st; p_app := o; p_order := []; p_uorder := [];
     p_succ := Raised |}.

(* the spec's answer: the truth value of the instantiated precondition -- and NO value exactly when some division
   in some instance has a zero denominator (Spec.Subst.fdiv0), where the library raises ZeroDivisionError *)
Definition spec_answer (w : world) (d : sdomain) (p : probe) : option (obs bool) :=
  match find_action d (p_action p) with
  | Some a =>
      if fdiv0 (spec_tt d) (s_objs w d) (bind_args a (p_args p)) (p_state p) (a_pre a) then Some Raised
      else Some (Returned (applicable (w_eps w) (spec_tt d) (s_objs w d) a (p_args p) (p_state p)))
  | None => None
  end.

(* ---------- wave 3: an Operator built WITHOUT an object table (problem_objects=None; not the same input as the empty table {}) ----------
   The library's contract there (pddl_operator.py / grounded_precondition.py: "Did not receive the problem objects so cannot validate
   the universal preconditions"): a universal condition counts as true, everything else is evaluated as usual.  Stated on the spec's
   own formulas: the precondition with every forall replaced by the empty conjunction (Spec.EraseForall.erase_forall; theorem
   C02_applicable_noobj: that is what the model computes). *)
Definition model_app_none (w : world) (d : mdomain) (p : probe) : obs bool :=
  obs_of_result
    (match dget (d_actions d) (p_action p) with
     | None => Err EKey
     | Some a => do ga <- ground_action d a (p_args p);
                 is_applicable d (w_eps w) None ga (p_state p)
     end).

Definition spec_answer_none (w : world) (d : sdomain) (p : probe) : option (obs bool) :=
  match find_action d (p_action p) with
  | Some a =>
      let phi := erase_forall (a_pre a) in
      if fdiv0 (spec_tt d) [] (bind_args a (p_args p)) (p_state p) phi then Some Raised
      else Some (Returned (holds (w_eps w) (spec_tt d) [] (bind_args a (p_args p)) (p_state p) phi))
  | None => None
  end.

Definition judge_probe (noobj : bool) (w : world) (md : result mdomain) (sd : option sdomain) (p : probe) : verdict :=
  let m_app := match md with Ok d => if noobj then model_app_none w d p else model_app w d p | Err _ => Raised end in
  let ok_app :=
    match sd with
    | Some d => match (if noobj then spec_answer_none w d p else spec_answer w d p) with
                | Some o => obs_eqb Bool.eqb o (p_app p)
                | None => obs_raised (p_app p) end
    | None => obs_raised (p_app p)
    end in
  {| v_agree := obs_eqb Bool.eqb m_app (p_app p); v_ok := ok_app; v_known := false |}.

Fixpoint judge_row_aux (c : scase) (md : result mdomain) (sd : option sdomain) (r : row) (ans : list ascii) (n : N)
  : list verdict :=
  match ans with
  | [] => []
  | ch :: rest =>
      judge_probe (sc_noobj c) (sc_world c) md sd (mk_probe r (state_of c r n) (ans_obs ch))
      :: judge_row_aux c md sd r rest (n + 1)%N
  end.

Definition judge_scase (c : scase) : list verdict :=
  let md := model_domain (sc_world c) in
  let sd := spec_domain (sc_world c) in
  flat_map (fun r => judge_row_aux c md sd r (s2t (r_ans r)) 0%N) (sc_rows c).

Definition run (cs : list scase) : string := t2s (map verdict_char (flat_map judge_scase cs)).

(* counts of true / false / no-value answers of the SPEC over the enumerated probes (reported as evidence) *)
Definition explain (c : scase) :=
  let md := model_domain (sc_world c) in
  let sd := spec_domain (sc_world c) in
  map (fun r => (r_action r, r_args r,
                 map (fun n => let p := mk_probe r (state_of c r (N.of_nat n)) Raised in
                               (p_state p,
                                match md with Ok d => if sc_noobj c then model_app_none (sc_world c) d p else model_app (sc_world c) d p
                                            | Err _ => Raised end,
                                match sd with Some d => if sc_noobj c then spec_answer_none (sc_world c) d p else spec_answer (sc_world c) d p
                                            | None => None end))
                     (seq 0 (String.length (r_ans r)))))
      (sc_rows c).

(* ---------- round 3: worlds with functions of arity >= 3 (finding D07 as it shows in C02) ----------
   The model side evaluates Model.Exec.is_applicable on the library's VIEW of the state (Model.KeyedState.code_state: every
   fluent has the value stored last under its name-keyed text); the spec side judges on the state as written.
   Known class, decided on the input: the instantiated precondition reads a fluent application of arity >= 3 whose
   arguments repeat a name (inside a quantifier: any application of arity >= 3). *)
Fixpoint nexp_collides (sg : env) (under : bool) (n : nexp) : bool :=
  match n with
  | NNum _ => false
  | NFl _ args => Nat.leb 3 (List.length args) && (under || repeats (map (subst sg) args))
  | NBin _ a b => nexp_collides sg under a || nexp_collides sg under b
  end.
Fixpoint form_collides (sg : env) (under : bool) (f : form) : bool :=
  match f with
  | FCmp _ l r => nexp_collides sg under l || nexp_collides sg under r
  | FAnd l | FOr l => existsb (form_collides sg under) l
  | FForall v _ b => form_collides (unbind v sg) true b
  | _ => false
  end.

Definition keyed_probe (p : probe) : probe :=
  {| p_action := p_action p; p_args := p_args p; p_state := code_state (p_state p); p_app := p_app p;
     p_order := p_order p; p_uorder := p_uorder p; p_succ := p_succ p |}.

Definition keyed_probe_verdicts (w : world) (md : result mdomain) (sd : option sdomain) (p : probe) : list verdict :=
  let m_app := match md with Ok d => model_app w d (keyed_probe p) | Err _ => Raised end in
  let ok_app :=
    match sd with
    | Some d => match spec_answer w d p with
                | Some o => obs_eqb Bool.eqb o (p_app p)
                | None => obs_raised (p_app p) end
    | None => obs_raised (p_app p)
    end in
  let known :=
    match sd with
    | Some d => match find_action d (p_action p) with
                | Some a => form_collides (bind_args a (p_args p)) false (a_pre a)
                | None => false end
    | None => false
    end in
  [ {| v_agree := obs_eqb Bool.eqb m_app (p_app p); v_ok := ok_app; v_known := known |};
    {| v_agree := true; v_ok := true; v_known := false |} ].          (* the successor is C03's; keeps the unit layout of judge_world *)

Definition judge_keyed_world (w : world) : list verdict :=
  match w_parsed w with
  | Raised => [world_verdict w]
  | Returned _ =>
      let md := model_domain w in
      let sd := spec_domain w in
      world_verdict w :: flat_map (keyed_probe_verdicts w md sd) (w_probes w)
  end.

Definition explain_keyed (w : world) :=
  map (fun p => (p_action p, p_args p, code_state (p_state p),
                 match model_domain w with Ok d => model_app w d (keyed_probe p) | Err _ => Raised end,
                 match spec_domain w with Some d => spec_answer w d p | None => None end))
      (w_probes w).

(* ---------- wave 3: worlds judged for C02 -- the domain is read ONCE per world (Corr.Core.probe_verdicts reads it again for every
   probe and also computes the successor, which is C03's subject and is not looked at by this check); the unit layout of
   Corr.Core.judge_world is kept: one verdict for the world, then (applicability, placeholder) per probe.
   [noobj]: the probes were answered by Operators built with problem_objects=None. ---------- *)
Definition placeholder : verdict := {| v_agree := true; v_ok := true; v_known := false |}.

Definition judge_world_app (noobj : bool) (w : world) : list verdict :=
  match w_parsed w with
  | Raised => [world_verdict w]
  | Returned _ =>
      let md := model_domain w in
      let sd := spec_domain w in
      world_verdict w :: flat_map (fun p => [judge_probe noobj w md sd p; placeholder]) (w_probes w)
  end.

Definition judge_noobj_world (w : world) : list verdict := judge_world_app true w.

Definition explain_noobj (w : world) :=
  map (fun p => (p_action p, p_args p,
                 match model_domain w with Ok d => model_app_none w d p | Err _ => Raised end,
                 match spec_domain w with Some d => spec_answer_none w d p | None => None end))
      (w_probes w).

(* one shard may mix generated worlds (Corr.Core), keyed worlds, worlds without an object table and scope cases *)
Inductive anycase := AW (w : world) | AS (c : scase) | AK (w : world) | AN (w : world).
Definition run_any (l : list anycase) : string :=
  t2s (map verdict_char (flat_map (fun a => match a with
                                            | AW w => judge_world_app false w
                                            | AS c => judge_scase c
                                            | AK w => judge_keyed_world w
                                            | AN w => judge_noobj_world w
                                            end) l)).
Definition explain_any (a : anycase) :=
  match a with
  | AW w => (Some (Core.explain w), None, None, None)
  | AS c => (None, Some (explain c), None, None)
  | AK w => (None, None, Some (explain_keyed w), None)
  | AN w => (None, None, None, Some (explain_noobj w))
  end.
