(* Correspondence for C01: a world of Corr.Core plus the name of the action that carries the planted construct.
   The property's rule for text outside the supported fragment is "faithful or exception": on the probes of the
   affected action an exception of the implementation is an acceptable answer even where the independent reading
   can read the text (it reads '(not (zz ?x))' over an undeclared zz, the library raises KeyError at grounding).
   A refusal that comes from a silently altered precondition is still caught: then the applicability unit of the
   same probe returned a value that differs from the reading's. *)
From Coq Require Import List Ascii String Bool Arith PrimFloat.
From Verif Require Import Base.Result Base.Str Base.Sexp Spec.Pddl Spec.Fragment Corr.Common Corr.Core.
Import ListNotations.
Open Scope string_scope.
Open Scope list_scope.

Record cworld := {
  cw : world;
  cw_action : string            (* the affected action of an out-of-fragment world; "" = the whole domain / none *)
}.

Definition relaxed (c : cworld) (p : probe) : bool :=
  w_oof (cw c) && (String.eqb (cw_action c) "" || String.eqb (cw_action c) (p_action p)).

Definition probe_verdicts_c01 (c : cworld) (p : probe) : list verdict :=
  match probe_verdicts (cw c) p with
  | [va; vs] =>
      if relaxed c p then
        [ {| v_agree := v_agree va; v_ok := v_ok va || obs_raised (p_app p); v_known := v_known va |};
          {| v_agree := v_agree vs; v_ok := v_ok vs || obs_raised (p_succ p);
             v_known := v_known vs |} ]
      else [va; vs]
  | l => l
  end.

(* the text is a domain of the supported fragment G (Spec/Fragment.v): then the library must accept it
   (C01_supported_accepted on the implementation's side) *)
Definition in_G (c : cworld) : bool :=
  match world_sexp (cw c) with Ok e => G (numtab (cw c)) e | Err _ => false end.

Definition world_verdict_c01 (c : cworld) : verdict :=
  let v := world_verdict (cw c) in
  {| v_agree := v_agree v;
     v_ok := v_ok v && (negb (in_G c) || negb (obs_raised (w_parsed (cw c))));
     v_known := v_known v |}.

Definition judge (c : cworld) : list verdict :=
  match w_parsed (cw c) with
  | Raised => [world_verdict_c01 c]
  | Returned _ => world_verdict_c01 c :: flat_map (probe_verdicts_c01 c) (w_probes (cw c))
  end.

(* how many of the worlds are in G (reported in the evidence) *)
Definition count_in_G (cs : list cworld) : nat := List.length (filter in_G cs).

Definition run (cs : list cworld) : string := t2s (map verdict_char (flat_map judge cs)).

Definition explain (c : cworld) := Corr.Core.explain (cw c).
