(* Correspondence for C03: worlds (one domain text + probes) as in Corr.Core, with more observables per probe:
   - the order in which the harness arranged the implementation's effect groups / universal effects (the model is run
     in THAT order: every forced permutation is also an evaluation of the model's order-independence theorem);
   - whether the refusal was a ValueError;
   - the forced successor (allow_inapplicable_actions=True);
   - the denotation used by the theorems (Proofs.C03_Defs.denote_effs of the model's action) is compared with the
     independent reading of the same text (Spec.Grammar) through the successor it yields.
   A compact form (states as indices into a table) carries the exhaustive small scope.
   Round 3: call SEQUENCES on one Operator object (seq3): the same Operator applied k times along a chain
   s0 -> s1 -> s2 ..., and to several unrelated states in turn; every returned state is compared with the model's
   apply_op on the MODEL's previous state and with the spec successor of the SPEC's previous state (the model and the
   spec are functions of the state: an Operator object that remembers anything between two calls disagrees), and the
   returned State objects are read a second time after the last call of the sequence. *)
From Coq Require Import List Ascii String Bool Arith PrimFloat.
From Verif Require Import Base.Result Base.Str Base.Sexp Base.PyDict Base.Float
  Model.Tokenizer Model.Types Model.Domain Model.Exec Spec.Pddl Spec.Grammar Corr.Common Corr.Core Proofs.C03_Defs Proofs.C03_Weak Proofs.C03_NoTable.
Import ListNotations.
Open Scope string_scope.
Open Scope list_scope.

Record probe3 := {
  q_action : string;
  q_args : list string;
  q_state : state;
  q_obs_order : bool;               (* the harness could observe the visiting order *)
  q_order : list nat;               (* 0 = the unconditional group, i = the i-th 'when' in the text *)
  q_uorder : list nat;
  q_app : obs bool;
  q_succ : obs state;               (* Operator.apply(state) *)
  q_valerr : bool;                  (* ... raised ValueError *)
  q_forced : obs state              (* Operator.apply(state, allow_inapplicable_actions=True), same order *)
}.

(* ---------- call sequences on one Operator object ---------- *)
(* the state handed to the next call: what the previous call of the sequence returned (the state that call was given
   when it raised; the start state for the first call), or a fresh state *)
Inductive ssrc := SPrev | SFrom (s : state).

Record sstep := {
  ss_src : ssrc;
  ss_allow : bool;                  (* allow_inapplicable_actions *)
  ss_succ : obs state;              (* what the call returned, read back at once *)
  ss_valerr : bool;                 (* ... it raised ValueError *)
  ss_late : option (obs state)      (* the returned State object read back again after the LAST call of the sequence;
                                       None = the same facts and values as at once *)
}.

Record seq3 := {
  sq_action : string;
  sq_args : list string;
  sq_start : state;
  sq_obs_order : bool;
  sq_order : list nat;
  sq_uorder : list nat;
  sq_steps : list sstep
}.

Record world3 := {
  v_text : string;
  v_nums : list (string * float);
  v_eps : float;
  v_objs : objects;
  v_noobjs : bool;                  (* the Operator objects were built WITHOUT an object table (problem_objects=None) *)
  v_probes : list probe3;
  v_seqs : list seq3
}.

Definition core_world (w : world3) : world :=
  {| w_text := v_text w; w_nums := v_nums w; w_eps := v_eps w; w_objs := v_objs w; w_oof := false;
     w_parsed := Raised; w_probes := [] |}.

(* the table the Operator ranges over: None when it was built without the problem's objects; otherwise the constants, then the
   problem's objects - also when the problem has NO objects (an empty dict is not None: the constants are still ranged over) *)
Definition model_objs (w : world3) (d : mdomain) : option objects :=
  if v_noobjs w then None else Some (quantification_objects d (v_objs w)).

Definition run_model_at (w : world3) (d : mdomain) (action : string) (args : list string) (order uorder : list nat)
           (s : state) (allow : bool) : result state :=
  match dget (d_actions d) action with
  | None => Err EKey
  | Some a => do ga <- ground_action d a args;
              apply_op d (v_eps w) ga (model_objs w d) allow false order uorder s
  end.

(* ----- an Operator built with problem_objects=None.  The library then has nothing to range over: it logs a warning, reads every
   quantified condition as true and applies no universal effect.  What such a call must return is the PDDL successor of the
   action WITHOUT its quantified parts: every (forall ...) condition replaced by truth, every forall-when effect dropped
   (written on the spec's syntax, independent of the model). ----- *)
(* strip_form / strip_eff / strip_action: Proofs/C03_NoTable.v, where the oracle is tied to the model (no_table_successor) *)
Definition view_action (w : world3) (A : action) : action := if v_noobjs w then strip_action A else A.

Definition run_model (w : world3) (d : mdomain) (p : probe3) (allow : bool) : result state :=
  run_model_at w d (q_action p) (q_args p) (q_order p) (q_uorder p) (q_state p) allow.

Definition is_evalue {A} (r : result A) : bool := match r with Err EValue => true | _ => false end.

(* the class of the repaired finding D40: some condition of a 'when' / 'forall-when' of the action contains a quantifier *)
Definition d40_class (a : action) : bool := negb (forallb eff_when_qfree (a_effs a)).

(* ----- inconsistent firing groups.  PDDL does not define the state then (it may depend on the visiting order), and the
   property does not speak about such calls.  The check still asks more than "no exception": whatever is returned must be
   what the firing effects give when they are taken in SOME order -
     an atom that some group adds and no OTHER group deletes is present (inside one group the delete comes first);
     an atom that is only deleted is absent; an atom added by one group and deleted by another may be either;
     a fluent that firing effects set holds ONE of the values they computed in the pre-state;
     every other fact and fluent is unchanged (the frame);
   and, when the harness observed the visiting order, the model run in that order must give exactly the returned state
   (unless two effects of ONE group set the same fluent: the order inside a group's set is not observed). ----- *)
(* pure_dels, set_values, weak_succ_ok: Proofs/C03_Weak.v, where the oracle is proved sound (weak_succ_sound: the outcome of the
   firing groups taken one after another in ANY order passes it) *)
Definition weak_obs_ok (s : state) (groups : list (list gprim)) (o : obs state) : bool :=
  match o with Returned s' => weak_succ_ok s groups s' | Raised => false end.

Definition judge_probe (w : world3) (md : mdomain) (sd : sdomain) (p : probe3) : list verdict :=
  let eps := v_eps w in
  let tt := spec_tt sd in
  let objs := dupdate (sd_consts sd) (v_objs w) in   (* constants + objects: what quantifiers range over *)
  match find_action sd (q_action p), dget (d_actions md) (q_action p) with
  | Some A0, Some a =>
      let A := view_action w A0 in
      let groups := all_groups eps tt objs A (q_args p) (q_state p) in
      let cons := consistent groups in
      let succ_spec := successor eps tt objs A (q_args p) (q_state p) in
      let app := applicable eps tt objs A (q_args p) (q_state p) in
      (* the denotation of the model's effects against the independent reading *)
      let den_ok :=
        match denote_effs a with
        | Some effs =>
            let A' := view_action w (spec_action a effs) in
            Bool.eqb (consistent (all_groups eps tt objs A' (q_args p) (q_state p))) cons &&
            (negb cons || state_equiv (successor eps tt objs A' (q_args p) (q_state p)) succ_spec)
        | None => false
        end in
      let m_succ := run_model w md p false in
      let m_forced := run_model w md p true in
      let known := false in          (* no open finding class (D40 repaired: its class is part of the ordinary cases) *)
      (* where the firing effects are inconsistent the property is silent about the state (it may depend on the
         visiting order): only "returned / raised" is compared there *)
      let exact := cons || (q_obs_order p && inner_determined groups) in
      [ {| v_agree := den_ok && Bool.eqb (is_evalue m_succ) (q_valerr p) &&
                      (if exact then obs_eqb state_equiv (obs_of_result m_succ) (q_succ p)
                       else Bool.eqb (is_ok m_succ) (negb (obs_raised (q_succ p))));
           v_ok := if app then (if cons then obs_eqb state_equiv (Returned succ_spec) (q_succ p)
                                else weak_obs_ok (q_state p) groups (q_succ p))
                   else obs_raised (q_succ p) && q_valerr p;
           v_known := known |};
        {| v_agree := if exact then obs_eqb state_equiv (obs_of_result m_forced) (q_forced p)
                      else Bool.eqb (is_ok m_forced) (negb (obs_raised (q_forced p)));
           v_ok := if cons then obs_eqb state_equiv (Returned succ_spec) (q_forced p)
                   else weak_obs_ok (q_state p) groups (q_forced p);
           v_known := known |} ]
  | _, _ =>
      (* the action is unknown to one reading: the implementation must have raised *)
      [ {| v_agree := obs_raised (q_succ p); v_ok := obs_raised (q_succ p); v_known := false |};
        {| v_agree := obs_raised (q_forced p); v_ok := obs_raised (q_forced p); v_known := false |} ]
  end.

Definition broken : verdict := {| v_agree := false; v_ok := true; v_known := false |}.

(* ----- sequences: the model's chain and the spec's chain run side by side ----- *)
Definition late_ok (expected : obs state) (l : option (obs state)) : bool :=
  match l with None => true | Some o => obs_eqb state_equiv expected o end.

Record step_view := {
  sv_model : obs state; sv_app : bool; sv_cons : bool; sv_exact : bool; sv_spec : state;
  sv_agree : bool; sv_ok : bool;                 (* the state read back at once *)
  sv_late_agree : bool; sv_late_ok : bool        (* the same State object read back after the last call *)
}.

Section Seq.
  Variables (w : world3) (md : mdomain) (sd : sdomain) (A : action) (q : seq3).
  Let eps := v_eps w.
  Let tt := spec_tt sd.
  Let objs := dupdate (sd_consts sd) (v_objs w).

  (* one call: (what the model / the spec say, the model's and the spec's next "previous state") *)
  Definition seq_step (m_cur s_cur : state) (st : sstep) : step_view * state * state :=
    let m_in := match ss_src st with SPrev => m_cur | SFrom s => s end in
    let s_in := match ss_src st with SPrev => s_cur | SFrom s => s end in
    let m_res := run_model_at w md (sq_action q) (sq_args q) (sq_order q) (sq_uorder q) m_in (ss_allow st) in
    let groups_m := all_groups eps tt objs A (sq_args q) m_in in
    let groups_s := all_groups eps tt objs A (sq_args q) s_in in
    let cons_m := consistent groups_m in
    let cons_s := consistent groups_s in
    let exact := cons_m || (sq_obs_order q && inner_determined groups_m) in
    let app := applicable eps tt objs A (sq_args q) s_in in
    let nxt := successor eps tt objs A (sq_args q) s_in in
    let agree :=
      Bool.eqb (is_evalue m_res) (ss_valerr st) &&
      (if exact then obs_eqb state_equiv (obs_of_result m_res) (ss_succ st)
       else Bool.eqb (is_ok m_res) (negb (obs_raised (ss_succ st)))) in
    let ok :=
      if app || ss_allow st then
        (if cons_s then obs_eqb state_equiv (Returned nxt) (ss_succ st) else weak_obs_ok s_in groups_s (ss_succ st))
      else obs_raised (ss_succ st) && ss_valerr st in
    let late_agree := negb exact || late_ok (obs_of_result m_res) (ss_late st) in
    let late_okb := negb (app || ss_allow st) || negb cons_s || late_ok (Returned nxt) (ss_late st) in
    (* where the firing effects are inconsistent PDDL does not define the state: both chains go on from the state
       the implementation returned *)
    let observed (dflt : state) := match ss_succ st with Returned x => x | Raised => dflt end in
    let m_next := if cons_m then match m_res with Ok s' => s' | Err _ => m_in end else observed m_in in
    let s_next := if app || ss_allow st then (if cons_s then nxt else observed s_in) else s_in in
    ({| sv_model := obs_of_result m_res; sv_app := app; sv_cons := cons_s; sv_exact := exact; sv_spec := nxt; sv_agree := agree; sv_ok := ok;
        sv_late_agree := late_agree; sv_late_ok := late_okb |},
     m_next, s_next).

  Fixpoint seq_views (m_cur s_cur : state) (steps : list sstep) : list step_view :=
    match steps with
    | [] => []
    | st :: r => let '(v, m', s') := seq_step m_cur s_cur st in v :: seq_views m' s' r
    end.
End Seq.

(* two verdicts per sequence: the states as read back at once; the same State objects read back after the last call *)
Definition judge_seq (w : world3) (md : mdomain) (sd : sdomain) (q : seq3) : list verdict :=
  match find_action sd (sq_action q), dget (d_actions md) (sq_action q) with
  | Some A0, Some _ =>
      let vs := seq_views w md sd (view_action w A0) q (sq_start q) (sq_start q) (sq_steps q) in
      [ {| v_agree := forallb sv_agree vs; v_ok := forallb sv_ok vs; v_known := false |};
        {| v_agree := forallb sv_late_agree vs; v_ok := forallb sv_late_ok vs; v_known := false |} ]
  | _, _ =>
      let r := forallb (fun st => obs_raised (ss_succ st)) (sq_steps q) in
      [ {| v_agree := r; v_ok := r; v_known := false |}; {| v_agree := true; v_ok := true; v_known := false |} ]
  end.

Definition judge_world3 (w : world3) : list verdict :=
  match model_domain (core_world w), spec_domain (core_world w) with
  | Ok md, Some sd => flat_map (judge_probe w md sd) (v_probes w) ++ flat_map (judge_seq w md sd) (v_seqs w)
  | _, _ => flat_map (fun _ => [broken; broken]) (v_probes w) ++ flat_map (fun _ => [broken; broken]) (v_seqs w)
                                                                   (* the implementation parsed it, a reading did not *)
  end.

(* ---------- compact worlds: the exhaustive small scope ---------- *)
Definition cstate := (list nat * list float)%type.     (* indices into the atom table; one value per fluent key *)

Record xprobe := {
  xp_call : nat;
  xp_state : nat;
  xp_obs_order : bool;
  xp_order : list nat;
  xp_uorder : list nat;
  xp_app : obs bool;
  xp_succ : obs cstate;
  xp_valerr : bool;
  xp_forced : obs cstate
}.

Record xstep := {
  xt_src : option nat;              (* None = the state the previous call returned; Some j = a fresh copy of state j *)
  xt_allow : bool;
  xt_succ : obs cstate;
  xt_valerr : bool;
  xt_late : option (obs cstate)
}.

Record xseq := {
  xq_call : nat;
  xq_start : nat;
  xq_obs_order : bool;
  xq_order : list nat;
  xq_uorder : list nat;
  xq_steps : list xstep
}.

Record xworld := {
  x_text : string;
  x_nums : list (string * float);
  x_eps : float;
  x_objs : objects;
  x_noobjs : bool;
  x_atoms : list atom;
  x_fkeys : list atom;
  x_states : list cstate;
  x_calls : list (string * list string);
  x_probes : list xprobe;
  x_seqs : list xseq
}.

Definition decode_state (w : xworld) (c : cstate) : state :=
  {| facts := flat_map (fun i => match nth_error (x_atoms w) i with Some a => [a] | None => [] end) (fst c);
     fluents := combine (x_fkeys w) (snd c) |}.

Definition decode_obs (w : xworld) (o : obs cstate) : obs state :=
  match o with Returned c => Returned (decode_state w c) | Raised => Raised end.

Definition decode_probe (w : xworld) (p : xprobe) : probe3 :=
  let call := nth (xp_call p) (x_calls w) ("", []) in
  {| q_action := fst call; q_args := snd call;
     q_state := decode_state w (nth (xp_state p) (x_states w) ([], []));
     q_obs_order := xp_obs_order p; q_order := xp_order p; q_uorder := xp_uorder p;
     q_app := xp_app p; q_succ := decode_obs w (xp_succ p); q_valerr := xp_valerr p;
     q_forced := decode_obs w (xp_forced p) |}.

Definition decode_step (w : xworld) (t : xstep) : sstep :=
  {| ss_src := match xt_src t with None => SPrev | Some j => SFrom (decode_state w (nth j (x_states w) ([], []))) end;
     ss_allow := xt_allow t; ss_succ := decode_obs w (xt_succ t); ss_valerr := xt_valerr t;
     ss_late := match xt_late t with None => None | Some o => Some (decode_obs w o) end |}.

Definition decode_seq (w : xworld) (q : xseq) : seq3 :=
  let call := nth (xq_call q) (x_calls w) ("", []) in
  {| sq_action := fst call; sq_args := snd call;
     sq_start := decode_state w (nth (xq_start q) (x_states w) ([], []));
     sq_obs_order := xq_obs_order q; sq_order := xq_order q; sq_uorder := xq_uorder q;
     sq_steps := map (decode_step w) (xq_steps q) |}.

Definition decode_world (w : xworld) : world3 :=
  {| v_text := x_text w; v_nums := x_nums w; v_eps := x_eps w; v_objs := x_objs w; v_noobjs := x_noobjs w;
     v_probes := map (decode_probe w) (x_probes w); v_seqs := map (decode_seq w) (x_seqs w) |}.

Inductive anyworld := WFull (w : world3) | WCompact (w : xworld).

Definition judge_any (w : anyworld) : list verdict :=
  match w with WFull v => judge_world3 v | WCompact x => judge_world3 (decode_world x) end.

Definition run (ws : list anyworld) : string := t2s (map verdict_char (flat_map judge_any ws)).

(* how each unit was judged (for the input-distribution table of the evidence): c = firing effects consistent, judged by the
   spec successor; I = inconsistent, judged by the frame/membership oracle and compared EXACTLY with the model (order
   observed); i = inconsistent, frame/membership oracle only; r = refused call (an error expected); ? = no reading *)
Definition tag_of (cons exact : bool) : ascii := if cons then "c"%char else if exact then "I"%char else "i"%char.

Definition tags_probe (w : world3) (sd : sdomain) (p : probe3) : list ascii :=
  match find_action sd (q_action p) with
  | Some A0 =>
      let A := view_action w A0 in
      let objs := dupdate (sd_consts sd) (v_objs w) in
      let groups := all_groups (v_eps w) (spec_tt sd) objs A (q_args p) (q_state p) in
      let t := tag_of (consistent groups) (q_obs_order p && inner_determined groups) in
      [ if applicable (v_eps w) (spec_tt sd) objs A (q_args p) (q_state p) then t else "r"%char; t ]
  | None => ["?"%char; "?"%char]
  end.

Definition tags_seq (w : world3) (md : mdomain) (sd : sdomain) (q : seq3) : list ascii :=
  match find_action sd (sq_action q) with
  | Some A0 =>
      let vs := seq_views w md sd (view_action w A0) q (sq_start q) (sq_start q) (sq_steps q) in
      (* I: every call with inconsistent firing groups was also compared exactly with the model (visiting order observed) *)
      let t := if forallb sv_cons vs then "c"%char
               else if forallb (fun v => sv_cons v || sv_exact v) vs then "I"%char else "i"%char in [t; t]
  | None => ["?"%char; "?"%char]
  end.

Definition tags_any (a : anyworld) : list ascii :=
  let w := match a with WFull v => v | WCompact x => decode_world x end in
  match model_domain (core_world w), spec_domain (core_world w) with
  | Ok md, Some sd => flat_map (tags_probe w sd) (v_probes w) ++ flat_map (tags_seq w md sd) (v_seqs w)
  | _, _ => flat_map (fun _ => ["?"%char; "?"%char]) (v_probes w) ++ flat_map (fun _ => ["?"%char; "?"%char]) (v_seqs w)
  end.

(* two characters per unit: the verdict, then the tag *)
Fixpoint interleave (a b : list ascii) : list ascii :=
  match a, b with
  | x :: r, y :: t => x :: y :: interleave r t
  | _, _ => []
  end.
Definition run2 (ws : list anyworld) : string :=
  t2s (flat_map (fun a => interleave (map verdict_char (judge_any a)) (tags_any a)) ws).

(* debugging aid for replay files: what the model and the spec say for every probe of a world *)
Definition explain (w : anyworld) :=
  let v := match w with WFull v => v | WCompact x => decode_world x end in
  match model_domain (core_world v), spec_domain (core_world v) with
  | Ok md, Some sd =>
      map (fun p =>
             (q_action p, q_args p, q_order p, q_uorder p,
              obs_of_result (run_model v md p false), obs_of_result (run_model v md p true),
              match option_map (view_action v) (find_action sd (q_action p)) with
              | Some A => Some (applicable (v_eps v) (spec_tt sd) (dupdate (sd_consts sd) (v_objs v)) A (q_args p) (q_state p),
                                consistent (all_groups (v_eps v) (spec_tt sd) (dupdate (sd_consts sd) (v_objs v)) A (q_args p) (q_state p)),
                                successor (v_eps v) (spec_tt sd) (dupdate (sd_consts sd) (v_objs v)) A (q_args p) (q_state p), d40_class A)
              | None => None
              end,
              map verdict_char (judge_probe v md sd p)))
          (v_probes v)
  | _, _ => []
  end.

(* the same for the call sequences of a world: per call what the model returned, whether the spec finds the call
   applicable / its firing effects consistent in the spec's previous state, the spec successor, and the two judgements *)
Definition explain_seqs (w : anyworld) :=
  let v := match w with WFull v => v | WCompact x => decode_world x end in
  match model_domain (core_world v), spec_domain (core_world v) with
  | Ok md, Some sd =>
      map (fun q =>
             (sq_action q, sq_args q, sq_order q, sq_uorder q, sq_start q,
              match option_map (view_action v) (find_action sd (sq_action q)) with
              | Some A => map (fun sv => (sv_model sv, sv_app sv, sv_cons sv, sv_spec sv, (sv_agree sv, sv_ok sv, sv_late_agree sv, sv_late_ok sv)))
                              (seq_views v md sd A q (sq_start q) (sq_start q) (sq_steps q))
              | None => []
              end,
              map verdict_char (judge_seq v md sd q)))
          (v_seqs v)
  | _, _ => []
  end.

Definition explain_all (w : anyworld) := (explain w, explain_seqs w).
