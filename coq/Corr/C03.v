(* Correspondence for C03: worlds (one domain text + probes) as in Corr.Core, with more observables per probe:
   - the order in which the harness arranged the implementation's effect groups / universal effects (the model is run
     in THAT order: every forced permutation is also an evaluation of the model's order-independence theorem);
   - whether the refusal was a ValueError;
   - the forced successor (allow_inapplicable_actions=True);
   - the denotation used by the theorems (Proofs.C03_Defs.denote_effs of the model's action) is compared with the
     independent reading of the same text (Spec.Grammar) through the successor it yields.
   A compact form (states as indices into a table) carries the exhaustive small scope. *)
From Coq Require Import List Ascii String Bool Arith PrimFloat.
From Verif Require Import Base.Result Base.Str Base.Sexp Base.PyDict Base.Float
  Model.Tokenizer Model.Types Model.Domain Model.Exec Spec.Pddl Spec.Grammar Corr.Common Corr.Core Proofs.C03_Defs.
Import ListNotations.
Open Scope string_scope.
Open Scope list_scope.

Record probe3 := {
  q_action : string;
  q_args : list string;
  q_state : state;
  q_obs_order : bool;               (* the harness could observe the visiting order *)
  q_order : list nat;               (* 0 = the unconditional group, i = the i-th 'when' in the text *)
  q_uorder : list nat;
  q_app : obs bool;
  q_succ : obs state;               (* Operator.apply(state) *)
  q_valerr : bool;                  (* ... raised ValueError *)
  q_forced : obs state              (* Operator.apply(state, allow_inapplicable_actions=True), same order *)
}.

Record world3 := {
  v_text : string;
  v_nums : list (string * float);
  v_eps : float;
  v_objs : objects;
  v_probes : list probe3
}.

Definition core_world (w : world3) : world :=
  {| w_text := v_text w; w_nums := v_nums w; w_eps := v_eps w; w_objs := v_objs w; w_oof := false;
     w_parsed := Raised; w_probes := [] |}.

Definition run_model (w : world3) (d : mdomain) (p : probe3) (allow : bool) : result state :=
  match dget (d_actions d) (q_action p) with
  | None => Err EKey
  | Some a => do ga <- ground_action d a (q_args p);
              apply_op d (v_eps w) ga (Some (quantification_objects d (v_objs w))) allow false (q_order p) (q_uorder p) (q_state p)
  end.

Definition is_evalue {A} (r : result A) : bool := match r with Err EValue => true | _ => false end.

(* the class of the repaired finding D40: some condition of a 'when' / 'forall-when' of the action contains a quantifier *)
Definition d40_class (a : action) : bool := negb (forallb eff_when_qfree (a_effs a)).

Definition judge_probe (w : world3) (md : mdomain) (sd : sdomain) (p : probe3) : list verdict :=
  let eps := v_eps w in
  let tt := spec_tt sd in
  let objs := dupdate (sd_consts sd) (v_objs w) in   (* constants + objects: what quantifiers range over *)
  match find_action sd (q_action p), dget (d_actions md) (q_action p) with
  | Some A, Some a =>
      let groups := all_groups eps tt objs A (q_args p) (q_state p) in
      let cons := consistent groups in
      let succ_spec := successor eps tt objs A (q_args p) (q_state p) in
      let app := applicable eps tt objs A (q_args p) (q_state p) in
      (* the denotation of the model's effects against the independent reading *)
      let den_ok :=
        match denote_effs a with
        | Some effs =>
            let A' := spec_action a effs in
            Bool.eqb (consistent (all_groups eps tt objs A' (q_args p) (q_state p))) cons &&
            (negb cons || state_equiv (successor eps tt objs A' (q_args p) (q_state p)) succ_spec)
        | None => false
        end in
      let m_succ := run_model w md p false in
      let m_forced := run_model w md p true in
      let known := false in          (* no open finding class (D40 repaired: its class is part of the ordinary cases) *)
      (* where the firing effects are inconsistent the property is silent about the state (it may depend on the
         visiting order): only "returned / raised" is compared there *)
      [ {| v_agree := den_ok && Bool.eqb (is_evalue m_succ) (q_valerr p) &&
                      (if cons then obs_eqb state_equiv (obs_of_result m_succ) (q_succ p)
                       else Bool.eqb (is_ok m_succ) (negb (obs_raised (q_succ p))));
           v_ok := if app then (if cons then obs_eqb state_equiv (Returned succ_spec) (q_succ p)
                                else negb (obs_raised (q_succ p)))
                   else obs_raised (q_succ p) && q_valerr p;
           v_known := known |};
        {| v_agree := if cons then obs_eqb state_equiv (obs_of_result m_forced) (q_forced p)
                      else Bool.eqb (is_ok m_forced) (negb (obs_raised (q_forced p)));
           v_ok := if cons then obs_eqb state_equiv (Returned succ_spec) (q_forced p) else negb (obs_raised (q_forced p));
           v_known := known |} ]
  | _, _ =>
      (* the action is unknown to one reading: the implementation must have raised *)
      [ {| v_agree := obs_raised (q_succ p); v_ok := obs_raised (q_succ p); v_known := false |};
        {| v_agree := obs_raised (q_forced p); v_ok := obs_raised (q_forced p); v_known := false |} ]
  end.

Definition broken : verdict := {| v_agree := false; v_ok := true; v_known := false |}.

Definition judge_world3 (w : world3) : list verdict :=
  match model_domain (core_world w), spec_domain (core_world w) with
  | Ok md, Some sd => flat_map (judge_probe w md sd) (v_probes w)
  | _, _ => flat_map (fun _ => [broken; broken]) (v_probes w)     (* the implementation parsed it, a reading did not *)
  end.

(* ---------- compact worlds: the exhaustive small scope ---------- *)
Definition cstate := (list nat * list float)%type.     (* indices into the atom table; one value per fluent key *)

Record xprobe := {
  xp_call : nat;
  xp_state : nat;
  xp_obs_order : bool;
  xp_order : list nat;
  xp_uorder : list nat;
  xp_app : obs bool;
  xp_succ : obs cstate;
  xp_valerr : bool;
  xp_forced : obs cstate
}.

Record xworld := {
  x_text : string;
  x_nums : list (string * float);
  x_eps : float;
  x_objs : objects;
  x_atoms : list atom;
  x_fkeys : list atom;
  x_states : list cstate;
  x_calls : list (string * list string);
  x_probes : list xprobe
}.

Definition decode_state (w : xworld) (c : cstate) : state :=
  {| facts := flat_map (fun i => match nth_error (x_atoms w) i with Some a => [a] | None => [] end) (fst c);
     fluents := combine (x_fkeys w) (snd c) |}.

Definition decode_obs (w : xworld) (o : obs cstate) : obs state :=
  match o with Returned c => Returned (decode_state w c) | Raised => Raised end.

Definition decode_probe (w : xworld) (p : xprobe) : probe3 :=
  let call := nth (xp_call p) (x_calls w) ("", []) in
  {| q_action := fst call; q_args := snd call;
     q_state := decode_state w (nth (xp_state p) (x_states w) ([], []));
     q_obs_order := xp_obs_order p; q_order := xp_order p; q_uorder := xp_uorder p;
     q_app := xp_app p; q_succ := decode_obs w (xp_succ p); q_valerr := xp_valerr p;
     q_forced := decode_obs w (xp_forced p) |}.

Definition decode_world (w : xworld) : world3 :=
  {| v_text := x_text w; v_nums := x_nums w; v_eps := x_eps w; v_objs := x_objs w;
     v_probes := map (decode_probe w) (x_probes w) |}.

Inductive anyworld := WFull (w : world3) | WCompact (w : xworld).

Definition judge_any (w : anyworld) : list verdict :=
  match w with WFull v => judge_world3 v | WCompact x => judge_world3 (decode_world x) end.

Definition run (ws : list anyworld) : string := t2s (map verdict_char (flat_map judge_any ws)).

(* debugging aid for replay files: what the model and the spec say for every probe of a world *)
Definition explain (w : anyworld) :=
  let v := match w with WFull v => v | WCompact x => decode_world x end in
  match model_domain (core_world v), spec_domain (core_world v) with
  | Ok md, Some sd =>
      map (fun p =>
             (q_action p, q_args p, q_order p, q_uorder p,
              obs_of_result (run_model v md p false), obs_of_result (run_model v md p true),
              match find_action sd (q_action p) with
              | Some A => Some (applicable (v_eps v) (spec_tt sd) (dupdate (sd_consts sd) (v_objs v)) A (q_args p) (q_state p),
                                consistent (all_groups (v_eps v) (spec_tt sd) (dupdate (sd_consts sd) (v_objs v)) A (q_args p) (q_state p)),
                                successor (v_eps v) (spec_tt sd) (dupdate (sd_consts sd) (v_objs v)) A (q_args p) (q_state p), d40_class A)
              | None => None
              end,
              map verdict_char (judge_probe v md sd p)))
          (v_probes v)
  | _, _ => []
  end.
