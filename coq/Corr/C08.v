(* Correspondence for C08 (domain export / parse round trip).

   One case = one domain text T with what the implementation did with it:
     D0 = parse T, X1 = export D0, D1 = parse X1, X2 = export D1, D2 = parse X2, and for every probe (state, call)
     the applicability / successor computed on D0 and on D1.
   Verdict units per case (in this order; a case whose T the implementation rejects has only the first):
     export   agree: the implementation's text X1, read by the model's tokenizer, is the model's export_domain of
                     the model's parse of T, modulo sibling order inside and/or;
              ok   : the SPEC's reading (Spec.Grammar) of X1 declares the same vocabulary and has the same actions
                     as the spec's reading of T, constants up to the exporter's decimals (Spec.Roundtrip);
     reparse  agree: the model's parse of its own export has the vocabulary the implementation reports for D1;
              ok   : D1 has the vocabulary, name and requirements of D0;
     second   agree: X2 is the model's export of the model's re-parsed domain, modulo sibling order;
              ok   : X2 is X1 modulo sibling order and spelling of numerals (3.00 / 3), D2 has D1's vocabulary;
     wf       agree: the model's parse of T satisfies the hypothesis wf_mdomain of the round-trip theorems
                     (Proofs/C08_Defs.v), i.e. the theorems speak about this domain (except in the recorded class
                     D83); ok: nothing to judge;
     probe i  agree: the model's re-parsed domain answers the probe like D1;
              ok   : D1 answers the probe like D0 (same applicability, same successor when the firing effects
                     are consistent). *)
From Coq Require Import List Ascii String Bool Arith ZArith PrimFloat FloatOps SpecFloat.
From Verif Require Import Base.Result Base.Str Base.Sexp Base.PyDict Base.Float
  Model.Tokenizer Model.Types Model.Domain Model.Exec Model.DomainExporter
  Spec.Pddl Spec.Grammar Spec.Roundtrip Proofs.C08_Defs Corr.Common Corr.Core.
From Verif Require Spec.Layout.
Import ListNotations.
Open Scope string_scope.
Open Scope list_scope.

(* ---------- token trees modulo sibling order ---------- *)
Fixpoint insert_keyed (x : string * sexp) (l : list (string * sexp)) : list (string * sexp) :=
  match l with
  | [] => [x]
  | y :: r => if String.eqb (fst x) (fst y) then l
              else if String.leb (fst x) (fst y) then x :: l else y :: insert_keyed x r
  end.
Definition sort_set (l : list sexp) : list sexp :=
  map snd (fold_right insert_keyed [] (map (fun e => (show_sexp e, e)) l)).

(* siblings whose order carries no meaning: conjuncts / disjuncts / effect members, the sections of the domain and
   the declarations inside (:predicates ...), (:functions ...), (:requirements ...) *)
Definition commutative_head (h : string) : bool :=
  str_in h ["and"; "or"; "define"; ":predicates"; ":functions"; ":requirements"].

Fixpoint canon (e : sexp) : sexp :=
  match e with
  | Atom s => Atom s
  | SList l =>
      let l' := (fix go (l : list sexp) : list sexp := match l with [] => [] | x :: r => canon x :: go r end) l in
      match l' with
      | [Atom "="; Atom a; Atom b] => if String.leb a b then SList l' else SList [Atom "="; Atom b; Atom a]
      | Atom h :: r => if commutative_head h then SList (Atom h :: sort_set r) else SList l'
      | _ => SList l'
      end
  end.

Definition same_tree (a b : sexp) : bool := sexp_eqb (canon a) (canon b).

(* numerals by value: 3.00 and 3 are the same token; the sign of zero is ignored *)
Definition float_key (x : float) : string :=
  match Prim2SF x with
  | S754_zero _ => "#0"
  | S754_infinity s => if s then "#-inf" else "#inf"
  | S754_nan => "#nan"
  | S754_finite s m e => (if s then "#-" else "#") ++ py_int_text (Zpos m) ++ "p" ++ py_int_text e
  end.
Definition num_key (num : string -> option float) (s : string) : string :=
  match num s with Some x => float_key x | None => s end.

(* ---------- cases ---------- *)
Record probe8 := {
  q_action : string; q_args : list string; q_state : state;
  q_app0 : obs bool; q_succ0 : obs state;          (* on D0 *)
  q_app1 : obs bool; q_succ1 : obs state           (* on D1 *)
}.

Record case := {
  c_text : string;                      (* T, escaped *)
  c_nums : list (string * float);       (* float(token) for the numerals of T, X1, X2 *)
  c_eps : float;
  c_dpre : nat; c_deff : nat;           (* DEFAULT_DECIMAL_DIGITS, DEFAULT_DIGITS *)
  c_objs : objects;
  c_vocab0 : obs string; c_meta0 : string;
  c_x1 : obs string;
  c_vocab1 : obs string; c_meta1 : string;
  c_x2 : obs string;
  c_vocab2 : obs string;
  c_probes : list probe8
}.

Definition numtab8 (c : case) : string -> option float := fun s => lookup s (c_nums c).
Definition read_text (t : string) : result sexp := parse MFile (unesc t).
Definition read_obs (o : obs string) : result sexp :=
  match o with Returned t => read_text t | Raised => Err EOther end.

Definition meta_of (m : mdomain) : string := d_name m +++ "|" +++ join " " (d_reqs m).

(* the model's pipeline *)
Definition model0 (c : case) : result mdomain := do e <- read_text (c_text c); parse_domain (numtab8 c) e.
Definition model_x1 (c : case) : result sexp := do m <- model0 c; Ok (export_domain (c_dpre c) (c_deff c) m).
Definition model1 (c : case) : result mdomain := do e <- model_x1 c; parse_domain (numtab8 c) e.
Definition model_x2 (c : case) : result sexp := do m <- model1 c; Ok (export_domain (c_dpre c) (c_deff c) m).

Definition trees_agree (model : result sexp) (impl : obs string) : bool :=
  match model, impl with
  | Ok e, Returned t => match read_text t with Ok x => same_tree x e | Err _ => false end
  | Err _, Raised => true
  | _, _ => false
  end.

(* the spec's reading *)
Definition spec_of (c : case) (r : result sexp) : option sdomain :=
  match r with Ok e => read_domain (numtab8 c) e | Err _ => None end.

Definition spec_same (c : case) : bool :=
  match spec_of c (read_text (c_text c)) with
  | None => true                                   (* T is outside the spec's grammar: judged by the other units *)
  | Some s0 =>
      match spec_of c (read_obs (c_x1 c)) with
      | None => false
      | Some s1 => String.eqb (spec_vocab s0) (spec_vocab s1) && same_actions (c_dpre c) (c_deff c) s0 s1
      end
  end.

Definition obs_str_eqb := obs_eqb String.eqb.

(* an exported text is PDDL text: ONE complete form and nothing after it (the library's own reader ignores whatever
   follows the first form - recorded finding D02 of C11 - so a file that was rewritten without being truncated would
   otherwise pass unnoticed; C11's strict reader Spec.Layout.parse_strict decides) *)
Definition one_form (o : obs string) : bool :=
  match o with
  | Returned t => match Spec.Layout.parse_strict MFile (unesc t) with Ok _ => true | Err _ => false end
  | Raised => false
  end.
Definition returned {A} (o : obs A) : bool := match o with Returned _ => true | Raised => false end.

(* recorded finding D83: a universal precondition with an empty body is printed as nothing *)
Fixpoint vacuous_in_pre (p : mpre) : bool :=
  match p with
  | MPre _ os _ _ =>
      (fix go (l : list mcond) : bool := match l with [] => false | c :: r => vacuous_in_cond c || go r end) os
  end
with vacuous_in_cond (c : mcond) : bool :=
  match c with
  | MNested q => vacuous_in_pre q
  | MUniv _ _ q => vacuous_body q || vacuous_in_pre q
  | _ => false
  end.
Definition vacuous_in_action (a : maction) : bool :=
  vacuous_in_pre (ma_pre a) || existsb (fun ce => vacuous_in_pre (ce_ante ce)) (ma_cond a)
  || existsb (fun ue => vacuous_in_pre (ce_ante (ue_ce ue))) (ma_univ a).
Definition known_class (c : case) : bool :=
  match model0 c with Ok m => existsb (fun na => vacuous_in_action (snd na)) (d_actions m) | Err _ => false end.

Definition unit_export (c : case) : verdict :=
  {| v_agree := trees_agree (model_x1 c) (c_x1 c);
     v_ok := returned (c_x1 c) && one_form (c_x1 c) && spec_same c;
     v_known := known_class c |}.

Definition unit_reparse (c : case) : verdict :=
  let mv := match model1 c with Ok m => Returned (model_vocab m +++ "#" +++ meta_of m) | Err _ => Raised end in
  let iv := match c_vocab1 c with Returned v => Returned (v +++ "#" +++ c_meta1 c) | Raised => Raised end in
  {| v_agree := obs_str_eqb mv iv;
     v_ok := returned (c_vocab1 c) && obs_str_eqb (c_vocab1 c) (c_vocab0 c) && String.eqb (c_meta1 c) (c_meta0 c);
     v_known := known_class c |}.

Definition unit_second (c : case) : verdict :=
  let key := sexp_map (num_key (numtab8 c)) in
  {| v_agree := trees_agree (model_x2 c) (c_x2 c);
     v_ok := match read_obs (c_x1 c), read_obs (c_x2 c) with
             | Ok a, Ok b => same_tree (key a) (key b)
             | _, _ => false
             end && one_form (c_x2 c) && returned (c_vocab2 c) && obs_str_eqb (c_vocab2 c) (c_vocab1 c);
     v_known := known_class c |}.

(* the theorems' hypothesis holds for what the parser produced *)
Definition unit_wf (c : case) : verdict :=
  {| v_agree := match model0 c with
                | Ok m => (wf_mdomain (numtab8 c) (c_dpre c) (c_deff c) m &&
                           (* ... and so does the re-read domain (C08_idempotent's intermediate result) *)
                           match model1 c with
                           | Ok m1 => wf_mdomain (numtab8 c) (c_dpre c) (c_deff c) m1
                           | Err _ => false
                           end) || known_class c
                | Err _ => false
                end;
     v_ok := true; v_known := known_class c |}.

(* probes: through Corr.Core's model drivers *)
Definition core_world (c : case) : world :=
  {| w_text := ""; w_nums := c_nums c; w_eps := c_eps c; w_objs := c_objs c; w_oof := false;
     w_parsed := Raised; w_probes := [] |}.

Definition core_probe (m : mdomain) (q : probe8) : probe :=
  let a := dget (d_actions m) (q_action q) in
  {| p_action := q_action q; p_args := q_args q; p_state := q_state q; p_app := q_app1 q;
     p_order := seq 0 (S (match a with Some x => List.length (ma_cond x) | None => 0 end));
     p_uorder := seq 0 (match a with Some x => List.length (ma_univ x) | None => 0 end);
     p_succ := q_succ1 q |}.

Definition probe_consistent (c : case) (q : probe8) : bool :=
  match spec_of c (read_text (c_text c)) with
  | Some d => match find_action d (q_action q) with
              | Some a => consistent (all_groups (c_eps c) (spec_tt d) (dupdate (sd_consts d) (c_objs c)) a (q_args q) (q_state q))
              | None => true end
  | None => true
  end.

Definition unit_probe (c : case) (q : probe8) : verdict :=
  let cons := probe_consistent c q in
  let w := core_world c in
  {| v_agree := match model1 c with
                | Ok m => let p := core_probe m q in
                          obs_eqb Bool.eqb (model_app w m p) (q_app1 q) &&
                          (negb cons || obs_eqb state_equiv (model_succ w m p) (q_succ1 q))
                | Err _ => false
                end;
     v_ok := obs_eqb Bool.eqb (q_app1 q) (q_app0 q) && (negb cons || obs_eqb state_equiv (q_succ1 q) (q_succ0 q));
     v_known := known_class c |}.

Definition judge_case (c : case) : list verdict :=
  match c_vocab0 c with
  | Raised =>
      (* T rejected by the implementation: nothing to export (whether the rejection is right is C01) *)
      [ {| v_agree := true; v_ok := true; v_known := false |} ]
  | Returned v0 =>
      unit_export c :: unit_reparse c :: unit_second c :: unit_wf c :: map (unit_probe c) (c_probes c)
  end.

Definition run (cs : list case) : string := t2s (map verdict_char (flat_map judge_case cs)).

(* debugging aid *)
Definition explain (c : case) :=
  (match model0 c with Ok m => Returned (model_vocab m) | Err k => Raised end,
   match model_x1 c with Ok e => Returned (show_sexp (canon e)) | Err _ => Raised end,
   match read_obs (c_x1 c) with Ok e => Returned (show_sexp (canon e)) | Err _ => Raised end,
   match model1 c with Ok m => Returned (model_vocab m) | Err k => Raised end,
   match model_x2 c with Ok e => Returned (show_sexp (canon e)) | Err _ => Raised end,
   match read_obs (c_x2 c) with Ok e => Returned (show_sexp (canon e)) | Err _ => Raised end,
   (match spec_of c (read_text (c_text c)) with Some s => show_actions (c_dpre c) (c_deff c) s | None => ["<none>"] end,
    match spec_of c (read_obs (c_x1 c)) with Some s => show_actions (c_dpre c) (c_deff c) s | None => ["<none>"] end)).
