(* Correspondence for C07: the implementation's per-call observations (which live values changed, which roots
   share a mutable object, do repeated calls agree, do threads agree with their sequential runs) versus the
   store model (Model/Store.v) run on the same resolved history, and versus the property itself. *)
From Coq Require Import List Ascii String Bool Arith.
From Verif Require Import Base.Result Base.Str Model.Store Corr.Common.
Import ListNotations.
Open Scope list_scope.

Record stepobs := { so_op : op; so_changed : list owner; so_sharing : list (owner * owner) }.
(* c_thread: Some ok for a thread case (several histories on one shared domain, ok = every thread's results equal
   its sequential run and the shared domain is unchanged) *)
Record case := { c_cfg : cfg; c_steps : list stepobs; c_repeat_ok : bool; c_thread : option bool }.

Definition pair_eqb (p q : owner * owner) : bool :=
  owner_eqb (fst p) (fst q) && owner_eqb (snd p) (snd q).
Definition subset {A} (eqb : A -> A -> bool) (a b : list A) : bool := forallb (fun x => existsb (eqb x) b) a.

Definition value_pair (p : owner * owner) : bool := protected (fst p) && protected (snd p).

(* the model's predictions, step by step *)
Fixpoint predict (c : cfg) (m : mstate) (steps : list stepobs) : list (list owner * list (owner * owner)) :=
  match steps with
  | [] => []
  | s :: r => let '(m', evs) := step c m (so_op s) in (may_change m evs, sharing m') :: predict c m' r
  end.

(* D17 is modelled exactly; the unrepaired variants of D15/D16/D18 over-approximate (values are abstract) *)
Definition exact (c : cfg) : bool := writes_fixed c.

Definition step_agree (c : cfg) (s : stepobs) (p : list owner * list (owner * owner)) : bool :=
  subset owner_eqb (so_changed s) (fst p) && subset pair_eqb (so_sharing s) (snd p) &&
  (negb (exact c) || (subset owner_eqb (fst p) (so_changed s) && subset pair_eqb (snd p) (so_sharing s))).

Fixpoint all2 {A B} (f : A -> B -> bool) (a : list A) (b : list B) : bool :=
  match a, b with
  | [], [] => true
  | x :: a', y :: b' => f x y && all2 f a' b'
  | _, _ => false
  end.

Definition model_clean (c : cfg) (cs : case) : bool :=
  forallb (fun p => match fst p with [] => true | _ => false end && negb (existsb value_pair (snd p)))
          (predict c init (c_steps cs)).

Definition impl_clean (cs : case) : bool :=
  forallb (fun s => match so_changed s with [] => true | _ => false end && negb (existsb value_pair (so_sharing s)))
          (c_steps cs)
  && c_repeat_ok cs && match c_thread cs with Some b => b | None => true end.

Definition judge (cs : case) : verdict :=
  let c := c_cfg cs in
  {| v_agree := all2 (step_agree c) (c_steps cs) (predict c init (c_steps cs))
                && (negb (exact c) || (c_repeat_ok cs && match c_thread cs with Some b => b | None => true end));
     v_ok := impl_clean cs;
     v_known := negb (model_clean c cs) |}.

Definition run (cases : list case) : string := summary judge cases.

Definition explain (cs : case) := (predict (c_cfg cs) init (c_steps cs), model_clean (c_cfg cs) cs, impl_clean cs).
