(* Correspondence for C07: the implementation's per-call observations (which live values changed, which roots
   share a mutable object, do repeated calls agree, do threads agree with their sequential runs, which shared
   containers does each call of a thread read and write) versus the store model (Model/Store.v) run on the same
   resolved history, and versus the property itself. *)
From Coq Require Import List Ascii String Bool Arith.
From Verif Require Import Base.Result Base.Str Model.Store Corr.Common.
Import ListNotations.
Open Scope list_scope.

(* one model operation of a history; a library call that the model renders as several operations (parse_plan = one
   trajectory step per action) is observed after the last of them only (so_observed) *)
Record stepobs := { so_op : op; so_observed : bool; so_changed : list owner; so_sharing : list (owner * owner) }.

(* one call of a thread under the deterministic scheduler: the shared cells it was seen to read / write (union over
   all schedules run) *)
Record tstep := { ts_op : op; ts_reads : list loc; ts_writes : list loc }.
(* t_ok: every thread's results equal its sequential run in every schedule, the shared domain is unchanged and
   DEFAULT_TYPES did not leak; t_prefix: the operations that built the shared values; t_sched: one recorded schedule
   (events on shared cells, consecutive repetitions collapsed) *)
Record tobs := { t_ok : bool; t_prefix : list op; t_threads : list (list tstep); t_sched : list (nat * event) }.

(* one LIBRARY call of a history: plain operations rendered by the harness (CSeq: parse_plan = one trajectory step
   per action, ...), or a joint-action call rendered by the MODEL (Model/Store.v apply_actions_at, ma_triplet_at,
   ma_plan_at) from the call's arguments and the handles alive in the model state when the call starts *)
Inductive call :=
| CSeq (l : list op)
| CJoint (d s : nat) (objs : option nat) (ms : list (option member)) (allow : bool)
| CMaTriplet (d s pobjs : nat) (ms : list (option member)) (allow : bool)
| CMaPlan (d pobjs : nat) (steps : list (list (option member))) (allow : bool).

Record cstep := { cs_call : call; cs_changed : list owner; cs_sharing : list (owner * owner) }.

Record case := { c_cfg : cfg; c_calls : list cstep; c_repeat_ok : bool; c_thread : option tobs }.

Definition render (m : mstate) (cl : call) : list op :=
  let ns := List.length (sts m) in
  let no := List.length (ops m) in
  match cl with
  | CSeq l => l
  | CJoint d s objs ms allow => fst (fst (fst (apply_actions_at ns no d s objs ms allow)))
  | CMaTriplet d s pobjs ms allow => fst (fst (fst (ma_triplet_at ns no d s pobjs ms allow)))
  | CMaPlan d pobjs steps allow => fst (ma_plan_at d pobjs allow steps ns no pobjs)
  end.

(* only the last operation of a call is observed *)
Fixpoint mark (l : list op) (ch : list owner) (sh : list (owner * owner)) : list stepobs :=
  match l with
  | [] => []
  | [p] => [{| so_op := p; so_observed := true; so_changed := ch; so_sharing := sh |}]
  | p :: r => {| so_op := p; so_observed := false; so_changed := []; so_sharing := [] |} :: mark r ch sh
  end.

Fixpoint expand (c : cfg) (m : mstate) (l : list cstep) : list stepobs :=
  match l with
  | [] => []
  | cs :: r =>
      let h := render m (cs_call cs) in
      mark h (cs_changed cs) (cs_sharing cs) ++ expand c (fold_left (fun m p => fst (step c m p)) h m) r
  end.

Definition c_steps (cs : case) : list stepobs := expand (c_cfg cs) init (c_calls cs).

Definition pair_eqb (p q : owner * owner) : bool :=
  owner_eqb (fst p) (fst q) && owner_eqb (snd p) (snd q).
Definition subset {A} (eqb : A -> A -> bool) (a b : list A) : bool := forallb (fun x => existsb (eqb x) b) a.

Definition value_pair (p : owner * owner) : bool := protected (fst p) && protected (snd p).

(* pairs of two operator objects are not compared: all operators of one domain reach its cells (quadratically many
   pairs, no information); operator-value pairs and value-value pairs are *)
Definition informative (p : owner * owner) : bool := protected (fst p) || protected (snd p).

(* the model's predictions for the observed steps; `pend` accumulates the values the unobserved operations of a
   composite call may have changed *)
Fixpoint predict (c : cfg) (m : mstate) (pend : list owner) (steps : list stepobs)
  : list (list owner * list (owner * owner)) :=
  match steps with
  | [] => []
  | s :: r =>
      let '(m', evs) := step c m (so_op s) in
      let ch := pend ++ may_change m evs in
      if so_observed s then (ch, filter informative (sharing m')) :: predict c m' [] r else predict c m' ch r
  end.
Definition observed (steps : list stepobs) : list stepobs := filter so_observed steps.

(* D17 is modelled exactly; the unrepaired variants of D15/D16/D18 over-approximate (values are abstract) *)
Definition exact (c : cfg) : bool := writes_fixed c.

(* every deviation the implementation shows at this step is one the model predicts *)
Definition step_explained (s : stepobs) (p : list owner * list (owner * owner)) : bool :=
  subset owner_eqb (so_changed s) (fst p) && subset pair_eqb (filter value_pair (so_sharing s)) (snd p).

Definition step_agree (c : cfg) (s : stepobs) (p : list owner * list (owner * owner)) : bool :=
  subset owner_eqb (so_changed s) (fst p) && subset pair_eqb (so_sharing s) (snd p) &&
  (negb (exact c) || (subset owner_eqb (fst p) (so_changed s) && subset pair_eqb (snd p) (so_sharing s))).

Fixpoint all2 {A B} (f : A -> B -> bool) (a : list A) (b : list B) : bool :=
  match a, b with
  | [], [] => true
  | x :: a', y :: b' => f x y && all2 f a' b'
  | _, _ => false
  end.

(* ---------------------------------------------------------------- threads *)
Definition mrun (c : cfg) (h : list op) (m : mstate) : mstate := fold_left (fun m p => fst (step c m p)) h m.
Definition shared_loc (m0 : mstate) (l : loc) : bool :=
  match fst l with
  | ODom d => Nat.ltb d (List.length (doms m0))
  | OMod => true
  | _ => false
  end.
(* cells modelled individually: Domain.types (index 0) and the signatures (index >= 2); index 1 lumps together every
   other container of the domain, whose reads are not compared *)
Definition individual (l : loc) : bool := negb (Nat.eqb (snd l) 1).

Fixpoint thread_agree (c : cfg) (m0 m : mstate) (ts : list tstep) : bool :=
  match ts with
  | [] => true
  | s :: r =>
      let '(m', evs) := step c m (ts_op s) in
      let pw := filter (shared_loc m0) (writes evs) in
      let pr := filter (shared_loc m0) (reads evs) in
      subset loc_eqb (ts_writes s) pw && (negb (exact c) || subset loc_eqb pw (ts_writes s)) &&
      subset loc_eqb (filter individual (ts_reads s)) pr &&
      thread_agree c m0 m' r
  end.
Definition threads_agree (c : cfg) (t : tobs) : bool :=
  let m0 := mrun c (t_prefix t) init in forallb (thread_agree c m0 m0) (t_threads t).
Definition threads_clean (t : tobs) : bool :=
  t_ok t && no_writes (t_sched t) &&
  forallb (forallb (fun s => match ts_writes s with [] => true | _ => false end)) (t_threads t).
Definition thread_ok (cs : case) : bool := match c_thread cs with Some t => threads_clean t | None => true end.

(* ---------------------------------------------------------------- verdict *)
Definition preds_t := list (list owner * list (owner * owner)).

Definition model_clean_p (preds : preds_t) : bool :=
  forallb (fun p => match fst p with [] => true | _ => false end && negb (existsb value_pair (snd p))) preds.
Definition model_clean (c : cfg) (cs : case) : bool := model_clean_p (predict c init [] (c_steps cs)).

Definition impl_clean (cs : case) : bool :=
  forallb (fun s => match so_changed s with [] => true | _ => false end && negb (existsb value_pair (so_sharing s)))
          (observed (c_steps cs))
  && c_repeat_ok cs && thread_ok cs.

(* the implementation's deviations are all among those the model of this configuration (i.e. the open findings)
   predicts: only then may a finding class excuse the case *)
Definition explained_p (c : cfg) (cs : case) (preds : preds_t) : bool :=
  all2 step_explained (observed (c_steps cs)) preds
  && (negb (exact c) || (c_repeat_ok cs && thread_ok cs)).
Definition explained (c : cfg) (cs : case) : bool := explained_p c cs (predict c init [] (c_steps cs)).

Definition judge (cs : case) : verdict :=
  let c := c_cfg cs in
  let preds := predict c init [] (c_steps cs) in
  {| v_agree := all2 (step_agree c) (observed (c_steps cs)) preds
                && (negb (exact c) || (c_repeat_ok cs && thread_ok cs))
                && match c_thread cs with Some t => threads_agree c t | None => true end;
     v_ok := impl_clean cs;
     v_known := negb (model_clean_p preds) && explained_p c cs preds |}.

Definition run (cases : list case) : string := summary judge cases.

Definition explain (cs : case) :=
  (predict (c_cfg cs) init [] (c_steps cs), model_clean (c_cfg cs) cs, impl_clean cs, explained (c_cfg cs) cs,
   match c_thread cs with Some t => (threads_agree (c_cfg cs) t, threads_clean t) | None => (true, true) end).
