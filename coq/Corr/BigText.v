(* Large texts for the correspondence checks (C11, C19): a big string literal is expensive for coqc to read
   (measured: about 8 s per 125 kB, stack overflow near 0.5 MB), so a LARGE text crosses the boundary as a list of
   SEGMENTS that both sides expand (Python: harness/c11_util.expand_segs), and a large observable crosses as a
   DIGEST: (number of items, two 63-bit polynomial checksums of the items, each followed by a blank), computed by
   the same fold on both sides (harness/c11_util.digest).  Used only by Corr/*.v — no theorem depends on it. *)
From Coq Require Import List Ascii String Bool ZArith NArith Uint63 DecimalString.
From Verif Require Import Base.Str Corr.Common.
Import ListNotations.
Open Scope string_scope.
Open Scope list_scope.

Inductive seg :=
| Rep (block : string) (reps : nat)                                  (* the (escaped) block, [reps] times *)
| Numbered (pre : string) (width start count : nat) (post : string). (* for i = start .. start+count-1:
                                                                        pre ++ ("%<width>d" % i) ++ post *)

Fixpoint rep_app (b : text) (n : nat) (k : text) : text :=
  match n with 0 => k | S n' => b ++ rep_app b n' k end.

Definition dec (n : nat) : text := s2t (NilEmpty.string_of_uint (Nat.to_uint n)).
Definition pad (w : nat) (t : text) : text := repeat " "%char (w - List.length t) ++ t.

Fixpoint num_app (pre post : text) (w : nat) (i count : nat) (k : text) : text :=
  match count with
  | 0 => k
  | S c => pre ++ pad w (dec i) ++ post ++ num_app pre post w (S i) c k
  end.

Definition expand (segs : list seg) : text :=
  fold_right (fun s k => match s with
                         | Rep b n => rep_app (unesc b) n k
                         | Numbered pre w i c post => num_app (unesc pre) (unesc post) w i c k
                         end) [] segs.

Definition digest_t := (int * int * int)%type.
Definition code (c : ascii) : int := of_Z (Z.of_N (N_of_ascii c)).
Definition M1 : int := 1000003%uint63.
Definition M2 : int := 6364136223846793005%uint63.
Definition hstep (st : int * int) (c : ascii) : int * int :=
  let '(h1, h2) := st in ((h1 * M1 + code c + 1)%uint63, (h2 * M2 + code c + 1)%uint63).
Fixpoint hstr (st : int * int) (s : string) : int * int :=
  match s with EmptyString => st | String c r => hstr (hstep st c) r end.
Definition htext (st : int * int) (t : text) : int * int := fold_left hstep t st.

Definition digest_gen {A} (h : int * int -> A -> int * int) (l : list A) : digest_t :=
  let '(n, st) := fold_left (fun acc t => let '(n, st) := acc in ((n + 1)%uint63, hstep (h st t) " "%char))
                            l (0%uint63, (0%uint63, 0%uint63)) in
  (n, fst st, snd st).
Definition digest (ts : list string) : digest_t := digest_gen hstr ts.
Definition digest_texts (ts : list text) : digest_t := digest_gen htext ts.

Definition digest_eqb (a b : digest_t) : bool :=
  let '(n, x, y) := a in let '(n', x', y') := b in ((n =? n') && (x =? x') && (y =? y'))%uint63.
Definition digest_count (d : digest_t) : int := let '(n, _, _) := d in n.
