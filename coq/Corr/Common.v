(* Shared pieces of the generated case files (correspondence check). *)
From Coq Require Import List Ascii String Bool NArith.
From Verif Require Import Base.Result Base.Str Base.Sexp.
Import ListNotations.
Open Scope string_scope.
Open Scope list_scope.

(* Text crosses the boundary as printable ASCII: '`' followed by two upper-case hex digits is that byte. *)
Definition hexval (c : ascii) : N :=
  let n := N_of_ascii c in
  if ((48 <=? n) && (n <=? 57))%N then n - 48 else
  if ((65 <=? n) && (n <=? 70))%N then n - 55 else 0.

Fixpoint unesc_t (t : text) : text :=
  match t with
  | [] => []
  | c :: r =>
      if Ascii.eqb c "`"%char then
        match r with
        | h :: l :: r' => ascii_of_N (16 * hexval h + hexval l) :: unesc_t r'
        | _ => []
        end
      else c :: unesc_t r
  end.
Definition unesc (s : string) : text := unesc_t (s2t s).
Definition unesc_s (s : string) : string := t2s (unesc s).

(* One character per case: '.' agree and ok; 'k' agree, not ok, in a known finding class;
   'o' agree but not ok (unlisted violation); 'a' model and implementation disagree but the implementation's
   answer satisfies the spec; 'A' disagree and not ok; 'K' disagree, not ok, known class. *)
Record verdict := { v_agree : bool; v_ok : bool; v_known : bool }.

Definition verdict_char (v : verdict) : ascii :=
  match v_agree v, v_ok v, v_known v with
  | true, true, _ => "."
  | true, false, true => "k"
  | true, false, false => "o"
  | false, true, _ => "a"
  | false, false, true => "K"
  | false, false, false => "A"
  end%char.

Definition summary {C} (judge : C -> verdict) (cases : list C) : string :=
  t2s (map (fun c => verdict_char (judge c)) cases).

(* canonical one-line rendering of a token tree *)
Definition show_sexp (e : sexp) : string := join " " (flatten e).

(* observations of "returned value or raised" *)
Inductive obs (A : Type) := Returned (a : A) | Raised.
Arguments Returned {A} a.
Arguments Raised {A}.

Definition obs_of_result {A} (r : result A) : obs A :=
  match r with Ok a => Returned a | Err _ => Raised end.

Definition obs_eqb {A} (eqb : A -> A -> bool) (x y : obs A) : bool :=
  match x, y with
  | Returned a, Returned b => eqb a b
  | Raised, Raised => true
  | _, _ => false
  end.
