(* Structured correspondence for the PROBLEM half of C17: the per-agent problem TEXTS are parsed by the model's own
   problem parser (Model/Problem.v, against the vocabulary of the combined domain the implementation used), combined
   by Model/CombineProblems.v, exported by C09's exporter model (Model/ProblemExporter.v) and parsed again; compared
   with what the implementation reports for combine_problems, for the text export_combined_problem wrote and for
   that text parsed by the real ProblemParser.  Three verdict units per case:
     combine  agree: the model's combination has the observables of combine_problems' result (objects in dict order,
                     facts / goal literals as sets, fluent values as a map, numeric goals as a multiset; both raise
                     when a file does not parse);           ok: nothing further (the union oracle is Corr/C17.v's);
     export   agree: the exporter model's token tree for the MODEL's combination equals the implementation's text
                     read by the model's tokenizer, up to the order inside :init and the goal conjunction;
              ok   : nothing to judge;
     reparse  agree: the model's parse of the implementation's exported text has the observables the implementation
                     reports for it;
              ok   : the implementation's re-parsed problem has the observables of its combination. *)
From Coq Require Import List Ascii String Bool Arith PrimFloat.
From Verif Require Import Base.Result Base.Str Base.Sexp Base.PyDict Base.Float
  Model.Tokenizer Model.Types Model.Domain Model.NumExpr Model.Problem Model.ProblemObs Model.ProblemExporter
  Model.CombineProblems Spec.Pddl Spec.Grammar Spec.Problem Corr.Common Corr.C05 Corr.C09.
Import ListNotations.
Open Scope string_scope.
Open Scope list_scope.

Record pscase := PS {
  ps_vocab : vocab;                    (* of the combined domain the problems were parsed against *)
  ps_texts : list string;              (* the agent problem files in discovery order, escaped *)
  ps_nums : list (string * float);     (* float(token) for the tokens of the files and of the exported text *)
  ps_reprs : list (float * string);    (* repr(x) for every fluent value / goal constant of the combination *)
  ps_obs : obs pdump;                  (* combine_problems *)
  ps_export : obs string;              (* combined_problem.pddl, escaped *)
  ps_rt : obs pdump                    (* ... parsed by ProblemParser against the same domain *)
}.

Definition ps_num (c : pscase) : string -> option float := fun s => lookup s (ps_nums c).
Definition ps_repr (c : pscase) (x : float) : string :=
  match find (fun p => float_beq (fst p) x) (ps_reprs c) with Some p => snd p | None => "?" end.

Definition ps_parse (c : pscase) (e : sexp) : result mproblem :=
  parse_problem cfg_fixed (ps_num c) (mdomain_of (ps_vocab c)) e.

Definition ps_parse_text (c : pscase) (t : string) : result mproblem :=
  do e <- read_text t; ps_parse c e.

Definition ps_model (c : pscase) : result mproblem :=
  do fs <- mapM (ps_parse_text c) (ps_texts c); Ok (combine_mproblems fs).

(* goal literals as a set (each once), everything else as pdump_equiv compares it *)
Fixpoint atoms_nodup (l : list atom) : bool :=
  match l with [] => true | x :: r => negb (existsb (atom_eqb x) r) && atoms_nodup r end.

Definition pdump_sets_equiv (a b : pdump) : bool :=
  String.eqb (pd_name a) (pd_name b)
  && list_eqb Problem.pair_eqb (pd_objects a) (pd_objects b)
  && facts_equiv (pd_facts a) (pd_facts b)
  && fluents_equiv (pd_fluents a) (pd_fluents b)
  && atoms_nodup (pd_goal a) && atoms_nodup (pd_goal b) && facts_equiv (pd_goal a) (pd_goal b)
  && multiset_eqb (pd_goal_num a) (pd_goal_num b).

Definition judge_p (c : pscase) : list verdict :=
  let m := ps_model c in
  [ {| v_agree := match m, ps_obs c with
                  | Ok pb, Returned d => pdump_sets_equiv (dump_problem pb) d
                  | Err _, Raised => true
                  | _, _ => false
                  end;
       v_ok := true; v_known := false |};
    {| v_agree := match m, ps_export c with
                  | Ok pb, Returned t =>
                      match read_text t with
                      | Ok e => export_equiv (export_problem (ps_repr c) None (v_name (ps_vocab c)) pb) e
                      | Err _ => false
                      end
                  | Ok _, Raised => false                 (* the exporter model is total *)
                  | Err _, _ => true
                  end;
       v_ok := true; v_known := false |};
    {| v_agree := match ps_export c with
                  | Returned t => obs_eqb pdump_agree (res_dump (ps_parse_text c t)) (ps_rt c)
                  | Raised => true
                  end;
       v_ok := match ps_obs c with
               | Returned d => match ps_rt c with Returned d' => pdump_sets_equiv d' d | Raised => false end
               | Raised => true
               end;
       v_known := false |} ].

Definition run (cases : list pscase) : string := t2s (map verdict_char (flat_map judge_p cases)).

Definition explain (c : pscase) :=
  (match ps_model c with Ok pb => Returned (dump_problem pb) | Err _ => Raised end,
   match ps_model c with
   | Ok pb => Some (export_problem (ps_repr c) None (v_name (ps_vocab c)) pb)
   | Err _ => None
   end,
   match ps_export c with Returned t => res_dump (ps_parse_text c t) | Raised => Raised end).
