(* Correspondence for C20: what Operator.ground() reports for an action call --
   (round 3: collections are compared as MULTISETS; the model side is Model.GroundSets.iter_action, i.e. the report of
   Model.GroundTyped with the library's Python sets applied; the spec side has a lower bound -- Spec.SubstSet: members of one
   connective / one effect group with the same TYPED form count once -- and an upper bound -- one reported item per schema
   occurrence)
   iterated grounded precondition literals (untyped and typed text) and numeric conditions, the grounded (in)equality
   pairs, each effect group's antecedent / add and delete literals / numeric effects, the typed action call text --
   compared (a) with the model (Model.GroundTyped.report_action, texts included) and
            (b) with the spec: the substitution computed independently from the spec's reading of the domain text
                (Spec.Grammar + Spec.Subst), structurally (polarity, name, arguments, types; expressions). *)
From Coq Require Import List Ascii String Bool Arith PrimFloat.
From Verif Require Import Base.Result Base.Str Base.Sexp Base.PyDict Base.Float
  Model.Types Model.Domain Model.Exec Model.GroundTyped Model.GroundSets Spec.Pddl Spec.Grammar Spec.Subst Spec.SubstSet
  Corr.Common Corr.Core.
Import ListNotations.
Open Scope string_scope.
Open Scope list_scope.

(* ---------- observations ---------- *)
Record olit := {
  ol_g : bool; ol_pos : bool; ol_name : string; ol_args : list string; ol_types : list string;
  ol_u : string;                     (* untyped_representation *)
  ol_t : string                      (* str() *)
}.

Record ocond := { oc_lits : list olit; oc_nums : list gtree; oc_eqs : list eqpair }.
Record ogroup := { og_ante : option ocond; og_disc : list olit; og_num : list gtree }.

Record observation := {
  ob_pre : ocond;
  ob_groups : list ogroup;
  ob_call : obs string;              (* typed_action_call with the problem's objects *)
  ob_call_noobj : obs string;        (* typed_action_call of an operator built without objects *)
  ob_str : string                    (* str(operator) *)
}.

Record gprobe := { g_action : string; g_args : list string; g_obs : obs observation }.

Record gcase := { gc_world : world; gc_probes : list gprobe }.

(* ---------- comparison helpers (sets as lists) ---------- *)
Definition subset {A} (eqb : A -> A -> bool) (a b : list A) : bool := forallb (fun x => existsb (eqb x) b) a.
Definition set_eq {A} (eqb : A -> A -> bool) (a b : list A) : bool := subset eqb a b && subset eqb b a.
Definition strs_eqb (a b : list string) : bool := list_eqb String.eqb a b.

Fixpoint gtree_eqb (a b : gtree) : bool :=
  match a, b with
  | GTNum x, GTNum y => float_eq x y
  | GTFn u, GTFn v => atom_eqb u v
  | GTNode o l r, GTNode o' l' r' => String.eqb o o' && gtree_eqb l l' && gtree_eqb r r'
  | _, _ => false
  end.

Definition eqpair_eqb (a b : eqpair) : bool :=
  Bool.eqb (fst (fst a)) (fst (fst b)) && String.eqb (snd (fst a)) (snd (fst b)) && String.eqb (snd a) (snd b).

(* model literal against observed literal: structure and both texts *)
Definition rlit_olit (dom : mdomain) (m : rlit) (o : olit) : bool :=
  Bool.eqb (rl_grounded m) (ol_g o) && Bool.eqb (rl_pos m) (ol_pos o) && String.eqb (rl_name m) (ol_name o) &&
  strs_eqb (rl_args m) (ol_args o) && strs_eqb (rl_types m) (ol_types o) &&
  String.eqb (untyped_text m) (unesc_s (ol_u o)) && String.eqb (typed_text m) (unesc_s (ol_t o)).

Definition cross_eq {A B} (r : A -> B -> bool) (a : list A) (b : list B) : bool :=
  forallb (fun x => existsb (r x) b) a && forallb (fun y => existsb (fun x => r x y) a) b.


(* multisets: match every x with a y of its own (r is an equivalence up to representation, so the first match will do);
   [Some rest] = the ys nobody claimed *)
Fixpoint take_first {Y} (p : Y -> bool) (ys : list Y) : option (list Y) :=
  match ys with
  | [] => None
  | y :: r => if p y then Some r else match take_first p r with Some r' => Some (y :: r') | None => None end
  end.
Fixpoint match_all {X Y} (r : X -> Y -> bool) (xs : list X) (ys : list Y) : option (list Y) :=
  match xs with
  | [] => Some ys
  | x :: xr => match take_first (r x) ys with Some ys' => match_all r xr ys' | None => None end
  end.
Definition msub {X Y} (r : X -> Y -> bool) (xs : list X) (ys : list Y) : bool :=          (* xs <= ys *)
  match match_all r xs ys with Some _ => true | None => false end.
Definition mseq {X Y} (r : X -> Y -> bool) (xs : list X) (ys : list Y) : bool :=          (* xs = ys *)
  match match_all r xs ys with Some [] => true | _ => false end.
Definition flip2 {X Y} (r : X -> Y -> bool) : Y -> X -> bool := fun y x => r x y.
(* lo <= ys <= hi *)
Definition mbetween {X Y} (r : X -> Y -> bool) (lo hi : list X) (ys : list Y) : bool :=
  msub r lo ys && msub (flip2 r) ys hi.

Definition cond_agree (dom : mdomain) (items : list ritem) (eqs : list eqpair) (o : ocond) : bool :=
  mseq (rlit_olit dom) (items_lits items) (oc_lits o) &&
  mseq gtree_eqb (items_nums items) (oc_nums o) &&
  set_eq eqpair_eqb eqs (oc_eqs o).

Definition group_agree (dom : mdomain) (m : rgroup) (o : ogroup) : bool :=
  match rg_ante m, og_ante o with
  | None, None => true
  | Some (its, eqs), Some oc => cond_agree dom its eqs oc
  | _, _ => false
  end &&
  mseq (rlit_olit dom) (rg_disc m) (og_disc o) && mseq gtree_eqb (rg_num m) (og_num o).

(* ---------- the spec's expectation ---------- *)
(* structural form of a literal: polarity, atom, types *)
Definition tlit_olit (s : tlit) (o : olit) : bool :=
  Bool.eqb (tl_pos s) (ol_pos o) && String.eqb (fst (tl_atom s)) (ol_name o) &&
  strs_eqb (snd (tl_atom s)) (ol_args o) && strs_eqb (tl_types s) (ol_types o).

Fixpoint gtree_nexp (t : gtree) : option nexp :=
  match t with
  | GTNum x => Some (NNum x)
  | GTFn a => Some (NFl (fst a) (snd a))
  | GTNode op l r =>
      match binop_of op, gtree_nexp l, gtree_nexp r with
      | Some o, Some a, Some b => Some (NBin o a b)
      | _, _, _ => None
      end
  end.

Fixpoint nexp_eqb (a b : nexp) : bool :=
  match a, b with
  | NNum x, NNum y => float_eq x y
  | NFl f u, NFl g v => String.eqb f g && strs_eqb u v
  | NBin o l r, NBin o' l' r' =>
      match o, o' with OAdd, OAdd | OSub, OSub | OMul, OMul | ODiv, ODiv => true | _, _ => false end &&
      nexp_eqb l l' && nexp_eqb r r'
  | _, _ => false
  end.

Definition cmpop_eqb (a b : cmpop) : bool :=
  match a, b with CEq, CEq | CLe, CLe | CGe, CGe | CLt, CLt | CGt, CGt => true | _, _ => false end.
Definition assignop_eqb (a b : assignop) : bool :=
  match a, b with AAssign, AAssign | AIncrease, AIncrease | ADecrease, ADecrease => true | _, _ => false end.

Definition cmp_gtree (s : cmpop * nexp * nexp) (t : gtree) : bool :=
  match t with
  | GTNode op l r =>
      match cmpop_of op, gtree_nexp l, gtree_nexp r with
      | Some c, Some a, Some b => cmpop_eqb c (fst (fst s)) && nexp_eqb a (snd (fst s)) && nexp_eqb b (snd s)
      | _, _, _ => false
      end
  | _ => false
  end.

Definition num_gtree (s : assignop * atom * nexp) (t : gtree) : bool :=
  match t with
  | GTNode op (GTFn a) r =>
      match assignop_of op, gtree_nexp r with
      | Some k, Some b => assignop_eqb k (fst (fst s)) && atom_eqb a (snd (fst s)) && nexp_eqb b (snd s)
      | _, _ => false
      end
  | _ => false
  end.

Definition cond_ok (consts scope : list (string * string)) (sg : env) (f : form) (o : ocond) : bool :=
  mbetween tlit_olit (form_lits_min consts scope sg f) (form_lits consts scope sg f) (oc_lits o) &&
  mseq cmp_gtree (form_cmps sg f) (oc_nums o) &&
  set_eq eqpair_eqb (form_eqs sg f) (oc_eqs o).

Definition group_ok (consts scope : list (string * string)) (sg : env) (ante : option form) (ps : list prim)
           (o : ogroup) : bool :=
  match ante, og_ante o with
  | None, None => true
  | Some f, Some oc => cond_ok consts scope sg f oc
  | _, _ => false
  end &&
  mbetween tlit_olit (prim_lits_min consts scope sg ps) (prim_lits consts scope sg ps) (og_disc o) &&
  mseq num_gtree (prim_nums sg ps) (og_num o).

(* the groups Operator.ground() builds: the unconditional one and one per 'when' (forall-when effects are grounded
   only when they are applied) *)
Definition spec_groups (a : action) : list (option form * list prim) :=
  flat_map (fun e => match e with
                     | EPrims ps => [(None, ps)]
                     | EWhen c ps => [(Some c, ps)]
                     | EForall _ _ _ _ => []
                     end) (a_effs a).

Definition spec_call (sd : sdomain) (a : action) (args : list string) (objs : objects) : option string :=
  match all_some (map (fun x => match lookup x objs with
                                | Some ty => Some (x +++ " - " +++ ty)
                                | None => match lookup x (sd_consts sd) with
                                          | Some ty => Some (x +++ " - " +++ ty)
                                          | None => None end
                                end) args) with
  | Some items => Some ("(" +++ a_name a +++ " " +++ join " " items +++ ")")
  | None => None
  end.

Definition spec_call_noobj (a : action) (args : list string) : string :=
  "(" +++ a_name a +++ " " +++
  join " " (map (fun xt => fst xt +++ " - " +++ snd (snd xt)) (combine args (a_params a))) +++ ")".

(* ---------- inside the supported fragment: every literal Operator.ground() touches has a declared predicate and as many
   arguments as declared (quantified bodies are not touched by ground()).  Outside it the allowed outcome is an exception
   at grounding (C01: 'faithful or rejected by first use'; C20_ground_returns_iff / C20_ground_error_kinds on the model) ---------- *)
Definition lit_wf (sd : sdomain) (p : string) (args : list string) : bool :=
  match lookup p (sd_preds sd) with
  | Some sg => Nat.eqb (List.length sg) (List.length args)
  | None => false
  end.
Fixpoint form_wf (sd : sdomain) (f : form) : bool :=
  match f with
  | FAtom p args | FNotAtom p args => lit_wf sd p args
  | FAnd l | FOr l => forallb (form_wf sd) l
  | _ => true
  end.
Definition prims_wf (sd : sdomain) (ps : list prim) : bool :=
  forallb (fun q => match q with PAdd p args | PDel p args => lit_wf sd p args | PNum _ _ _ _ => true end) ps.
Definition action_wf (sd : sdomain) (a : action) : bool :=
  form_wf sd (a_pre a) &&
  forallb (fun e => match e with
                    | EPrims ps => prims_wf sd ps
                    | EWhen c ps => form_wf sd c && prims_wf sd ps
                    | EForall _ _ _ _ => true
                    end) (a_effs a).

(* ---------- known finding classes, decided on the input ---------- *)
Definition known_pre (a : action) (sg : env) : bool :=
  under_forall_touches sg false (a_pre a) || form_repeats sg (a_pre a).
Definition known_groups (a : action) (sg : env) : bool :=
  existsb (fun g => match fst g with Some c => under_forall_touches sg false c || form_repeats sg c | None => false end
                    || prims_repeat sg (snd g)) (spec_groups a).

(* ---------- verdicts: per probe three units -- precondition, effect groups, call texts ---------- *)
Definition model_report (d : mdomain) (p : gprobe) : result (report * maction) :=
  match dget (d_actions d) (g_action p) with
  | None => Err EKey
  | Some a => do r <- iter_action d a (g_args p); Ok (r, a)
  end.

Definition probe_verdicts (w : world) (p : gprobe) : list verdict :=
  let md := model_domain w in
  let sd := spec_domain w in
  let mr := match md with Ok d => model_report d p | Err k => Err k end in
  let sa := match sd with Some d => find_action d (g_action p) | None => None end in
  let consts := match sd with Some d => sd_consts d | None => [] end in
  match g_obs p with
  | Raised =>
      (* the property demands a report for every call of an action of the supported fragment: raising is a violation unless
         there is no such action or one of its literals does not fit its declaration *)
      let agree := match mr with Err _ => true | Ok _ => false end in
      let ok := match sd, sa with Some d, Some a => negb (action_wf d a) | _, _ => true end in
      [ {| v_agree := agree; v_ok := ok; v_known := false |};
        {| v_agree := agree; v_ok := ok; v_known := false |};
        {| v_agree := agree; v_ok := ok; v_known := false |} ]
  | Returned o =>
      let sg := match sa with Some a => bind_args a (g_args p) | None => [] end in
      let agree_pre := match md, mr with
                       | Ok d, Ok (r, _) => cond_agree d (rp_items r) (rp_eqs r) (ob_pre o)
                       | _, _ => false end in
      let agree_grp := match md, mr with
                       | Ok d, Ok (r, _) => mseq (group_agree d) (rp_groups r) (ob_groups o)
                       | _, _ => false end in
      let agree_call := match md, mr with
                        | Ok d, Ok (_, a) =>
                            obs_eqb String.eqb (obs_of_result (typed_call d a (g_args p) (Some (w_objs w))))
                                    (match ob_call o with Returned s => Returned (unesc_s s) | Raised => Raised end) &&
                            obs_eqb String.eqb (obs_of_result (typed_call d a (g_args p) None))
                                    (match ob_call_noobj o with Returned s => Returned (unesc_s s) | Raised => Raised end) &&
                            String.eqb (call_text a (g_args p)) (unesc_s (ob_str o))
                        | _, _ => false end in
      let ok_pre := match sa with
                    | Some a => cond_ok consts (a_params a) sg (a_pre a) (ob_pre o)
                    | None => false end in
      let ok_grp := match sa with
                    | Some a => cross_eq (fun g og => group_ok consts (a_params a) sg (fst g) (snd g) og)
                                         (spec_groups a) (ob_groups o) &&
                                Nat.eqb (List.length (spec_groups a)) (List.length (ob_groups o))
                    | None => false end in
      let ok_call := match sd, sa with
                     | Some d, Some a =>
                         match spec_call d a (g_args p) (w_objs w), ob_call o with
                         | Some s, Returned s' => String.eqb s (unesc_s s')
                         | None, Raised => true
                         | _, _ => false
                         end &&
                         match ob_call_noobj o with
                         | Returned s' => String.eqb (spec_call_noobj a (g_args p)) (unesc_s s')
                         | Raised => false
                         end &&
                         String.eqb ("(" +++ a_name a +++ " " +++ join " " (g_args p) +++ ")") (unesc_s (ob_str o))
                     | _, _ => false end in
      [ {| v_agree := agree_pre; v_ok := ok_pre;
           v_known := match sa with Some a => known_pre a sg | None => false end |};
        {| v_agree := agree_grp; v_ok := ok_grp;
           v_known := match sa with Some a => known_groups a sg | None => false end |};
        {| v_agree := agree_call; v_ok := ok_call; v_known := false |} ]
  end.

Definition judge_gcase (c : gcase) : list verdict := flat_map (probe_verdicts (gc_world c)) (gc_probes c).
Definition run (cs : list gcase) : string := t2s (map verdict_char (flat_map judge_gcase cs)).

Definition explain (c : gcase) :=
  let w := gc_world c in
  map (fun p =>
         (g_action p, g_args p,
          match model_domain w with Ok d => match model_report d p with Ok (r, a) => Some (r, typed_call d a (g_args p) (Some (w_objs w))) | Err _ => None end
                               | Err _ => None end,
          match spec_domain w with
          | Some d => match find_action d (g_action p) with
                      | Some a => let sg := bind_args a (g_args p) in
                                  Some (form_lits_min (sd_consts d) (a_params a) sg (a_pre a),
                                        form_lits (sd_consts d) (a_params a) sg (a_pre a), form_cmps sg (a_pre a),
                                        form_eqs sg (a_pre a), spec_call d a (g_args p) (w_objs w))
                      | None => None end
          | None => None end))
      (gc_probes c).
