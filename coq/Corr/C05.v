(* Correspondence for C05: the implementation's ProblemParser (canonical dump of the parsed Problem, or raised)
   versus the model (Model/Problem.v, configuration Model.Problem.cfg_current = the tree as it is) and the spec (Spec/Problem.v).
   A world is the vocabulary of one parsed domain (dumped from the implementation's Domain object) with the
   problem texts parsed against it. *)
From Coq Require Import List Ascii String Bool Arith PrimFloat.
From Verif Require Import Base.Result Base.Str Base.Sexp Base.PyDict Base.Float
  Model.Tokenizer Model.Types Model.Domain Model.NumExpr Model.Problem Model.ProblemObs
  Spec.Pddl Spec.Grammar Spec.Problem Spec.ProblemObjects Corr.Common.
Import ListNotations.
Open Scope string_scope.
Open Scope list_scope.

Record pcase := {
  c_text : string;                    (* problem text, escaped *)
  c_nums : list (string * float);     (* float(token) for every token of the text that float() accepts *)
  c_expect : option (obs pdump);      (* what the generator knows the answer must be; None: judged by the spec only *)
  c_obs : obs pdump                   (* the implementation: dump of the parsed Problem, or raised *)
}.

Record world := { w_vocab : vocab; w_cases : list pcase }.

Definition numtab (c : pcase) : string -> option float := fun s => lookup s (c_nums c).
Definition case_sexp (c : pcase) : result sexp := parse MFile (unesc (c_text c)).

(* ----- model ----- *)
Definition model_obs (v : vocab) (c : pcase) : obs pdump :=
  obs_of_result (do e <- case_sexp c;
                 do pb <- parse_problem cfg_current (numtab c) (mdomain_of v) e;
                 Ok (dump_problem pb)).

(* agreement: everything pdump_equiv compares, and the fluent table entry by entry in dict order *)
Definition fluent_entry_eqb (a b : atom * float) : bool := atom_eqb (fst a) (fst b) && float_beq (snd a) (snd b).
Definition pdump_agree (a b : pdump) : bool :=
  pdump_equiv a b && list_eqb fluent_entry_eqb (pd_fluents a) (pd_fluents b).

(* ----- spec ----- *)
(* A text that is outside the grammar of Spec/Problem.v only by its object section - a name declared again, lists nested
   deeper or in other places than the grammar allows - is read in its NORMAL FORM (Spec/ProblemObjects.v: each name once,
   at its first place, with its last type; nested lists spliced); every type written after a dash, also in a superseded
   declaration, must then be declared ([spec_types]; for a text of the grammar this is part of wf_sproblem anyway). *)
Definition spec_problem (c : pcase) : option sproblem :=
  match case_sexp c with
  | Ok e => match read_problem (numtab c) e with
            | Some sp => Some sp
            | None => read_problem (numtab c) (normal_objects e)
            end
  | Err _ => None
  end.

Definition section_types_declared (v : vocab) (s : sexp) : bool :=
  match s with
  | SList (Atom k :: _) =>
      if String.eqb k ":objects" then
        match groups_sx s with
        | Some gs => forallb (fun g : ogroup => type_declared v (snd g)) gs
        | None => true
        end
      else true
  | _ => true
  end.

Definition spec_types (v : vocab) (c : pcase) : bool :=
  match case_sexp c with
  | Ok (SList l) => forallb (section_types_declared v) l
  | _ => true
  end.

Definition spec_ok (v : vocab) (c : pcase) : bool :=
  match spec_problem c with
  | Some sp =>
      let wf := wf_sproblem (numtab c) v sp && spec_types v c in
      match c_obs c with
      | Raised => negb wf
      | Returned d => wf && pdump_equiv d (spec_dump (numtab c) sp)
      end
  | None => true                      (* outside the grammar of the spec: only the a-priori expectation judges *)
  end.

Definition expect_ok (c : pcase) : bool :=
  match c_expect c with Some ex => obs_eqb pdump_equiv ex (c_obs c) | None => true end.

(* ----- recorded finding classes, decided on the input -----
   D07: the initial fluents are not [safe_repeats] (some fluent with a repeated argument is not written the way the
        library prints it, or two different fluents of one function have the same distinct arguments), or some
        fluent in a numeric goal has a repeated argument;
   D19d: some fluent of a numeric goal is applied to undeclared or ill-typed arguments (its arity being right). *)
Fixpoint nexp_has_repeat (n : nexp) : bool :=
  match n with
  | Pddl.NNum _ => false
  | Pddl.NFl _ args => has_dup_name args
  | Pddl.NBin _ a b => nexp_has_repeat a || nexp_has_repeat b
  end.

Definition known_class (v : vocab) (c : pcase) : bool :=
  match spec_problem c with
  | Some sp =>
      negb (safe_repeats sp)
      || existsb (fun g => match g with (_, l, r) => nexp_has_repeat l || nexp_has_repeat r end) (sp_goal_num sp)
      || existsb (fun g => match g with (_, l, r) =>
                             negb (nexp_ok v (sp_objects sp) l && nexp_ok v (sp_objects sp) r) end) (sp_goal_num sp)
  | None => false
  end.

Definition judge (v : vocab) (c : pcase) : verdict :=
  {| v_agree := obs_eqb pdump_agree (model_obs v c) (c_obs c);
     v_ok := spec_ok v c && expect_ok c;
     v_known := known_class v c |}.

Definition run (ws : list world) : string :=
  t2s (flat_map (fun w => map (fun c => verdict_char (judge (w_vocab w) c)) (w_cases w)) ws).

(* debugging aid *)
Definition explain (w : world) :=
  map (fun c => (model_obs (w_vocab w) c, spec_problem c,
                 match spec_problem c with Some sp => Some (wf_sproblem (numtab c) (w_vocab w) sp) | None => None end,
                 known_class (w_vocab w) c)) (w_cases w).
