(* Correspondence for C06: a (:types ...) section written as groups + trailing names; what the implementation
   answered (Domain.types keys, all-pairs is_sub_type table, and - for site cases - which (object type T,
   required type R) pairs every type-checking / type-ranging place accepted), versus
     model : Model.Types.parse_types / is_sub_type, Model.TypeSites, Model.Domain + Model.Exec (forall sites)
     spec  : Spec.Types.closure_b on the declarations (proved = clos_refl_trans in Proofs/C06_Oracle.v). *)
From Coq Require Import List Ascii String Bool Arith PrimFloat.
From Verif Require Import Base.Result Base.Str Base.Sexp Base.PyDict
  Model.Tokenizer Model.Types Model.Domain Model.Exec Model.TypeSites Spec.Pddl Spec.Types Corr.Common.
Import ListNotations.
Open Scope string_scope.
Open Scope list_scope.

Infix "+++" := String.append (at level 60, right associativity).

(* ---------- canonical text ---------- *)
Fixpoint insert_sorted (x : string) (l : list string) : list string :=
  match l with
  | [] => [x]
  | y :: r => if String.leb x y then x :: l else y :: insert_sorted x r
  end.
Definition sort_strings (l : list string) : list string := fold_right insert_sorted [] l.
Fixpoint dedup (l : list string) : list string :=
  match l with [] => [] | x :: r => if str_in x r then dedup r else x :: dedup r end.

Definition bit (b : bool) : ascii := if b then "1"%char else "0"%char.
(* row-major matrix over names: row = the object's / left type, column = the required / right type *)
Definition matrix (names : list string) (f : string -> string -> ascii) : string :=
  t2s (flat_map (fun x => map (fun y => f x y) names) names).

(* ---------- cases ---------- *)
Record sites := {
  s_text : string;                       (* the domain text, escaped *)
  s_objs : list (string * string);       (* problem objects in file order: name -> type *)
  s_obs : list (string * string)         (* site kind -> observed matrix ('1' accepted / in range, '0' not, 'E' error) *)
}.

(* several quantifiers in ONE action (harness/props/c06.py:quant_domain_text): each action a<i> has the shape qa_shape and
   its j-th quantifier ranges over the type (nth j qa_types); qa_obs = one row of bits over q_ents per quantifier *)
Record qaction := { qa_name : string; qa_shape : string; qa_types : list string; qa_obs : string }.
Record quant := {
  q_text : string;                       (* the domain text, escaped *)
  q_objs : list (string * string);       (* problem objects in file order: name -> type *)
  q_ents : list (string * string);       (* the objects, then the constants k<T>: everything a quantifier can range over *)
  q_acts : list qaction
}.

Record case := {
  c_groups : list group;
  c_trailing : list string;
  c_names : list string;                 (* the names the tables range over (the section's type names, sorted) *)
  c_types : obs string;                  (* sorted keys of Domain.types joined by ',' - or the parse raised *)
  c_table : string;                      (* all-pairs is_sub_type matrix over c_names; "" when raised *)
  c_edges : string;                      (* create_type_hierarchy_graph: sorted 'child<parent' joined by ','; "" when raised *)
  c_sites : option sites;
  c_quant : option quant;
  c_raw : option (list sexp)             (* Some toks: the section is this token list, not render c_groups c_trailing
                                            (shapes outside the grammar of sections: compared with the model only) *)
}.

Definition the_decls (c : case) : list decl := decls (c_groups c) (c_trailing c).

(* ---------- model ---------- *)
Definition model_table (c : case) : result typetable :=
  match c_raw c with
  | Some toks => parse_types_code toks      (* the local copy with the '- (x)' corner (Model/TypeSites.v); = parse_types on every
                                               rendered section (Proofs/C06_Trajectory.parse_types_code_render_lemma) *)
  | None => parse_types (render (c_groups c) (c_trailing c))
  end.

Definition model_types (c : case) : obs string :=
  obs_of_result (do T <- model_table c; Ok (join "," (sort_strings (type_names T)))).

Definition model_matrix (c : case) : string :=
  match model_table c with
  | Ok T => matrix (c_names c) (fun x y => if type_known T x && type_known T y then bit (is_sub_type T x y) else "?"%char)
  | Err _ => ""
  end.

Definition show_edges (l : list (string * string)) : string :=
  join "," (sort_strings (dedup (map (fun kv => fst kv +++ "<" +++ snd kv) l))).
Definition model_edges (c : case) : string :=
  match model_table c with Ok T => show_edges T | Err _ => "" end.

(* naming conventions of the generated site domain (harness/props/c06.py) *)
Definition obj_of (t : string) := "o" +++ t.
Definition const_of (t : string) := "k" +++ t.
Definition eps0 : float := 0%float.

Definition site_domain (s : sites) : result mdomain :=
  do e <- parse MFile (unesc (s_text s)); parse_domain (fun _ => None) e.

Definition ok_bit {A} (r : result A) : ascii := match r with Ok _ => "1"%char | Err _ => "0"%char end.

Definition all_m (s : sites) (except : string) : state :=
  {| facts := map (fun o => ("m", [fst o])) (filter (fun o => negb (String.eqb (fst o) except)) (s_objs s));
     fluents := [] |}.

Definition m_app (d : mdomain) (s : sites) (act : string) (st : state) : result bool :=
  match dget (d_actions d) act with
  | None => Err EKey
  | Some a => do ga <- ground_action d a []; is_applicable d eps0 (Some (s_objs s)) ga st
  end.

Definition m_succ (d : mdomain) (s : sites) (act : string) (st : state) : result state :=
  match dget (d_actions d) act with
  | None => Err EKey
  | Some a => do ga <- ground_action d a [];
              apply_op d eps0 ga (Some (s_objs s)) false false [0] [0] st
  end.

(* the object table as the library's pipeline passes it to Operator *)
Definition pipeline_sites (d : mdomain) (s : sites) : sites :=
  {| s_text := s_text s; s_objs := pipeline_objects d (s_objs s); s_obs := s_obs s |}.

Definition all_m_consts (s : sites) (names : list string) (except : string) : state :=
  {| facts := map (fun o => ("m", [o]))
                  (filter (fun o => negb (String.eqb o except)) (map fst (s_objs s) ++ map const_of names));
     fluents := [] |}.

Definition model_site (d : mdomain) (s : sites) (names : list string) (kind t r : string) : ascii :=
  if String.eqb kind "fact" then ok_bit (problem_fact d (s_objs s) ("q" +++ r) [obj_of t])
  else if String.eqb kind "goal" then ok_bit (problem_fact d (s_objs s) ("q" +++ r) [obj_of t])
  else if String.eqb kind "fact2" then ok_bit (problem_fact d (s_objs s) ("w" +++ r) ["zz"; obj_of t])
  else if String.eqb kind "fluent" then ok_bit (problem_fluent d (s_objs s) ("f" +++ r) [obj_of t])
  else if String.eqb kind "fluent2" then ok_bit (problem_fluent d (s_objs s) ("g" +++ r) ["zz"; obj_of t])
  else if String.eqb kind "cfact" then ok_bit (problem_fact d (s_objs s) ("q" +++ r) [const_of t])
  else if String.eqb kind "cfluent" then ok_bit (problem_fluent d (s_objs s) ("f" +++ r) [const_of t])
  else if String.eqb kind "tfluent" then ok_bit (trajectory_fluent d (s_objs s) ("f" +++ r) [obj_of t])
  else if String.eqb kind "tfact" then ok_bit (trajectory_fact d (s_objs s) ("q" +++ r) [obj_of t])
  else if String.eqb kind "forall_pre" then
    (* every (m x) holds, for objects and constants, except for the object of type t: the forall over r fails iff that object is in range *)
    match m_app d s ("chk" +++ r) (all_m_consts s names (obj_of t)) with
    | Ok b => bit (negb b) | Err _ => "E"%char end
  else if String.eqb kind "forall_eff" then
    match m_succ d s ("eff" +++ r) (all_m s "") with
    | Ok st => bit (atom_in ("hit", [obj_of t]) (facts st)) | Err _ => "E"%char end
  else if String.eqb kind "joint_eff" then
    (* joint execution of eff<r> with chkobject: the members' operators get the problem objects; the bits
       observed are those of eff<r> *)
    match m_succ d s ("eff" +++ r) (all_m_consts s names "") with
    | Ok st => bit (atom_in ("hit", [obj_of t]) (facts st)) | Err _ => "E"%char end
  else if String.eqb kind "cforall_pre" then
    (* through the library's pipeline: every (m x) holds, for objects and constants, except for the CONSTANT of type t *)
    match m_app d (pipeline_sites d s) ("chk" +++ r) (all_m_consts s names (const_of t)) with
    | Ok b => bit (negb b) | Err _ => "E"%char end
  else if String.eqb kind "cforall_eff" then
    match m_succ d (pipeline_sites d s) ("eff" +++ r) (all_m_consts s names "") with
    | Ok st => bit (atom_in ("hit", [const_of t]) (facts st)) | Err _ => "E"%char end
  else "?"%char.

(* ---------- the same object / constant at two or three positions ---------- *)
Definition starts_with (pre s : string) : bool := String.eqb (substring 0 (String.length pre) s) pre.
Definition is_rep_kind (k : string) : bool := starts_with "rep" k.
Definition rep_arity (k : string) : nat := if starts_with "rep3" k then 3 else 2.
Definition rep_what (k : string) : string :=            (* the text after the first '_' *)
  if starts_with "rep3m_" k || starts_with "rep3e_" k then substring 6 (String.length k) k else substring 5 (String.length k) k.

Fixpoint tuples (names : list string) (n : nat) : list (list string) :=
  match n with
  | 0 => [[]]
  | S m => flat_map (fun x => map (fun r => x :: r) (tuples names m)) names
  end.
(* row-major over (T, R1, ..., Rn) *)
Definition cube (names : list string) (n : nat) (f : string -> list string -> ascii) : string :=
  t2s (flat_map (fun t => map (fun rs => f t rs) (tuples names n)) names).

Definition rep_args (k who : string) : list string :=
  if starts_with "rep3m" k then [who; "zz"; who]
  else if starts_with "rep3e" k then [who; who; "zz"] else repeat who (rep_arity k).
Definition rep_symbol (k : string) (rs : list string) : string :=
  (if Nat.eqb (rep_arity k) 2 then "b_" else "c_") +++ join "_" rs.

Definition model_rep (d : mdomain) (s : sites) (k t : string) (rs : list string) : ascii :=
  let what := rep_what k in
  let who := (if String.eqb what "cfact" || String.eqb what "cfluent" then const_of t else obj_of t) in
  let args := rep_args k who in
  if String.eqb what "fact" || String.eqb what "goal" || String.eqb what "cfact" then
    ok_bit (problem_fact d (s_objs s) (rep_symbol k rs) args)
  else if String.eqb what "fluent" || String.eqb what "cfluent" then
    ok_bit (problem_fluent d (s_objs s) ("f" +++ rep_symbol k rs) args)
  else if String.eqb what "tfluent" then
    ok_bit (trajectory_fluent d (s_objs s) ("f" +++ rep_symbol k rs) args)
  else "?"%char.

Definition model_sites (c : case) (s : sites) : list (string * string) :=
  match site_domain s with
  | Err _ => map (fun ko => (fst ko, "")) (s_obs s)
  | Ok d => map (fun ko => (fst ko,
                           if is_rep_kind (fst ko)
                           then cube (c_names c) (rep_arity (fst ko)) (model_rep d s (fst ko))
                           else matrix (c_names c) (model_site d s (c_names c) (fst ko)))) (s_obs s)
  end.

(* ---------- several quantifiers in one action ---------- *)
Definition digit_of (j : nat) : string :=
  match j with 0 => "1" | 1 => "2" | 2 => "3" | 3 => "4" | _ => "9" end.
(* every (m<k> e) for k <= rows and e in the entities, except (m<j> e) for skip = Some (j, e) (j counted from 0) *)
Definition q_state (q : quant) (rows : nat) (skip : option (nat * string)) : state :=
  {| facts := flat_map (fun k => flat_map (fun e =>
                 match skip with
                 | Some (j, x) => if Nat.eqb j k && String.eqb x (fst e) then [] else [("m" +++ digit_of k, [fst e])]
                 | None => [("m" +++ digit_of k, [fst e])]
                 end) (q_ents q)) (seq 0 rows);
     fluents := [] |}.

Definition q_app (d : mdomain) (q : quant) (act : string) (st : state) : result bool :=
  match dget (d_actions d) act with
  | None => Err EKey
  | Some a => do ga <- ground_action d a [];
              is_applicable d eps0 (Some (pipeline_objects d (q_objs q))) ga st
  end.
Definition q_succ (d : mdomain) (q : quant) (act : string) (st : state) : result state :=
  match dget (d_actions d) act with
  | None => Err EKey
  | Some a => do ga <- ground_action d a [];
              apply_op d eps0 ga (Some (pipeline_objects d (q_objs q))) false false
                       (seq 0 (List.length (ga_groups ga))) (seq 0 (List.length (ma_univ a))) st
  end.

Fixpoint seq_results {A} (l : list (result A)) : result (list A) :=
  match l with
  | [] => Ok []
  | Ok x :: r => match seq_results r with Ok xs => Ok (x :: xs) | Err k => Err k end
  | Err k :: _ => Err k
  end.
Definition rows_text (rs : result (list (list bool))) : string :=
  match rs with
  | Ok rows => join "|" (map (fun row => t2s (map bit row)) rows)
  | Err _ => "E"
  end.

Definition model_qaction (d : mdomain) (q : quant) (a : qaction) : string :=
  let n := List.length (qa_types a) in
  let sh := qa_shape a in
  let per (f : nat -> string -> result bool) : result (list (list bool)) :=
    seq_results (map (fun j => seq_results (map (fun e => f j (fst e)) (q_ents q))) (seq 0 n)) in
  if String.eqb sh "eff" then
    rows_text (do st <- q_succ d q (qa_name a) (q_state q n None);
               per (fun j e => Ok (atom_in ("hit" +++ digit_of j, [e]) (facts st))))
  else if String.eqb sh "pre" || String.eqb sh "npre" then
    rows_text (per (fun j e => do b <- q_app d q (qa_name a) (q_state q n (Some (j, e))); Ok (negb b)))
  else if String.eqb sh "when" then
    rows_text (per (fun j e => do st <- q_succ d q (qa_name a) (q_state q n (Some (j, e)));
                               Ok (negb (atom_in ("fin", ["kobject"]) (facts st)))))
  else if String.eqb sh "neff" then
    rows_text (do st <- q_succ d q (qa_name a) (q_state q n None);
               do row2 <- seq_results (map (fun e =>
                             do st2 <- q_succ d q (qa_name a) (q_state q n (Some (1, fst e)));
                             Ok (negb (existsb (fun f => String.eqb (fst f) "hit1") (facts st2)))) (q_ents q));
               Ok [map (fun e => atom_in ("hit1", [fst e]) (facts st)) (q_ents q); row2])
  else "?".

Definition quant_domain (q : quant) : result mdomain :=
  do e <- parse MFile (unesc (q_text q)); parse_domain (fun _ => None) e.
Definition model_quant (q : quant) : list string :=
  match quant_domain q with
  | Err _ => map (fun _ => "") (q_acts q)
  | Ok d => map (model_qaction d q) (q_acts q)
  end.

(* the spec: the j-th quantifier of an action touches the entity e exactly when e's declared type is a subtype of the
   j-th quantified type; for the nested shapes the inner quantifier is evaluated once per object of the outer one *)
Definition spec_qaction (ds : list decl) (q : quant) (a : qaction) : string :=
  let inr (j : nat) (e : string * string) : bool := closure_b ds (snd e) (nth j (qa_types a) "?") in
  let nonempty (j : nat) : bool := existsb (inr j) (q_ents q) in
  let sh := qa_shape a in
  let row (f : string * string -> bool) : string := t2s (map (fun e => bit (f e)) (q_ents q)) in
  if String.eqb sh "npre" then join "|" [row (inr 0); row (fun e => inr 1 e && nonempty 0)]
  else if String.eqb sh "neff" then join "|" [row (inr 0); row (fun e => if nonempty 0 then inr 1 e else true)]
  else join "|" (map (fun j => row (inr j)) (seq 0 (List.length (qa_types a)))).

(* the text really contains the section the spec is asked about *)
Fixpoint sexps_eqb (a b : list sexp) : bool :=
  match a, b with
  | [], [] => true
  | x :: xs, y :: ys => sexp_eqb x y && sexps_eqb xs ys
  | _, _ => false
  end.
Definition types_body (e : sexp) : option (list sexp) :=
  match e with
  | SList l =>
      match find (fun x => match x with SList (Atom h :: _) => String.eqb h ":types" | _ => false end) l with
      | Some (SList (_ :: body)) => Some body
      | _ => None
      end
  | _ => None
  end.
Definition text_consistent_q (c : case) (q : quant) : bool :=
  match parse MFile (unesc (q_text q)) with
  | Ok e => match types_body e with
            | Some b => sexps_eqb b (render (c_groups c) (c_trailing c))
            | None => false end
  | Err _ => false
  end.
Definition text_consistent (c : case) (s : sites) : bool :=
  match parse MFile (unesc (s_text s)) with
  | Ok e => match types_body e with
            | Some b => sexps_eqb b (render (c_groups c) (c_trailing c))
            | None => false end
  | Err _ => false
  end.

(* ---------- spec ---------- *)
Definition spec_names (c : case) : list string :=
  sort_strings (dedup ("object" :: map fst (the_decls c) ++ map snd (the_decls c))).

Definition spec_matrix (c : case) : string :=
  matrix (c_names c) (fun x y => bit (closure_b (the_decls c) x y)).

(* the hierarchy graph: the declared pairs, and every name used only as a parent hangs under object *)
Definition spec_edges (c : case) : string :=
  let ds := the_decls c in
  show_edges (ds ++ map (fun p => (p, "object"))
                        (filter (fun p => negb (str_in p (map fst ds)) && negb (String.eqb p "object")) (map snd ds))).

(* kinds the property speaks about; 'tfact' (TrajectoryParser performs NO type check on facts: not a place that checks
   types, so the property's sentence does not speak about it) is compared with the model only.  Trajectory FLUENTS are
   checked by the library, so they are judged, repeated arguments included (finding D31, repaired). *)
Definition judged_kind (k : string) : bool := negb (String.eqb k "tfact").

(* repeated arguments: accepted iff EVERY position's type is a subtype of the type required at that position
   ('zz' in the middle of the rep3m pattern has the type object) *)
Definition spec_rep (c : case) (k : string) : string :=
  cube (c_names c) (rep_arity k)
       (fun t rs =>
          let tys := if starts_with "rep3m" k then [t; "object"; t]
                     else if starts_with "rep3e" k then [t; t; "object"] else repeat t (rep_arity k) in
          bit (forallb (fun tr => closure_b (the_decls c) (fst tr) (snd tr)) (combine tys rs))).
Definition spec_site (c : case) (k : string) : string :=
  if is_rep_kind k then spec_rep c k else matrix (c_names c) (fun x y => bit (closure_b (the_decls c) x y)).

Definition plain_b (c : case) : bool :=
  forallb (fun n => negb (String.eqb n "-")) (flat_map fst (c_groups c) ++ c_trailing c).

Definition is_forest (c : case) : bool := forest_b (the_decls c) && plain_b c.
Definition is_cyclic (c : case) : bool := cyclic_b (the_decls c).

Definition spec_ok (c : case) : bool :=
  if match c_raw c with Some _ => true | None => false end then true    (* not a section of the grammar: no expectation *)
  else if is_forest c then
    obs_eqb String.eqb (Returned (join "," (spec_names c))) (c_types c) &&
    String.eqb (spec_matrix c) (c_table c) &&
    String.eqb (spec_edges c) (c_edges c) &&
    match c_sites c with
    | None => true
    | Some s => forallb (fun ko => negb (judged_kind (fst ko)) || String.eqb (spec_site c (fst ko)) (snd ko)) (s_obs s)
    end &&
    match c_quant c with
    | None => true
    | Some q => forallb (fun a => String.eqb (spec_qaction (the_decls c) q a) (qa_obs a)) (q_acts q)
    end
  else if is_cyclic c && nodup_b (map fst (the_decls c)) && negb (str_in "object" (map fst (the_decls c))) then   (* wf_section and cyclic: C06_cyclic_rejected *)
    match c_types c with Raised => true | Returned _ => false end
  else true.                                                  (* two parents / object as a child: no expectation from the property
                                                                 (what the model does there: Props/C06.v C06_any_section_* ) *)

Definition agree (c : case) : bool :=
  obs_eqb String.eqb (model_types c) (c_types c) &&
  String.eqb (model_matrix c) (c_table c) &&
  String.eqb (model_edges c) (c_edges c) &&
  match c_sites c with
  | None => true
  | Some s =>
      text_consistent c s &&
      forallb (fun mo => String.eqb (snd (fst mo)) (snd (snd mo))) (combine (model_sites c s) (s_obs s))
  end &&
  match c_quant c with
  | None => true
  | Some q =>
      text_consistent_q c q &&
      forallb (fun mo => String.eqb (fst mo) (qa_obs (snd mo))) (combine (model_quant q) (q_acts q))
  end.

(* D30 (quantifiers never ranged over the domain's constants) is repaired in /repo: the constant-quantification kinds
   cforall_pre / cforall_eff are ordinary cases now, judged like every other site.
   D31 (TrajectoryParser checked a fluent with a REPEATED argument through a dict keyed by the object name) is repaired too
   (3c74fae): the kinds rep*_tfluent are ordinary cases, judged positionally.  No recorded finding class is left. *)
Definition known_class (c : case) : bool := false.

(* compact literal of a case without sites: the names the tables range over are the section's type names *)
Definition tc (gs : list group) (tr : list string) (types : obs string) (table edges : string) : case :=
  let c0 := {| c_groups := gs; c_trailing := tr; c_names := []; c_types := types; c_table := table;
               c_edges := edges; c_sites := None; c_quant := None; c_raw := None |} in
  {| c_groups := gs; c_trailing := tr; c_names := spec_names c0; c_types := types; c_table := table;
     c_edges := edges; c_sites := None; c_quant := None; c_raw := None |}.

Definition judge (c : case) : verdict := {| v_agree := agree c; v_ok := spec_ok c; v_known := known_class c |}.
Definition run (cases : list case) : string := summary judge cases.

Definition explain (c : case) :=
  (model_types c, model_matrix c, model_edges c, join "," (spec_names c), spec_matrix c, spec_edges c, (is_forest c, is_cyclic c),
   match c_sites c with Some s => (text_consistent c s, model_sites c s) | None => (true, []) end,
   match c_quant c with
   | Some q => (text_consistent_q c q,
                map (fun a => (qa_name a, qa_shape a, qa_types a, spec_qaction (the_decls c) q a)) (q_acts q), model_quant q)
   | None => (true, [], [])
   end).
