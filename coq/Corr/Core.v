(* Correspondence for the semantic core (C01, C02, C03, C20 and the properties built on them):
   a "world" is one domain text plus probes (state, action call) with what the implementation answered. *)
From Coq Require Import List Ascii String Bool Arith PrimFloat.
From Verif Require Import Base.Result Base.Str Base.Sexp Base.PyDict Base.Float
  Model.Tokenizer Model.Types Model.Domain Model.Exec Spec.Pddl Spec.Grammar Corr.Common.
Import ListNotations.
Open Scope string_scope.
Open Scope list_scope.

(* ---------- canonical text ---------- *)
Fixpoint insert_sorted (x : string) (l : list string) : list string :=
  match l with
  | [] => [x]
  | y :: r => if String.leb x y then x :: l else y :: insert_sorted x r
  end.
Definition sort_strings (l : list string) : list string := fold_right insert_sorted [] l.

Infix "+++" := String.append (at level 60, right associativity).
Definition show_sig (sg : list (string * string)) : string :=
  join "," (map (fun pt => fst pt +++ ":" +++ snd pt) sg).
Definition show_decl (n : string) (sg : list (string * string)) : string := n +++ "(" +++ show_sig sg +++ ")".

Definition vocab_text (types consts : list (string * string))
           (preds funcs acts : list (string * list (string * string))) : string :=
  "T[" +++ join "," (sort_strings (map (fun ct => fst ct +++ "<" +++ snd ct) types)) +++ "]" +++
  "C[" +++ join "," (sort_strings (map (fun ct => fst ct +++ ":" +++ snd ct) consts)) +++ "]" +++
  "P[" +++ join ";" (sort_strings (map (fun d => show_decl (fst d) (snd d)) preds)) +++ "]" +++
  "F[" +++ join ";" (sort_strings (map (fun d => show_decl (fst d) (snd d)) funcs)) +++ "]" +++
  "A[" +++ join ";" (sort_strings (map (fun d => show_decl (fst d) (snd d)) acts)) +++ "]".

Definition model_vocab (d : mdomain) : string :=
  vocab_text (d_types d) (d_consts d) (d_preds d) (d_funcs d)
             (map (fun na => (fst na, ma_sig (snd na))) (d_actions d)).

(* spec: every name that occurs in (:types ...) is a type; a parent that is never declared hangs under object *)
Fixpoint dedup_keys (l : list (string * string)) (seen : list string) : list (string * string) :=
  match l with
  | [] => []
  | (k, v) :: r => if str_in k seen then dedup_keys r seen else (k, v) :: dedup_keys r (k :: seen)
  end.
Definition spec_type_rows (tt : tytree) : list (string * string) :=
  let declared := map fst tt in
  let parent_only := filter (fun p => negb (str_in p declared) && negb (String.eqb p "object")) (map snd tt) in
  filter (fun kv => negb (String.eqb (fst kv) "object"))
         (dedup_keys (tt ++ map (fun p => (p, "object")) parent_only) []).

Definition spec_vocab (d : sdomain) : string :=
  vocab_text (spec_type_rows (sd_types d)) (sd_consts d) (sd_preds d) (sd_funcs d)
             (map (fun a => (a_name a, a_params a)) (sd_actions d)).

(* ---------- states as observed ---------- *)
Definition float_eq (x y : float) : bool := float_beq x y.

Definition fluents_subset (a b : list (atom * float)) : bool :=
  forallb (fun kv => match fluent_get (fst kv) b with Some v => float_eq v (snd kv) | None => false end) a.
Definition state_equiv (a b : state) : bool :=
  facts_equiv (facts a) (facts b) && fluents_subset (fluents a) (fluents b) && fluents_subset (fluents b) (fluents a).

(* ---------- cases ---------- *)
Record probe := {
  p_action : string;
  p_args : list string;
  p_state : state;
  p_app : obs bool;                 (* Operator(action, domain, args, objects).is_applicable(state) *)
  p_order : list nat;               (* order in which the implementation visited its effect groups (0 = unconditional) *)
  p_uorder : list nat;              (* order of the universal effects *)
  p_succ : obs state                (* Operator.apply(state), default flags; Raised also when refused *)
}.

Record world := {
  w_text : string;                  (* domain text, escaped *)
  w_nums : list (string * float);   (* float(token) for every token the implementation's float() accepts *)
  w_eps : float;
  w_objs : objects;
  w_oof : bool;                     (* generated outside the supported fragment: 'faithful or exception' *)
  w_parsed : obs string;            (* vocabulary of the parsed Domain, or raised *)
  w_probes : list probe
}.

Definition numtab (w : world) : string -> option float := fun s => lookup s (w_nums w).

Definition world_sexp (w : world) : result sexp := parse MFile (unesc (w_text w)).

Definition model_domain (w : world) : result mdomain :=
  do e <- world_sexp w; parse_domain (numtab w) e.

Definition spec_domain (w : world) : option sdomain :=
  match world_sexp w with Ok e => read_domain (numtab w) e | Err _ => None end.

(* the table an Operator ranges over (Operator.quantification_objects, D30): constants, then the problem's objects *)
Definition m_objs (w : world) (d : mdomain) : objects := quantification_objects d (w_objs w).
Definition s_objs (w : world) (d : sdomain) : objects := dupdate (sd_consts d) (w_objs w).

(* ----- model answers for a probe ----- *)
Definition model_app (w : world) (d : mdomain) (p : probe) : obs bool :=
  obs_of_result
    (match dget (d_actions d) (p_action p) with
     | None => Err EKey
     | Some a => do ga <- ground_action d a (p_args p);
                 is_applicable d (w_eps w) (Some (m_objs w d)) ga (p_state p)
     end).

Definition model_succ (w : world) (d : mdomain) (p : probe) : obs state :=
  obs_of_result
    (match dget (d_actions d) (p_action p) with
     | None => Err EKey
     | Some a => do ga <- ground_action d a (p_args p);
                 apply_op d (w_eps w) ga (Some (m_objs w d)) false false (p_order p) (p_uorder p) (p_state p)
     end).

(* ----- spec answers for a probe ----- *)
Definition find_action (d : sdomain) (n : string) : option action :=
  find (fun a => String.eqb (a_name a) n) (sd_actions d).

Definition spec_tt (d : sdomain) : tytree := spec_type_rows (sd_types d).

Definition spec_app (w : world) (d : sdomain) (p : probe) : option bool :=
  match find_action d (p_action p) with
  | Some a => Some (applicable (w_eps w) (spec_tt d) (s_objs w d) a (p_args p) (p_state p))
  | None => None
  end.

Definition spec_succ (w : world) (d : sdomain) (p : probe) : option (obs state) :=
  match find_action d (p_action p) with
  | Some a =>
      if applicable (w_eps w) (spec_tt d) (s_objs w d) a (p_args p) (p_state p)
      then Some (Returned (successor (w_eps w) (spec_tt d) (s_objs w d) a (p_args p) (p_state p)))
      else Some Raised                                   (* refused: an error *)
  | None => None
  end.

Definition obs_raised {A} (o : obs A) : bool := match o with Raised => true | _ => false end.

(* ----- verdicts: one for the world (parsing / vocabulary), then per probe one for applicability and one for
         the successor ----- *)
Definition world_verdict (w : world) : verdict :=
  let m := match model_domain w with Ok d => Returned (model_vocab d) | Err _ => Raised end in
  let agree := obs_eqb String.eqb m (w_parsed w) in
  let ok :=
    match w_parsed w with
    | Raised => true
    | Returned v =>
        if w_oof w then
          (* accepted although outside the fragment: then it must be faithful, or every use must raise *)
          match spec_domain w with
          | Some sd => String.eqb (spec_vocab sd) v
          | None => forallb (fun p => obs_raised (p_app p) && obs_raised (p_succ p)) (w_probes w)
          end
        else match spec_domain w with Some sd => String.eqb (spec_vocab sd) v | None => false end
    end in
  {| v_agree := agree; v_ok := ok; v_known := false |}.

Definition probe_verdicts (w : world) (p : probe) : list verdict :=
  let md := model_domain w in
  let sd := spec_domain w in
  let m_app := match md with Ok d => model_app w d p | Err _ => Raised end in
  let m_succ := match md with Ok d => model_succ w d p | Err _ => Raised end in
  let ok_app :=
    match sd with
    | Some d => match spec_app w d p with
                | Some b => obs_eqb Bool.eqb (Returned b) (p_app p)
                | None => obs_raised (p_app p) end
    | None => obs_raised (p_app p)
    end in
  let consistent_probe :=
    match sd with
    | Some d => match find_action d (p_action p) with
                | Some a => consistent (all_groups (w_eps w) (spec_tt d) (s_objs w d) a (p_args p) (p_state p))
                | None => true end
    | None => true
    end in
  let ok_succ :=
    if negb consistent_probe then true else
    match sd with
    | Some d => match spec_succ w d p with
                | Some o => obs_eqb state_equiv o (p_succ p)
                | None => obs_raised (p_succ p) end
    | None => obs_raised (p_succ p)
    end in
  [ {| v_agree := obs_eqb Bool.eqb m_app (p_app p); v_ok := ok_app; v_known := false |};
    {| v_agree := negb consistent_probe || obs_eqb state_equiv m_succ (p_succ p); v_ok := ok_succ; v_known := false |} ].

Definition judge_world (w : world) : list verdict :=
  match w_parsed w with
  | Raised => [world_verdict w]
  | Returned _ => world_verdict w :: flat_map (probe_verdicts w) (w_probes w)
  end.

Definition run (ws : list world) : string :=
  t2s (map verdict_char (flat_map judge_world ws)).

(* debugging aid *)
Definition explain (w : world) :=
  (match model_domain w with Ok d => Returned (model_vocab d) | Err k => Raised end,
   match spec_domain w with Some sd => Some (spec_vocab sd) | None => None end,
   map (fun p => (match model_domain w with Ok d => (model_app w d p, model_succ w d p) | Err _ => (Raised, Raised) end,
                  match spec_domain w with Some sd => (spec_app w sd p, spec_succ w sd p) | None => (None, None) end))
       (w_probes w)).
