(* Correspondence for C04: TrajectoryExporter.parse_plan / export and direct Operator.apply on one
   (domain, problem, plan, allow flag), versus the model (Model/Plan.v) and the spec (Spec/Plan.v over Spec.Pddl). *)
From Coq Require Import List Ascii String Bool Arith PrimFloat.
From Verif Require Import Base.Result Base.Str Base.Sexp Base.PyDict Base.Float
  Model.Tokenizer Model.Types Model.Domain Model.Exec Model.Plan Spec.Pddl Spec.Grammar Spec.Plan Corr.Common Corr.Core.
Import ListNotations.
Open Scope string_scope.
Open Scope list_scope.

(* what a direct Operator(...).apply(pre, allow) did: returned a state / raised ValueError / raised something else *)
Inductive dobs := DRet (s : state) | DRefused | DRaised.

Record step_obs := { so_pre : mstate; so_op : string; so_post : mstate; so_direct : dobs }.

Record case := {
  c_text : string;                      (* domain text, escaped *)
  c_nums : list (string * float);       (* float(token) for the numerals of the domain and of the exported text *)
  c_eps : float;
  c_objs : objects;                     (* problem.objects *)
  c_init : state;                       (* the initial state the problem text was written from *)
  c_plan : list string;                 (* plan lines, escaped *)
  c_allow : bool;                       (* TrajectoryExporter(domain, allow_invalid_actions) *)
  c_strict : bool;                      (* every line is a well-formed, type-correct call: the spec judges the case *)
  c_expect_raise : bool;                (* the generator knows parse_plan must raise (unknown action, blank line) *)
  c_trace : obs (list step_obs);        (* parse_plan: the triplets, or raised *)
  c_export : obs string                 (* "".join(export(triplets)), escaped; Raised when parse_plan raised *)
}.

Definition c_numtab (c : case) : string -> option float := fun s => lookup s (c_nums c).
Definition c_sexp (c : case) : result sexp := parse MFile (unesc (c_text c)).
Definition c_mdomain (c : case) : result mdomain := do e <- c_sexp c; parse_domain (c_numtab c) e.
Definition c_sdomain (c : case) : option sdomain :=
  match c_sexp c with Ok e => read_domain (c_numtab c) e | Err _ => None end.
Definition c_lines (c : case) : list string := map unesc_s (c_plan c).

(* ---------- comparison of observations ---------- *)
Definition mstate_eqb (a b : mstate) : bool := Bool.eqb (ms_init a) (ms_init b) && state_equiv (ms_st a) (ms_st b).

Definition dobs_of (r : result state) : dobs :=
  match r with Ok s => DRet s | Err EValue => DRefused | Err _ => DRaised end.
Definition dobs_eqb (a b : dobs) : bool :=
  match a, b with
  | DRet s, DRet t => state_equiv s t
  | DRefused, DRefused | DRaised, DRaised => true
  | _, _ => false
  end.

Fixpoint list_eqb2 {A B} (f : A -> B -> bool) (a : list A) (b : list B) : bool :=
  match a, b with
  | [], [] => true
  | x :: xs, y :: ys => f x y && list_eqb2 f xs ys
  | _, _ => false
  end.

(* ---------- reading the exported text back (with the model's reader) ---------- *)
Definition read_atom (e : sexp) : option atom :=
  match e with
  | SList (Atom p :: args) => match atom_names args with Some a => Some (p, a) | None => None end
  | _ => None
  end.

Fixpoint read_state_items (num : string -> option float) (l : list sexp) (acc : state) : option state :=
  match l with
  | [] => Some acc
  | SList [Atom "="; fl; Atom v] :: r =>
      match read_atom fl, num v with
      | Some a, Some x => read_state_items num r {| facts := facts acc; fluents := fluents acc ++ [(a, x)] |}
      | _, _ => None
      end
  | e :: r =>
      match read_atom e with
      | Some a => read_state_items num r {| facts := facts acc ++ [a]; fluents := fluents acc |}
      | None => None
      end
  end.

Definition read_op (e : sexp) : option string :=
  match read_atom e with Some (n, args) => Some (op_text n args) | None => None end.

Definition read_xitem (num : string -> option float) (e : sexp) : option xitem :=
  match e with
  | SList (Atom h :: items) =>
      if String.eqb h ":init" || String.eqb h ":state" then
        match read_state_items num items {| facts := []; fluents := [] |} with
        | Some s => Some (XState {| ms_init := String.eqb h ":init"; ms_st := s |})
        | None => None
        end
      else if String.eqb h "operator:" || String.eqb h "operators:" then
        match all_some (map read_op items) with Some ts => Some (XOp ts) | None => None end
      else None
  | _ => None
  end.

Definition read_export (num : string -> option float) (txt : text) : option (list xitem) :=
  match parse MStr txt with
  | Ok (SList items) => all_some (map (read_xitem num) items)
  | _ => None
  end.

Definition xitem_eqb (a b : xitem) : bool :=
  match a, b with
  | XState s, XState t => mstate_eqb s t
  | XOp x, XOp y => list_eqb String.eqb x y
  | _, _ => false
  end.

(* the exported items that belong to an observed trace *)
Definition items_of_trace (tr : list step_obs) : option (list xitem) :=
  match tr with
  | [] => None
  | t :: _ => Some (XState (so_pre t) :: flat_map (fun t => [XOp [so_op t]; XState (so_post t)]) tr)
  end.

(* a malformed line (not strict) may put text into the operator that no reader gets back (a ';' starts a comment):
   then only returned / raised is compared *)
Definition export_matches (c : case) (expected : option (list xitem)) : bool :=
  match c_export c, expected with
  | Raised, None => true
  | Returned txt, Some items =>
      match read_export (c_numtab c) (unesc txt) with
      | Some got => list_eqb2 xitem_eqb got items || negb (c_strict c)
      | None => negb (c_strict c)
      end
  | _, _ => false
  end.

(* ---------- the model's answer ---------- *)
Definition model_trace (c : case) : result (list triplet) :=
  do d <- c_mdomain c;
  parse_plan d (c_eps c) (c_allow c) (quantification_objects d (c_objs c)) id_schedule (c_init c) (c_lines c).

Definition model_direct (c : case) (d : mdomain) (line : string) (pre : state) : dobs :=
  dobs_of (do call <- parse_action_call line;
           apply_call d (c_eps c) (Some (quantification_objects d (c_objs c))) (c_allow c) id_orders call pre).

Definition model_agrees (c : case) : bool :=
  match model_trace c, c_trace c with
  | Err _, Raised => export_matches c None
  | Ok ts, Returned tr =>
      list_eqb2 (fun t o => mstate_eqb (t_prev t) (so_pre o) && String.eqb (t_op t) (so_op o) &&
                            mstate_eqb (t_next t) (so_post o)) ts tr &&
      match c_mdomain c with
      | Ok d => list_eqb2 (fun line o => dobs_eqb (model_direct c d line (ms_st (so_pre o))) (so_direct o)) (c_lines c) tr
      | Err _ => false
      end &&
      export_matches c (match export ts with Ok items => Some items | Err _ => None end)
  | _, _ => false
  end.

(* ---------- the spec's answer ---------- *)
(* a plan line denotes the ground action call written on it: "(name arg ... arg)", case-insensitive *)
Definition spec_call (d : sdomain) (line : string) : option (action * list name) :=
  match parse MStr (s2t line) with
  | Ok (SList (Atom n :: args)) =>
      match atom_names args, find_action d n with
      | Some a, Some act => if Nat.eqb (List.length a) (List.length (a_params act)) then Some (act, a) else None
      | _, _ => None
      end
  | _ => None
  end.

Section SpecRun.
  Variable c : case.
  Variable d : sdomain.
  Definition s_app (m : action * list name) (s : state) : bool :=
    applicable (c_eps c) (spec_tt d) (dupdate (sd_consts d) (c_objs c)) (fst m) (snd m) s.
  Definition s_succ (m : action * list name) (s : state) : state :=
    successor (c_eps c) (spec_tt d) (dupdate (sd_consts d) (c_objs c)) (fst m) (snd m) s.
  Definition s_consistent (m : action * list name) (s : state) : bool :=
    consistent (all_groups (c_eps c) (spec_tt d) (dupdate (sd_consts d) (c_objs c)) (fst m) (snd m) s).

  Definition spec_trace (calls : list (action * list name)) := run_plan _ _ s_app s_succ (c_allow c) (c_init c) calls.

  Definition step_ok (i : nat) (t : state * (action * list name) * state) (o : step_obs) : bool :=
    let '(p, m, q) := t in
    Bool.eqb (ms_init (so_pre o)) (Nat.eqb i 0) && negb (ms_init (so_post o)) &&
    state_equiv p (ms_st (so_pre o)) && state_equiv q (ms_st (so_post o)) &&
    String.eqb (so_op o) (op_text (a_name (fst m)) (snd m)) &&
    (* direct application of the same call in the observed pre-state *)
    match apply_direct _ _ s_app s_succ (c_allow c) m (ms_st (so_pre o)) with
    | Some s' => match so_direct o with DRet x => state_equiv s' x | _ => false end
    | None => match so_direct o with DRefused => true | _ => false end
    end.

  Fixpoint steps_ok (i : nat) (ts : list (state * (action * list name) * state)) (os : list step_obs) : bool :=
    match ts, os with
    | [], [] => true
    | t :: tr, o :: orr => step_ok i t o && steps_ok (S i) tr orr
    | _, _ => false
    end.

  Fixpoint chained (os : list step_obs) : bool :=
    match os with
    | a :: ((b :: _) as r) => state_equiv (ms_st (so_post a)) (ms_st (so_pre b)) && chained r
    | _ => true
    end.
End SpecRun.

(* every step of the spec's run has consistent simultaneous effects (otherwise the successor is not defined by PDDL and
   the case is not judged) *)
Definition all_consistent (c : case) (d : sdomain) (calls : list (action * list name)) : bool :=
  forallb (fun t => let '(p, m, _) := t in s_consistent c d m p)
          (run_plan _ _ (s_app c d) (s_succ c d) true (c_init c) calls) &&
  forallb (fun t => let '(p, m, _) := t in s_consistent c d m p) (spec_trace c d calls).

Inductive spec_verdict := SSkip | SJudged (ok : bool).

Definition spec_judges (c : case) : spec_verdict :=
  if c_expect_raise c then SJudged (match c_trace c with Raised => true | Returned _ => false end) else
  if negb (c_strict c) then SSkip else
  match c_sdomain c with
  | None => SJudged false
  | Some d =>
      match all_some (map (spec_call d) (c_lines c)) with
      | None => SJudged false                                  (* a strict case must be readable *)
      | Some calls =>
          if negb (all_consistent c d calls) then SSkip else
          match c_trace c with
          | Raised => SJudged false
          | Returned tr =>
              SJudged (steps_ok c d 0 (spec_trace c d calls) tr && chained tr &&
                       match calls with
                       | [] => match c_export c with Raised => true | Returned _ => false end
                       | _ => export_matches c (items_of_trace tr)
                       end)
          end
      end
  end.

(* consistency of the simultaneous effects of every line's call in the pre-state the implementation observed (the
   call is read leniently: name and as many arguments as the action has parameters), so that malformed plans whose
   readable lines are inconsistent are not compared either *)
Definition lenient_call (d : sdomain) (line : string) : option (action * list name) :=
  match filter (fun t => negb (is_paren_tok t)) (tokenize MStr (s2t line)) with
  | n :: rest =>
      match find_action d n with
      | Some a => if Nat.leb (List.length (a_params a)) (List.length rest)
                  then Some (a, firstn (List.length (a_params a)) rest) else None
      | None => None
      end
  | [] => None
  end.

Definition observed_consistent (c : case) : bool :=
  match c_sdomain c, c_trace c with
  | Some d, Returned tr =>
      forallb (fun lo => match lenient_call d (fst lo) with
                         | Some m => s_consistent c d m (ms_st (so_pre (snd lo)))
                         | None => true
                         end) (combine (c_lines c) tr)
  | _, _ => true
  end.

Definition judge (c : case) : verdict :=
  if negb (observed_consistent c) then {| v_agree := true; v_ok := true; v_known := false |} else
  match spec_judges c with
  | SSkip => {| v_agree := (match c_strict c with true => true | false => model_agrees c end); v_ok := true; v_known := false |}
  | SJudged ok => {| v_agree := model_agrees c; v_ok := ok; v_known := false |}
  end.

Definition run (cases : list case) : string := summary judge cases.

(* two characters per case: the verdict, then 's' for a case the spec did not judge (inconsistent simultaneous
   effects or a malformed line) / 'j' for a judged one *)
Definition run2 (cases : list case) : string :=
  t2s (flat_map (fun c => [verdict_char (judge c);
                           if negb (observed_consistent c) then "s"%char else
                           match spec_judges c with SSkip => "s"%char | SJudged _ => "j"%char end]) cases).

Definition explain (c : case) :=
  (match model_trace c with
   | Ok ts => Returned (map (fun t => (t_prev t, t_op t, t_next t)) ts)
   | Err k => Raised end,
   match c_sdomain c with
   | Some d => match all_some (map (spec_call d) (c_lines c)) with
               | Some calls => Some (map (fun t => let '(p, m, q) := t in (p, a_name (fst m), snd m, q)) (spec_trace c d calls),
                                     all_consistent c d calls)
               | None => None end
   | None => None end,
   match c_export c with Returned txt => read_export (c_numtab c) (unesc txt) | Raised => None end,
   model_agrees c).

(* ---------- the text layer alone: parse_action_call on arbitrary short texts (exhaustive small scope) ---------- *)
Record lexcase := { x_text : string; x_obs : obs (string * list string) }.

Definition lex_model (c : lexcase) : obs (string * list string) :=
  obs_of_result (do a <- parse_action_call (unesc_s (x_text c)); Ok (ac_name a, ac_args a)).

Definition lex_agrees (c : lexcase) : bool :=
  obs_eqb (fun a b => String.eqb (fst a) (fst b) && list_eqb String.eqb (snd a) (snd b)) (lex_model c) (x_obs c).

Definition run_lex (cases : list lexcase) : string :=
  t2s (map (fun c => if lex_agrees c then "."%char else "a"%char) cases).
