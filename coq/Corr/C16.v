(* Correspondence for C16: multi_agent/common.apply_actions on (state, members, allow) and
   MultiAgentTrajectoryExporter.parse_plan / export on joint plans, versus the model (Model/Joint.v) and the spec
   (Spec/Joint.v: non-interference, sequential composition in a FIXED base order whatever the order of the members). *)
From Coq Require Import List Ascii String Bool Arith PrimFloat.
From Verif Require Import Base.Result Base.Str Base.Sexp Base.PyDict Base.Float
  Model.Tokenizer Model.Types Model.Domain Model.Exec Model.Plan Model.Joint
  Spec.Pddl Spec.Grammar Spec.Plan Spec.Joint Corr.Common Corr.Core Corr.C04.
Import ListNotations.
Open Scope string_scope.
Open Scope list_scope.

Inductive jobs := JRet (s : mstate) | JRefused | JRaised.      (* returned / ValueError / another exception *)

Definition call := (string * list string)%type.
Definition acall_of (c : call) : acall := {| ac_name := fst c; ac_args := snd c |}.

(* one call of apply_actions(domain, state, members, allow, objects) *)
(* [r_intact]: what the driver saw around the call - the state object passed in serializes as before the call
   (is_init flag, facts, fluents) and the returned state is another object.  The model is a pure function: a run
   that is not intact neither agrees with it nor satisfies the spec. *)
Record jrun := { r_members : list call; r_allow : bool; r_obs : jobs; r_intact : bool }.

Record jstep_obs := { js_pre : mstate; js_ops : list string; js_post : mstate }.

Record jcase := {
  j_text : string;
  j_nums : list (string * float);
  j_eps : float;
  j_objs : objects;
  j_state : state;                      (* the problem's initial state *)
  j_base : list call;                   (* the non-nop members of the family, in the base order *)
  j_runs : list jrun;                   (* direct calls: permutations of the base members, nops inserted *)
  j_plan : list string;                 (* a joint plan for the exporter (escaped lines); may be empty *)
  j_allow : bool;                       (* parse_plan(..., allow_inapplicable_actions) *)
  j_exporter_allow : bool;              (* MultiAgentTrajectoryExporter(domain, allow_invalid_actions) *)
  j_strict : bool;                      (* the plan lines are well-formed lower-case joint actions: the spec judges *)
  j_trace : obs (list jstep_obs);
  j_export : obs string;
  j_intact : bool                       (* plan unit: the state objects handed to the exporter / the problem's initial state
                                           serialize as before the call and no returned state is the object passed in *)
}.

Definition j_numtab (c : jcase) : string -> option float := fun s => lookup s (j_nums c).
Definition j_sexp (c : jcase) : result sexp := parse MFile (unesc (j_text c)).
Definition j_mdomain (c : jcase) : result mdomain := do e <- j_sexp c; parse_domain (j_numtab c) e.
Definition j_sdomain (c : jcase) : option sdomain :=
  match j_sexp c with Ok e => read_domain (j_numtab c) e | Err _ => None end.
Definition j_lines (c : jcase) : list string := map unesc_s (j_plan c).

Definition jobs_of (r : result mstate) : jobs :=
  match r with Ok s => JRet s | Err EValue => JRefused | Err _ => JRaised end.
Definition jobs_eqb (a b : jobs) : bool :=
  match a, b with
  | JRet s, JRet t => mstate_eqb s t
  | JRefused, JRefused | JRaised, JRaised => true
  | _, _ => false
  end.

(* ---------- model ---------- *)
Definition model_run (c : jcase) (d : mdomain) (r : jrun) : jobs :=
  jobs_of (apply_actions d (j_eps c) (Some (quantification_objects d (j_objs c))) id_schedule {| ms_init := true; ms_st := j_state c |}
                         (map acall_of (r_members r)) (r_allow r)).

Definition model_jtrace (c : jcase) : result (list jtriplet) :=
  do d <- j_mdomain c;
  parse_joint_plan d (j_eps c) (j_exporter_allow c) (quantification_objects d (j_objs c)) (fun _ => id_schedule) (j_allow c) (j_state c) (j_lines c).

Definition jexport_matches (c : jcase) (expected : option (list xitem)) : bool :=
  match j_export c, expected with
  | Raised, None => true
  | Returned txt, Some items =>
      match read_export (j_numtab c) (unesc txt) with
      | Some got => list_eqb2 xitem_eqb got items || negb (j_strict c)
      | None => negb (j_strict c)
      end
  | _, _ => false
  end.

Definition model_plan_agrees (c : jcase) : bool :=
  match model_jtrace c, j_trace c with
  | Err _, Raised => jexport_matches c None
  | Ok ts, Returned tr =>
      list_eqb2 (fun t o => mstate_eqb (jt_prev t) (js_pre o) && list_eqb String.eqb (jt_ops t) (js_ops o) &&
                            mstate_eqb (jt_next t) (js_post o)) ts tr &&
      jexport_matches c (match export_joint ts with Ok items => Some items | Err _ => None end)
  | _, _ => false
  end.

(* ---------- spec ---------- *)
Definition spec_member (d : sdomain) (c : call) : option member :=
  match find_action d (fst c) with
  | Some a => if Nat.eqb (List.length (snd c)) (List.length (a_params a)) then Some (a, snd c) else None
  | None => None
  end.

Definition is_nop_call (c : call) : bool := String.eqb (fst c) "nop".

Section SpecJoint.
  Variable c : jcase.
  Variable d : sdomain.
  Let tt := spec_tt d.
  Let objs := dupdate (sd_consts d) (j_objs c).   (* constants + objects: what quantifiers range over (D30) *)
  Let eps := j_eps c.

  Definition ni (ms : list member) : bool := pairwise_non_interfering tt objs ms.
  Definition all_app (s : state) (ms : list member) : bool := forallb (m_applicable tt objs eps s) ms.
  (* every member's simultaneous effects are consistent in every state of the sequential run (base order) *)
  Fixpoint seq_consistent (s : state) (ms : list member) : bool :=
    match ms with
    | [] => true
    | m :: r => consistent (all_groups eps tt objs (fst m) (snd m) s) && seq_consistent (m_step tt objs eps s m) r
    end.

  Inductive jclass := KJoint | KRefuse | KInterfering | KForced | KInconsistent | KUnreadable.

  (* what the spec says about applying [members] (nops included) in [s]: the class and, when judged, the expectation *)
  Definition classify (s : state) (base members : list call) (allow : bool) : jclass * option jobs :=
    match all_some (map (spec_member d) (filter (fun x => negb (is_nop_call x)) members)),
          all_some (map (spec_member d) base) with
    | Some ms, Some bs =>
        if negb (seq_consistent s ms && seq_consistent s bs) then (KInconsistent, None)
        else if negb (all_app s ms) then
          if allow then (KForced, None) else (KRefuse, Some JRefused)
        else if negb (ni ms) then (KInterfering, None)
        else (KJoint, Some (JRet {| ms_init := false; ms_st := seq_apply tt objs eps s bs |}))
    | _, _ => (KUnreadable, None)
    end.

  Definition class_char (k : jclass) : ascii :=
    match k with KJoint => "n" | KRefuse => "r" | KInterfering => "i" | KForced => "f" | KInconsistent => "c"
               | KUnreadable => "x" end%char.
End SpecJoint.

(* the members written on a joint plan line, read independently of the library's regular expression:
   tokens of the line, brackets and commas dropped, then one parenthesised group per member *)
Fixpoint groups_of (ts : list string) (cur : option (list string)) : option (list call) :=
  match ts with
  | [] => match cur with None => Some [] | Some _ => None end
  | t :: r =>
      if String.eqb t "(" then match cur with None => groups_of r (Some []) | Some _ => None end
      else if String.eqb t ")" then
        match cur with
        | Some (n :: args) => match groups_of r None with Some gs => Some ((n, args) :: gs) | None => None end
        | _ => None
        end
      else match cur with
           | Some acc => groups_of r (Some (acc ++ [t]))
           | None => if String.eqb t "[" || String.eqb t "]" || String.eqb t "," then groups_of r None else None
           end
  end.

(* "[(a x),(nop )]": the tokenizer splits at parentheses and blanks; "[", "]" and "," end up as tokens of their own
   except when glued to a name, which a well-formed joint action never does *)
Definition spec_joint_line (line : string) : option (list call) :=
  groups_of (tokenize MStr (s2t line)) None.

(* ---------- verdicts: one per run, then one for the plan ---------- *)
Definition with_intact (b : bool) (va : verdict * ascii) : verdict * ascii :=
  ({| v_agree := v_agree (fst va) && b; v_ok := v_ok (fst va) && b; v_known := v_known (fst va) |}, snd va).

Definition run_verdict0 (c : jcase) (r : jrun) : verdict * ascii :=
  let agree := match j_mdomain c with Ok d => jobs_eqb (model_run c d r) (r_obs r) | Err _ => false end in
  match j_sdomain c with
  | None => ({| v_agree := agree; v_ok := false; v_known := false |}, "x"%char)
  | Some d =>
      let (k, expect) := classify c d (j_state c) (j_base c) (r_members r) (r_allow r) in
      match k, expect with
      | KInconsistent, _ => ({| v_agree := true; v_ok := true; v_known := false |}, class_char k)
      | _, Some e => ({| v_agree := agree; v_ok := jobs_eqb e (r_obs r); v_known := false |}, class_char k)
      | _, None => ({| v_agree := agree; v_ok := true; v_known := false |}, class_char k)
      end
  end.

Definition run_verdict (c : jcase) (r : jrun) : verdict * ascii := with_intact (r_intact r) (run_verdict0 c r).

(* the spec's run of a joint plan: Some (steps) when every line is judged (refusal makes the whole run 'raised') *)
Inductive plan_expect := PSkip (k : jclass) | PRaise | PSteps (l : list (state * list string * state)).

Fixpoint spec_jplan (c : jcase) (d : sdomain) (allow : bool) (s : state) (lines : list string) : plan_expect :=
  match lines with
  | [] => PSteps []
  | l :: r =>
      match spec_joint_line l with
      | None => PSkip KUnreadable
      | Some members =>
          let real := filter (fun x => negb (is_nop_call x)) members in
          match classify c d s real members allow with
          | (KRefuse, _) => PRaise
          | (KJoint, Some (JRet s')) =>
              match spec_jplan c d allow (ms_st s') r with
              | PSteps rest => PSteps ((s, map (fun m => op_text (fst m) (snd m)) members, ms_st s') :: rest)
              | other => other
              end
          | (k, _) => PSkip k
          end
      end
  end.

Fixpoint jsteps_ok (i : nat) (ts : list (state * list string * state)) (os : list jstep_obs) : bool :=
  match ts, os with
  | [], [] => true
  | (p, ops, q) :: tr, o :: orr =>
      Bool.eqb (ms_init (js_pre o)) (Nat.eqb i 0) && negb (ms_init (js_post o)) &&
      state_equiv p (ms_st (js_pre o)) && state_equiv q (ms_st (js_post o)) &&
      list_eqb String.eqb ops (js_ops o) && jsteps_ok (S i) tr orr
  | _, _ => false
  end.

Fixpoint jchained (os : list jstep_obs) : bool :=
  match os with
  | a :: ((b :: _) as r) => state_equiv (ms_st (js_post a)) (ms_st (js_pre b)) && jchained r
  | _ => true
  end.

Definition jitems_of_trace (tr : list jstep_obs) : option (list xitem) :=
  match tr with
  | [] => None
  | t :: _ => Some (XState (js_pre t) :: flat_map (fun t => [XOp (js_ops t); XState (js_post t)]) tr)
  end.

(* malformed plans are compared with the model only - unless a joint action that WAS executed contains a member whose
   simultaneous effects are inconsistent in the state it was applied in (decided on the printed operators and the
   pre-state of every observed step): then nothing is defined and the answer depends on a set order *)
Definition ops_members (d : sdomain) (ops : list string) : option (list member) :=
  match spec_joint_line (String.concat "," ops) with
  | Some calls => all_some (map (spec_member d) (filter (fun x => negb (is_nop_call x)) calls))
  | None => None
  end.

Definition trace_consistent (c : jcase) (d : sdomain) : bool :=
  match j_trace c with
  | Returned tr => forallb (fun o => match ops_members d (js_ops o) with
                                     | Some ms => seq_consistent c d (ms_st (js_pre o)) ms
                                     | None => true
                                     end) tr
  | Raised => true
  end.

(* the same along the MODEL's trajectory *)
Definition mtrace_consistent (c : jcase) (d : sdomain) : bool :=
  match model_jtrace c with
  | Ok ts => forallb (fun t => match ops_members d (jt_ops t) with
                               | Some ms => seq_consistent c d (ms_st (jt_prev t)) ms
                               | None => true
                               end) ts
  | Err _ => true
  end.

(* a plan some EXECUTED joint action of which has a member with inconsistent simultaneous effects is outside every
   quantifier, wherever in the plan it stands (the spec's own run stops classifying at the first line it does not
   judge, e.g. an interfering first line, and would not see a later one) *)
Definition plan_defined (c : jcase) : bool :=
  match j_sdomain c with
  | Some d => match model_jtrace c with
              | Ok _ => mtrace_consistent c d        (* a function of the case's INPUT alone *)
              | Err _ => trace_consistent c d        (* the model raised: the steps the implementation reports *)
              end
  | None => true
  end.

Definition plan_verdict0 (c : jcase) : verdict * ascii :=
  let agree := model_plan_agrees c in
  if negb (plan_defined c) then ({| v_agree := true; v_ok := true; v_known := false |}, "c"%char) else
  if negb (j_strict c) then ({| v_agree := agree; v_ok := true; v_known := false |}, "m"%char) else
  match j_sdomain c with
  | None => ({| v_agree := agree; v_ok := false; v_known := false |}, "x"%char)
  | Some d =>
      match spec_jplan c d (j_allow c || j_exporter_allow c) (j_state c) (j_lines c) with
      | PSkip KInconsistent => ({| v_agree := true; v_ok := true; v_known := false |}, "c"%char)
      | PSkip k => ({| v_agree := agree; v_ok := true; v_known := false |}, class_char k)
      | PRaise => ({| v_agree := agree; v_ok := match j_trace c with Raised => true | _ => false end;
                      v_known := false |}, "r"%char)
      | PSteps steps =>
          ({| v_agree := agree;
              v_ok := match j_trace c with
                      | Returned tr => jsteps_ok 0 steps tr && jchained tr &&
                                       match steps with
                                       | [] => match j_export c with Raised => true | _ => false end
                                       | _ => jexport_matches c (jitems_of_trace tr)
                                       end
                      | Raised => false
                      end;
              v_known := false |}, "n"%char)
      end
  end.

Definition plan_verdict (c : jcase) : verdict * ascii := with_intact (j_intact c) (plan_verdict0 c).

(* two characters per unit (verdict, class); units = the runs, then the plan *)
Definition judge_case (c : jcase) : list (verdict * ascii) := map (run_verdict c) (j_runs c) ++ [plan_verdict c].

Definition run2 (cases : list jcase) : string :=
  t2s (flat_map (fun c => flat_map (fun va => [verdict_char (fst va); snd va]) (judge_case c)) cases).

(* one step of a process-level sequence is a case of its own (the model is a pure function of THAT call's inputs);
   a step that is a direct apply_actions call has no plan unit: (false, case) *)
Definition judge_case_sel (pc : bool * jcase) : list (verdict * ascii) :=
  map (run_verdict (snd pc)) (j_runs (snd pc)) ++ (if fst pc then [plan_verdict (snd pc)] else []).

Definition run2_sel (cases : list (bool * jcase)) : string :=
  t2s (flat_map (fun pc => flat_map (fun va => [verdict_char (fst va); snd va]) (judge_case_sel pc)) cases).

Definition explain (c : jcase) :=
  (match j_mdomain c with
   | Ok d => map (fun r => (r_members r, r_allow r, model_run c d r, r_obs r)) (j_runs c)
   | Err _ => [] end,
   match j_sdomain c with
   | Some d => map (fun r => classify c d (j_state c) (j_base c) (r_members r) (r_allow r)) (j_runs c)
   | None => [] end,
   match model_jtrace c with Ok ts => Returned (map (fun t => (jt_prev t, jt_ops t, jt_next t)) ts) | Err _ => Raised end,
   match j_sdomain c with
   | Some d => Some (spec_jplan c d (j_allow c || j_exporter_allow c) (j_state c) (j_lines c))
   | None => None end,
   map (fun va => (verdict_char (fst va), snd va)) (judge_case c)).

(* ---------- the text layer alone: the joint-action reader on arbitrary short texts (exhaustive small scope) ---------- *)
Record jlexcase := { y_text : string; y_obs : obs (list (string * list string)) }.

Definition jlex_model (c : jlexcase) : obs (list (string * list string)) :=
  obs_of_result (do l <- parse_joint_call (unesc_s (y_text c)); Ok (map (fun a => (ac_name a, ac_args a)) l)).

Definition jlex_agrees (c : jlexcase) : bool :=
  obs_eqb (list_eqb (fun a b => String.eqb (fst a) (fst b) && list_eqb String.eqb (snd a) (snd b))) (jlex_model c) (y_obs c).

Definition run_jlex (cases : list jlexcase) : string :=
  t2s (map (fun c => if jlex_agrees c then "."%char else "a"%char) cases).
