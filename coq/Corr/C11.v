(* Correspondence for C11: the implementation's parse() result versus the model and the strict spec. *)
From Coq Require Import List Ascii String Bool.
From Verif Require Import Base.Result Base.Str Base.Sexp Model.Tokenizer Spec.Layout Corr.Common.
Import ListNotations.
Open Scope string_scope.

(* file mode?, escaped text, observed: canonical rendering of the returned tree, or raised *)
(* c_expect: what the generator knows the answer must be (the rendering of the lower-cased tree it
   started from, or Raised for a corrupted rendering); None for raw texts judged by the strict reader only *)
Record case := { c_file : bool; c_text : string; c_obs : obs string; c_expect : option (obs string) }.

Definition mode_of (c : case) : mode := if c_file c then MFile else MStr.

Definition model_obs (c : case) : obs string :=
  obs_of_result (match parse (mode_of c) (unesc (c_text c)) with Ok e => Ok (show_sexp e) | Err k => Err k end).

Definition spec_obs (c : case) : obs string :=
  obs_of_result (match parse_strict (mode_of c) (unesc (c_text c)) with Ok e => Ok (show_sexp e) | Err k => Err k end).

(* finding D02: tokens left unread after the first complete form *)
Definition known_class (c : case) : bool :=
  match unread_tokens (tokenize (mode_of c) (unesc (c_text c))) with [] => false | _ => true end.

Definition judge (c : case) : verdict :=
  {| v_agree := obs_eqb String.eqb (model_obs c) (c_obs c);
     v_ok := obs_eqb String.eqb (spec_obs c) (c_obs c) &&
             match c_expect c with Some e => obs_eqb String.eqb e (c_obs c) | None => true end;
     v_known := known_class c |}.

Definition run (cases : list case) : string := summary judge cases.

(* debugging aid used when a case fails: what the model and the spec say *)
Definition explain (c : case) := (model_obs c, spec_obs c, tokenize (mode_of c) (unesc (c_text c))).

(* ------------------------------------------------------------------------------------------------
   LARGE inputs (>= 64 KiB, >= 128 KiB; round 3, seeded change C11_C).  A big string literal is expensive to
   read for coqc, so the text crosses as SEGMENTS (Corr.BigText: Rep block repetitions); both sides expand it
   (Python: "".join(block * reps)); the observable crosses as a DIGEST of the returned tree's token
   stream: (number of tokens, two 63-bit polynomial checksums of the tokens joined by blanks).  The same
   digest is computed here on the model's and on the strict reader's result, and by the generator on the
   tree it rendered. *)
From Coq Require Import ZArith NArith Uint63.
From Verif Require Import Corr.BigText.
Open Scope list_scope.
(* seg / expand / digest / digest_eqb: Corr/BigText.v (shared with Corr/C19.v) *)

Record bigcase := { b_file : bool; b_segs : list seg; b_obs : obs digest_t; b_expect : option (obs digest_t) }.

Definition bmode (c : bigcase) : mode := if b_file c then MFile else MStr.

Definition digest_obs (r : result sexp) : obs digest_t :=
  match r with Ok e => Returned (digest (flatten e)) | Err _ => Raised end.

Definition big_model_obs (c : bigcase) : obs digest_t := digest_obs (parse (bmode c) (expand (b_segs c))).
Definition big_spec_obs (c : bigcase) : obs digest_t := digest_obs (parse_strict (bmode c) (expand (b_segs c))).

(* one tokenization and one descent serve the model, the strict reader and the classifier
   (judge_big_eq below: this is exactly what the three separate definitions give) *)
Definition judge_big (c : bigcase) : verdict :=
  let ts := tokenize (bmode c) (expand (b_segs c)) in
  let r := rd (2 * List.length ts + 2) ts in
  let m := match r with Ok (e, _) => Returned (digest (flatten e)) | Err _ => Raised end in
  let s := match r with Ok (e, []) => Returned (digest (flatten e)) | _ => Raised end in
  {| v_agree := obs_eqb digest_eqb m (b_obs c);
     v_ok := obs_eqb digest_eqb s (b_obs c) &&
             match b_expect c with Some e => obs_eqb digest_eqb e (b_obs c) | None => true end;
     v_known := match r with Ok (_, _ :: _) => true | _ => false end |}.

Lemma judge_big_eq c :
  judge_big c =
  {| v_agree := obs_eqb digest_eqb (big_model_obs c) (b_obs c);
     v_ok := obs_eqb digest_eqb (big_spec_obs c) (b_obs c) &&
             match b_expect c with Some e => obs_eqb digest_eqb e (b_obs c) | None => true end;
     v_known := match unread_tokens (tokenize (bmode c) (expand (b_segs c))) with [] => false | _ => true end |}.
Proof.
  unfold judge_big, big_model_obs, big_spec_obs, digest_obs, parse, parse_strict, parse_tokens,
    parse_tokens_strict, unread_tokens.
  destruct (rd _ _) as [[e [|x rest]]|k]; reflexivity.
Qed.

Definition run_big (cases : list bigcase) : string := summary judge_big cases.

Definition explain_big (c : bigcase) :=
  let ts := tokenize (bmode c) (expand (b_segs c)) in
  (big_model_obs c, big_spec_obs c, digest ts, firstn 12 ts).
