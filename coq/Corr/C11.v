(* Correspondence for C11: the implementation's parse() result versus the model and the strict spec. *)
From Coq Require Import List Ascii String Bool.
From Verif Require Import Base.Result Base.Str Base.Sexp Model.Tokenizer Spec.Layout Corr.Common.
Import ListNotations.
Open Scope string_scope.

(* file mode?, escaped text, observed: canonical rendering of the returned tree, or raised *)
(* c_expect: what the generator knows the answer must be (the rendering of the lower-cased tree it
   started from, or Raised for a corrupted rendering); None for raw texts judged by the strict reader only *)
Record case := { c_file : bool; c_text : string; c_obs : obs string; c_expect : option (obs string) }.

Definition mode_of (c : case) : mode := if c_file c then MFile else MStr.

Definition model_obs (c : case) : obs string :=
  obs_of_result (match parse (mode_of c) (unesc (c_text c)) with Ok e => Ok (show_sexp e) | Err k => Err k end).

Definition spec_obs (c : case) : obs string :=
  obs_of_result (match parse_strict (mode_of c) (unesc (c_text c)) with Ok e => Ok (show_sexp e) | Err k => Err k end).

(* finding D02: tokens left unread after the first complete form *)
Definition known_class (c : case) : bool :=
  match unread_tokens (tokenize (mode_of c) (unesc (c_text c))) with [] => false | _ => true end.

Definition judge (c : case) : verdict :=
  {| v_agree := obs_eqb String.eqb (model_obs c) (c_obs c);
     v_ok := obs_eqb String.eqb (spec_obs c) (c_obs c) &&
             match c_expect c with Some e => obs_eqb String.eqb e (c_obs c) | None => true end;
     v_known := known_class c |}.

Definition run (cases : list case) : string := summary judge cases.

(* debugging aid used when a case fails: what the model and the spec say *)
Definition explain (c : case) := (model_obs c, spec_obs c, tokenize (mode_of c) (unesc (c_text c))).
