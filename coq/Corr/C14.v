(* Correspondence for C14: State.__eq__, copy, serialize on the implementation versus the model (Model/State.v)
   and the spec (Spec/State.v).  One environment per group (all states of the group, dumped from the Python objects in
   their actual dict / set iteration order, with everything the implementation answered about each of them), and
   cases that are either one state or an ordered pair of states.

   A group is observed at ONE moment of the worker process.  A process-level sequence (harness: kind "sequence") yields
   two groups: the states observed before some unrelated library calls happened in the process, and the same Python
   objects observed again afterwards together with states built afterwards; the intended value ([si_want]) of a state
   does not depend on the moment, so a state whose printed / compared / serialized value changed because of calls that
   never touched it fails [v_ok] in the second group.

   The finding class (D07) is decided on the INPUT only: the generator's description of the state ([si_want]), or of
   what it was derived from ([si_src_rep]), contains a ground fluent or an action call with a repeated argument.  What
   the implementation made of the input (the dump) never decides the class.  Likewise D90 / D91 ([si_src_int]): the
   description stores a Python int in a fluent (set_value(3)) or never sets its value (the default is the int 0). *)
From Coq Require Import List Ascii String Bool Arith PrimFloat.
From Verif Require Import Base.Result Base.Str Base.Sexp Base.PyDict Base.Float Model.Tokenizer Model.Types Model.Domain
  Model.State Model.Trajectory Spec.Pddl Spec.State Corr.Common.
Import ListNotations.
Open Scope string_scope.
Open Scope list_scope.

(* the parsed domain's vocabulary, dumped from the implementation (domain parsing itself is C01's subject) *)
Definition vocab (types consts : pydict string) (preds funcs : pydict signature) : mdomain :=
  {| d_name := ""; d_reqs := []; d_types := types; d_consts := consts; d_preds := preds; d_funcs := funcs; d_actions := [] |}.

Record sinfo := {
  si_dump : mstate;                 (* the Python object, field by field *)
  si_want : option state;           (* what the generator intended the state to be (None: no a-priori truth) *)
  si_ser : obs string;              (* s.serialize(), escaped *)
  si_self_eq : obs bool;            (* s == s *)
  si_copy_eq : obs bool;            (* s.copy() == s and s == s.copy() *)
  si_copy_ser : obs string;         (* s.copy().serialize() *)
  si_indep : obs bool;              (* mutating the copy leaves s as it was, and the other way round *)
  si_src_rep : bool;                (* INPUT: the description this state is derived from has a repeated argument *)
  si_src_int : bool;                (* INPUT: ... hands a Python int to set_value, or leaves a fluent unset (D90 / D91) *)
  (* s.serialize() read back by the library's own reader, TrajectoryParser(domain, problem).parse_state, with the
     group's object table / without a problem: (s' == s and s == s', s'.serialize()); None: not observed *)
  si_rb_with : option (obs (bool * string));
  si_rb_ded : option (obs (bool * string));
  (* wave 3: s.typed_serialize(), s.copy().typed_serialize(), str(hash(s)) (State defines __eq__ and no __hash__: it is
     unhashable, the call raises) *)
  si_tser : option (obs string);
  si_copy_tser : option (obs string);
  si_hash : option (obs string)
}.

Record env := {
  e_repr : list (float * string);   (* repr(x) for every value met in this run *)
  e_nums : list (string * float);   (* float(text) for every numeral text met in this run *)
  e_states : list sinfo;
  e_ctx : option (mdomain * pydict string)   (* the domain and the object table the library's reader is run with *)
}.

Inductive case :=
| CState (i : nat)
| CPair (i j : nat) (eq_ij : obs bool)        (* states[i] == states[j] *)
| CRow (i : nat) (res : string)               (* states[i] == states[j] for j = 0, 1, ...: 't' / 'f' / 'r'(aised) *)
| CTables                                     (* float(repr(x)) is x for every value of this run *)
(* wave 4, OBSERVATION ONLY: the same observations compared with the MODEL alone (no spec oracle, no intended value).  Used
   for states that hold NEGATIVE ground literals -- GroundedPredicate objects with is_positive = False put into a state
   through the public attributes.  Such objects are outside C14's quantifier (a state is a set of ground FACTS: no reader
   and no successor of the library produces one, both readers refuse "(not (p a))" as a state component, and the
   theorems' [state_ok] demands [gp_pos]); what the library computes on them is recorded and compared with Model/State.v
   ([gp_untyped] prints "(not (p a))", [gp_copy] keeps the polarity, [state_eq] compares the printed texts). *)
| CStateM (i : nat)
| CPairM (i j : nat) (eq_ij : obs bool)
| CRowM (i : nat) (res : string).

Section Judge.
  Variable E : env.

  Definition num_text (x : float) : string :=
    match find (fun kv => float_beq x (fst kv)) (e_repr E) with Some kv => snd kv | None => "<no-repr>" end.
  Definition num_parse (s : string) : option float := lookup s (e_nums E).

  Definition dummy : sinfo :=
    {| si_dump := empty_state false; si_want := None; si_ser := Raised; si_self_eq := Raised; si_copy_eq := Raised;
       si_copy_ser := Raised; si_indep := Raised; si_src_rep := false; si_src_int := false; si_rb_with := None; si_rb_ded := None;
       si_tser := None; si_copy_tser := None; si_hash := None |}.
  Definition st (i : nat) : sinfo := nth i (e_states E) dummy.

  Definition den (s : mstate) : state := {| facts := den_facts s; fluents := den_fluents s |}.
  Definition want (i : sinfo) : state := match si_want i with Some w => w | None => den (si_dump i) end.

  (* the implementation's text read by the model's reader and the spec's reading of a state *)
  Definition read_text (t : string) : option (bool * state) :=
    match parse MFile (unesc t) with
    | Ok e => read_state num_parse e
    | Err _ => None
    end.
  Definition read_obs (o : obs string) : option (bool * state) :=
    match o with Returned t => read_text t | Raised => None end.

  Definition reads_as (o : obs string) (init : bool) (w : state) : bool :=
    match read_obs o with
    | Some (b, s) => Bool.eqb b init && state_same s w
    | None => false
    end.

  (* finding D07: a ground fluent with a repeated argument -- in the generator's description, never in the dump *)
  Definition has_repeat (s : state) : bool := existsb (fun kv => has_dup (snd (fst kv))) (fluents s).
  Definition known_state (i : sinfo) : bool :=
    match si_want i with Some w => has_repeat w | None => false end || si_src_rep i || si_src_int i.

  Definition is_true (o : obs bool) : bool := obs_eqb Bool.eqb o (Returned true).

  (* ---------- the library's reader on the state's own text (Model/Trajectory.parse_state) ---------- *)
  Definition model_readback (dom : mdomain) (problem : option (pydict string)) (s : mstate) : obs (bool * mstate) :=
    match parse MFile (s2t (serialize num_text s)) with
    | Ok (SList (Atom _ :: items)) =>
        match parse_state dom num_parse problem items with
        | Ok s' => Returned (state_eq num_text s' s && state_eq num_text s s', s')
        | Err _ => Raised
        end
    | _ => Raised
    end.

  Definition rb_agrees (m : obs (bool * mstate)) (o : obs (bool * string)) : bool :=
    match m, o with
    | Returned (b, s'), Returned (b', t) => Bool.eqb b b' && reads_as (Returned t) false (den s')
    | Raised, Raised => true
    | _, _ => false
    end.

  Definition rb_ok (o : obs (bool * string)) (w : state) : bool :=
    match o with
    | Returned (b, t) => b && reads_as (Returned t) false w
    | Raised => false
    end.

  Definition rb_agree_all (i : sinfo) : bool :=
    match e_ctx E with
    | Some (dom, objs) =>
        match si_rb_with i with Some o => rb_agrees (model_readback dom (Some objs) (si_dump i)) o | None => true end &&
        match si_rb_ded i with Some o => rb_agrees (model_readback dom None (si_dump i)) o | None => true end
    | None => true
    end.

  Definition rb_ok_all (i : sinfo) : bool :=
    match si_rb_with i with Some o => rb_ok o (want i) | None => true end &&
    match si_rb_ded i with Some o => rb_ok o (want i) | None => true end.

  (* ---------- typed_serialize: the model's text (as token trees), and the independent reading of the typed text ---------- *)
  Definition tree_of (o : obs string) : obs sexp :=
    match o with Returned t => obs_of_result (parse MFile (unesc t)) | Raised => Raised end.

  Definition tser_agrees (s : mstate) (o : option (obs string)) : bool :=
    match o with
    | Some o' => obs_eqb sexp_eqb
                   (match typed_serialize num_text s with Ok t => obs_of_result (parse MFile (s2t t)) | Err _ => Raised end)
                   (tree_of o')
    | None => true
    end.

  Definition typed_reads_as (o : option (obs string)) (w : state) : bool :=
    match o with
    | Some (Returned t) =>
        match parse MFile (unesc t) with
        | Ok e => match read_typed_state num_parse e with Some s => state_same s w | None => false end
        | Err _ => false
        end
    | Some Raised => false
    | None => true
    end.

  (* hash(state): the model of the code that exists says TypeError *)
  Definition hash_agrees (o : option (obs string)) : bool :=
    match o with Some (Returned _) => false | _ => true end.
  (* hash-like observables, should State ever have them: the same value gives the same hash *)
  Definition hash_ok (a b : sinfo) (same : bool) : bool :=
    match si_hash a, si_hash b with
    | Some (Returned x), Some (Returned y) => if same then String.eqb x y else true
    | _, _ => true
    end.

  Definition judge_state (i : sinfo) : verdict :=
    let s := si_dump i in
    {| v_agree :=
         (* the text, compared as the token tree the library's reader makes of it (layout does not matter, order does) *)
         obs_eqb sexp_eqb (obs_of_result (parse MFile (s2t (serialize num_text s))))
                          (match si_ser i with Returned t => obs_of_result (parse MFile (unesc t)) | Raised => Raised end) &&
         obs_eqb Bool.eqb (Returned (state_eq num_text s s)) (si_self_eq i) &&
         obs_eqb Bool.eqb (Returned (state_eq num_text (state_copy s) s && state_eq num_text s (state_copy s))) (si_copy_eq i) &&
         reads_as (si_copy_ser i) (st_init s) (den (state_copy s)) &&
         rb_agree_all i &&
         tser_agrees s (si_tser i) && tser_agrees (state_copy s) (si_copy_tser i) && hash_agrees (si_hash i);
       v_ok :=
         state_same (den s) (want i) &&                 (* the object holds the intended facts and fluents *)
         reads_as (si_ser i) (st_init s) (want i) &&    (* its text reads back as the intended state *)
         is_true (si_self_eq i) && is_true (si_copy_eq i) &&
         reads_as (si_copy_ser i) (st_init s) (want i) &&
         is_true (si_indep i) &&
         typed_reads_as (si_tser i) (want i) && typed_reads_as (si_copy_tser i) (want i) &&
         rb_ok_all i;                                   (* ... also through the library's own reader *)
       v_known := known_state i |}.

  (* ---------- observation only: model versus implementation ---------- *)
  Definition ser_agrees (s : mstate) (o : obs string) : bool :=
    obs_eqb sexp_eqb (obs_of_result (parse MFile (s2t (serialize num_text s)))) (tree_of o).

  Definition model_state (i : sinfo) : verdict :=
    let s := si_dump i in
    {| v_agree :=
         ser_agrees s (si_ser i) &&
         obs_eqb Bool.eqb (Returned (state_eq num_text s s)) (si_self_eq i) &&
         obs_eqb Bool.eqb (Returned (state_eq num_text (state_copy s) s && state_eq num_text s (state_copy s))) (si_copy_eq i) &&
         (* the copy's text: the groups and the fluents keep the dicts' order, the facts of a group are printed sorted *)
         ser_agrees (state_copy s) (si_copy_ser i) &&
         rb_agree_all i &&
         tser_agrees s (si_tser i) && tser_agrees (state_copy s) (si_copy_tser i) && hash_agrees (si_hash i);
       v_ok := true;
       v_known := false |}.

  Definition model_pair (a b : sinfo) (eq_ab : obs bool) : verdict :=
    {| v_agree := obs_eqb Bool.eqb (Returned (state_eq num_text (si_dump a) (si_dump b))) eq_ab;
       v_ok := true;
       v_known := false |}.

  Definition judge_pair (a b : sinfo) (eq_ab : obs bool) : verdict :=
    let same := state_same (want a) (want b) in
    let texts_same :=
      match read_obs (si_ser a), read_obs (si_ser b) with
      | Some (_, x), Some (_, y) => Some (state_same x y)
      | _, _ => None
      end in
    {| v_agree := obs_eqb Bool.eqb (Returned (state_eq num_text (si_dump a) (si_dump b))) eq_ab;
       v_ok := obs_eqb Bool.eqb (Returned same) eq_ab &&
               match texts_same with Some t => Bool.eqb t same | None => false end &&
               hash_ok a b same;
       v_known := known_state a || known_state b |}.

  (* the repr table is consistent with the float() table: float(repr(x)) is x, for every value of this run
     (the hypothesis [num_ok] of Props/C14.v, checked on the values met) *)
  Definition tables_ok : bool :=
    forallb (fun kv => match num_parse (snd kv) with Some y => float_beq (fst kv) y | None => false end) (e_repr E).

  Definition judge (c : case) : verdict :=
    match c with
    | CState i => judge_state (st i)
    | CPair i j e => judge_pair (st i) (st j) e
    | CTables => {| v_agree := tables_ok; v_ok := tables_ok; v_known := false |}
    | CStateM i => model_state (st i)
    | CPairM i j e => model_pair (st i) (st j) e
    | CRow _ _ | CRowM _ _ => {| v_agree := false; v_ok := false; v_known := false |}      (* judged by judge_multi *)
    end.

  Definition obs_of_char (c : ascii) : obs bool :=
    if Ascii.eqb c "t" then Returned true else if Ascii.eqb c "f" then Returned false else Raised.

  Definition judge_multi (c : case) : list verdict :=
    match c with
    | CRow i res => map (fun jc => judge_pair (st i) (st (fst jc)) (obs_of_char (snd jc)))
                        (combine (seq 0 (String.length res)) (s2t res))
    | CRowM i res => map (fun jc => model_pair (st i) (st (fst jc)) (obs_of_char (snd jc)))
                         (combine (seq 0 (String.length res)) (s2t res))
    | _ => [judge c]
    end.

  Definition run_cases (cases : list case) : list ascii := map verdict_char (flat_map judge_multi cases).

  Definition rb_explain (i : sinfo) :=
    match e_ctx E with
    | Some (dom, objs) =>
        (option_map (fun _ => match model_readback dom (Some objs) (si_dump i) with Returned (b, s') => Some (b, den s') | Raised => None end) (si_rb_with i),
         option_map (fun _ => match model_readback dom None (si_dump i) with Returned (b, s') => Some (b, den s') | Raised => None end) (si_rb_ded i))
    | None => (None, None)
    end.

  Definition explain (c : case) :=
    match c with
    | CState i => (judge (CState i), serialize num_text (si_dump (st i)), read_obs (si_ser (st i)), want (st i), den (si_dump (st i)),
                   rb_explain (st i))
    | CPair i j e => (judge c, serialize num_text (si_dump (st i)), read_obs (si_ser (st j)), want (st i), want (st j), (None, None))
    | CPairM i j e => (judge c, serialize num_text (si_dump (st i)), None, den (si_dump (st i)), den (si_dump (st j)), (None, None))
    | CStateM i => (judge c, serialize num_text (state_copy (si_dump (st i))), None, den (si_dump (st i)), den (state_copy (si_dump (st i))),
                    rb_explain (st i))
    | _ => (judge c, "", None, den (empty_state false), den (empty_state false), (None, None))
    end.
End Judge.

Record group := { g_env : env; g_cases : list case }.

Definition run (gs : list group) : string := t2s (flat_map (fun g => run_cases (g_env g) (g_cases g)) gs).

Definition explain_group (g : group) := map (explain (g_env g)) (g_cases g).
