(* Correspondence for C09: export -> re-parse round trips of the implementation (ProblemExporter + ProblemParser)
   versus the model (Model/ProblemExporter.v + Model/Problem.v, configuration Model.Problem.cfg_current = the tree as it is, exact goal constants) and
   the spec (the exported text, read independently by Spec.Problem.read_problem, must mean the same problem). *)
From Coq Require Import List Ascii String Bool Arith PrimFloat.
From Verif Require Import Base.Result Base.Str Base.Sexp Base.PyDict Base.Float
  Model.Tokenizer Model.Types Model.Domain Model.NumExpr Model.Problem Model.ProblemObs Model.ProblemExporter
  Spec.Pddl Spec.Grammar Spec.Problem Corr.Common Corr.C05.
Import ListNotations.
Open Scope string_scope.
Open Scope list_scope.

Record rcase := {
  r_text : string;                    (* original problem text, escaped *)
  r_nums : list (string * float);     (* float(token) for the tokens of the original and of the exported texts *)
  r_reprs : list (float * string);    (* repr(x) for every fluent value / goal constant of the parsed problems *)
  r_obs1 : obs pdump;                 (* the parsed original *)
  r_export : obs string;              (* text written by ProblemExporter.export_problem, escaped *)
  r_obs2 : obs pdump;                 (* the exported text parsed by ProblemParser against the same domain *)
  r_export2 : obs string;             (* second round *)
  r_obs3 : obs pdump
}.

Record rworld := { rw_vocab : vocab; rw_cases : list rcase }.

Definition rnum (c : rcase) : string -> option float := fun s => lookup s (r_nums c).
Definition rrepr (c : rcase) (x : float) : string :=
  match find (fun p => float_beq (fst p) x) (r_reprs c) with Some p => snd p | None => "?" end.

Definition read_text (s : string) : result sexp := parse MFile (unesc s).

(* the exported text is ONE form and nothing else: the library's reader ignores whatever follows the first complete form
   (finding D02 of C11), so a tail left in the file - e.g. of a longer text written to the same path before - would go
   unnoticed by reading alone *)
Definition text_complete (ex : obs string) : bool :=
  match ex with
  | Returned t => match unread_tokens (tokenize MFile (unesc t)) with [] => true | _ :: _ => false end
  | Raised => true
  end.

Definition model_parse (v : vocab) (c : rcase) (e : sexp) : result mproblem :=
  parse_problem cfg_current (rnum c) (mdomain_of v) e.

Definition model_export (v : vocab) (c : rcase) (pb : mproblem) : sexp :=
  export_problem (rrepr c) None (v_name v) pb.

(* ----- exported token trees up to the order inside :init and the goal conjunction ----- *)
Fixpoint insert_sorted (x : string) (l : list string) : list string :=
  match l with
  | [] => [x]
  | y :: r => if String.leb x y then x :: l else y :: insert_sorted x r
  end.
Definition sort_strings (l : list string) : list string := fold_right insert_sorted [] l.
Definition shows (l : list sexp) : list string := sort_strings (map show_sexp l).

Definition export_equiv (a b : sexp) : bool :=
  match a, b with
  | SList [d; p; dm; o; SList (i :: items); SList [g; SList (an :: gitems)]],
    SList [d'; p'; dm'; o'; SList (i' :: items'); SList [g'; SList (an' :: gitems')]] =>
      sexp_eqb (SList [d; p; dm; o; i; g; an]) (SList [d'; p'; dm'; o'; i'; g'; an'])
      && list_eqb String.eqb (shows items) (shows items')
      && list_eqb String.eqb (shows gitems) (shows gitems')
  | _, _ => sexp_eqb a b
  end.

Definition res_dump (r : result mproblem) : obs pdump :=
  match r with Ok pb => Returned (dump_problem pb) | Err _ => Raised end.

(* one export + re-parse round of the model, compared with the implementation's:
   [pb] the model's problem before the round, [ex] the implementation's exported text, [ob] its re-parse *)
Definition round_agree (v : vocab) (c : rcase) (pb : mproblem) (ex : obs string) (ob : obs pdump) : bool * result mproblem :=
  match ex with
  | Raised => (false, Err EOther)                     (* the model's exporter is total *)
  | Returned t =>
      match read_text t with
      | Err _ => (false, Err EOther)
      | Ok e =>
          let mine := model_export v c pb in
          let re := model_parse v c e in              (* the model parser on the implementation's text *)
          let re_mine := model_parse v c mine in      (* ... and on the model's own export *)
          (export_equiv mine e && text_complete ex && obs_eqb pdump_agree (res_dump re) ob
           && obs_eqb pdump_equiv (res_dump re_mine) (res_dump re), re)
      end
  end.

Definition is_raised {A} (o : obs A) : bool := match o with Raised => true | _ => false end.

Definition agree (v : vocab) (c : rcase) : bool :=
  match read_text (r_text c) with
  | Err _ => is_raised (r_obs1 c)
  | Ok e =>
      match model_parse v c e with
      | Err _ => is_raised (r_obs1 c)
      | Ok pb =>
          obs_eqb pdump_agree (Returned (dump_problem pb)) (r_obs1 c) &&
          let (a1, r2) := round_agree v c pb (r_export c) (r_obs2 c) in
          a1 && match r2 with
                | Ok pb2 => fst (round_agree v c pb2 (r_export2 c) (r_obs3 c))
                | Err _ => is_raised (r_export2 c) && is_raised (r_obs3 c)
                end
      end
  end.

(* ----- the property, judged on the implementation's observables ----- *)
Definition text_means (v : vocab) (c : rcase) (ex : obs string) (d : pdump) : bool :=
  match ex with
  | Returned t =>
      match read_text t with
      | Ok e => match read_problem (rnum c) e with
                | Some sp => wf_sproblem (rnum c) v sp && pdump_equiv (spec_dump (rnum c) sp) d
                | None => false
                end
      | Err _ => false
      end
  | Raised => false
  end.

Definition same_text (a b : obs string) : bool :=
  match a, b with
  | Returned s, Returned t =>
      match read_text s, read_text t with Ok x, Ok y => export_equiv x y | _, _ => false end
  | _, _ => false
  end.

Definition ok (v : vocab) (c : rcase) : bool :=
  match r_obs1 c with
  | Raised => true                                    (* not a parsed problem: nothing to round-trip *)
  | Returned d1 =>
      match r_obs2 c, r_obs3 c with
      | Returned d2, Returned d3 =>
          pdump_equiv d2 d1 && pdump_equiv d3 d1
          && text_means v c (r_export c) d1           (* the exported text, read by the spec, is the parsed problem *)
          && same_text (r_export c) (r_export2 c)     (* a second round changes nothing *)
          && text_complete (r_export c) && text_complete (r_export2 c)   (* one form, no tail *)
      | _, _ => false
      end
  end.

(* finding D07: the initial fluents of the original text are not [safe_repeats] *)
Definition rknown (v : vocab) (c : rcase) : bool :=
  match read_text (r_text c) with
  | Ok e =>
      match read_problem (rnum c) e with
      | Some sp => negb (safe_repeats sp)
      | None => false
      end
  | Err _ => false
  end.

Definition rjudge (v : vocab) (c : rcase) : verdict :=
  {| v_agree := agree v c; v_ok := ok v c; v_known := rknown v c |}.

Definition run (ws : list rworld) : string :=
  t2s (flat_map (fun w => map (fun c => verdict_char (rjudge (rw_vocab w) c)) (rw_cases w)) ws).

Definition explain (w : rworld) :=
  map (fun c =>
         (match read_text (r_text c) with
          | Ok e => match model_parse (rw_vocab w) c e with
                    | Ok pb => Some (show_sexp (model_export (rw_vocab w) c pb),
                                     round_agree (rw_vocab w) c pb (r_export c) (r_obs2 c))
                    | Err _ => None end
          | Err _ => None end,
          ok (rw_vocab w) c, rknown (rw_vocab w) c)) (rw_cases w).
