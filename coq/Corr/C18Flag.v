(* One switch for Corr.C18: does the tree under test carry proposed_fixes/D75b.diff (the repair of the quantified-variable
   half of finding D75: change_signature renames a quantified variable out of the way when a new parameter name equals
   it)?  /repo does NOT: the registered check runs with [false], the model is Model.ChangeSignature and captures by a
   quantified variable are the recorded finding D75.  Set to [true] ONLY together with the commit of that patch to /repo
   (then the model is Model.ChangeSignatureAlpha and such mappings are judged like every admissible one). *)
Definition d75b_patched : bool := false.
