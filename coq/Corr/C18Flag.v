(* One switch for Corr.C18: does the tree under test carry the repair of the quantified-variable half of finding D75
   (change_signature renames a quantified variable out of the way when a new parameter name equals it)?
   /repo DOES since eb5fde6 (proposed_fixes/D75b.diff): the registered check runs with [true] - the model of
   Action.change_signature is Model.ChangeSignatureAlpha.change_signature_a, and a mapping that lands on a quantified
   variable is judged like every admissible one (texts compared up to the names of bound variables).
   [false] describes the code before eb5fde6 (model Model.ChangeSignature.change_signature; such mappings are then the
   capture class of the finding) and is kept only to re-run the check against such a tree. *)
Definition d75b_patched : bool := true.
