(* Correspondence for C10: the exporters' text and TrajectoryParser on the implementation versus the model
   (Model/Trajectory.v) and the spec (Spec/State.v: read_trajectory, state_same).
   A case is one trajectory: the exporter's triplets dumped as a chain of states, the exported text, and what the
   real TrajectoryParser made of that text with the problem's object table and with deduced objects. *)
From Coq Require Import List Ascii String Bool Arith PrimFloat.
From Verif Require Import Base.Result Base.Str Base.Sexp Base.PyDict Base.Float Model.Tokenizer Model.Types Model.Domain
  Model.State Model.Trajectory Spec.Pddl Spec.State Corr.Common.
Import ListNotations.
Open Scope string_scope.
Open Scope list_scope.

(* compact constructors for the dumps *)
Definition F (name : string) (sg : pydict string) (objs : list string) : gpred :=
  {| gp_name := name; gp_sig := sg; gp_map := combine (dkeys sg) objs; gp_pos := true |}.
Definition N (name : string) (sg : pydict string) (v : float) (rep : pydict nat) : pfun :=
  {| pf_name := name; pf_sig := sg; pf_val := v; pf_rep := rep; pf_int := false |}.
Definition vocab (types consts : pydict string) (preds funcs : pydict signature) : mdomain :=
  {| d_name := ""; d_reqs := []; d_types := types; d_consts := consts; d_preds := preds; d_funcs := funcs; d_actions := [] |}.

Record ostep := {
  os_calls : list call;             (* a single call, or every member of the joint action (nop included) *)
  os_prev : obs string;             (* component.previous_state.serialize() *)
  os_next : obs string;
  os_eq_prev : obs bool;            (* component.previous_state == the triplet's previous state *)
  os_eq_next : obs bool;
  os_chain : obs bool               (* component.previous_state == the preceding component's next_state (true for the first) *)
}.
Record oresult := { or_objects : list (string * string); or_steps : list ostep }.

Record case := {
  c_dom : mdomain;
  c_nums : list (string * float);
  c_repr : list (float * string);
  c_objs : pydict string;           (* the problem's object table *)
  c_agents : option (list string);  (* executing_agents for joint trajectories *)
  c_first : mstate;                 (* triplets[0].previous_state *)
  c_steps : list (tact * mstate); (* (operator(s), next_state) of every triplet; the next previous_state is that state *)
  c_export : obs string;            (* "".join(export(triplets)) *)
  c_source : option string;         (* shipped trajectory file the triplets were read from, if any *)
  c_with : option (obs oresult);    (* TrajectoryParser(domain, problem).parse_trajectory(file with that text) *)
  c_deduced : obs oresult;          (* TrajectoryParser(domain).parse_trajectory(...) *)
  c_strict : obs nat;               (* len(parse_trajectory(..., strict_trajectory_validation=True)) with the problem if any *)
  c_may_repeat : bool               (* INPUT-side: the problem's init (or the shipped file) has a fluent with a repeated
                                       argument, or a call of the plan repeats an argument / names a constant or the
                                       domain's effects can pair an argument with itself (harness: may_repeat) *)
}.

Section Judge.
  Variable c : case.

  Definition num_text (x : float) : string :=
    match find (fun kv => float_beq x (fst kv)) (c_repr c) with Some kv => snd kv | None => "<no-repr>" end.
  Definition num_parse (s : string) : option float := lookup s (c_nums c).

  Definition den (s : mstate) : state := {| facts := den_facts s; fluents := den_fluents s |}.

  Definition triplets : list triplet :=
    (fix go (prev : mstate) (l : list (tact * mstate)) : list triplet :=
       match l with
       | [] => []
       | (a, s) :: r => {| t_pre := prev; t_act := a; t_post := s |} :: go s r
       end) (c_first c) (c_steps c).

  Definition action_calls (a : tact) : list call := match a with ASingle x => [x] | AJoint l => l end.
  Definition ocall_calls (o : ocall) : list call := match o with OSingle x => [x] | OJoint l => l end.

  Fixpoint calls_eqb (a b : list call) : bool :=
    match a, b with
    | [], [] => true
    | x :: xs, y :: ys => String.eqb (fst x) (fst y) && strs_eqb (snd x) (snd y) && calls_eqb xs ys
    | _, _ => false
    end.

  (* ---------- model ---------- *)
  Definition model_export : obs string := obs_of_result (export_text num_text triplets).

  Definition export_tree : option sexp :=
    match c_export c with
    | Returned t => match parse MFile (unesc t) with Ok e => Some e | Err _ => None end
    | Raised => None
    end.

  Definition model_parse (problem : option (pydict string)) : result observation :=
    match c_export c with
    | Returned t => do e <- parse MFile (unesc t);
                    parse_trajectory (c_dom c) num_parse problem (c_agents c) false e
    | Raised => Err EOther
    end.

  Definition read_text (t : string) : option state :=
    match parse MFile (unesc t) with
    | Ok e => option_map snd (read_state num_parse e)
    | Err _ => None
    end.
  Definition text_is (o : obs string) (w : state) : bool :=
    match o with
    | Returned t => match read_text t with Some s => state_same s w | None => false end
    | Raised => false
    end.
  Definition is_true (o : obs bool) : bool := obs_eqb Bool.eqb o (Returned true).

  Fixpoint pairs_subset (a b : list (string * string)) : bool :=
    match a with
    | [] => true
    | (k, v) :: r => existsb (fun kv => String.eqb k (fst kv) && String.eqb v (snd kv)) b && pairs_subset r b
    end.
  Definition pairs_same (a b : list (string * string)) : bool := pairs_subset a b && pairs_subset b a.

  (* model component vs implementation step *)
  Definition step_agrees (t : triplet) (prev_next : option mstate) (m : ocomp) (o : ostep) : bool :=
    calls_eqb (ocall_calls (oc_call m)) (os_calls o) &&
    text_is (os_prev o) (den (oc_prev m)) && text_is (os_next o) (den (oc_next m)) &&
    obs_eqb Bool.eqb (Returned (state_eq num_text (oc_prev m) (t_pre t))) (os_eq_prev o) &&
    obs_eqb Bool.eqb (Returned (state_eq num_text (oc_next m) (t_post t))) (os_eq_next o) &&
    obs_eqb Bool.eqb (Returned (match prev_next with Some p => state_eq num_text (oc_prev m) p | None => true end)) (os_chain o).

  Fixpoint steps_agree (ts : list triplet) (prev_next : option mstate) (ms : list ocomp) (os : list ostep) : bool :=
    match ts, ms, os with
    | [], [], [] => true
    | t :: ts', m :: ms', o :: os' => step_agrees t prev_next m o && steps_agree ts' (Some (oc_next m)) ms' os'
    | _, _, _ => false
    end.

  Definition mode_agrees (problem : option (pydict string)) (o : obs oresult) : bool :=
    match model_parse problem, o with
    | Ok m, Returned r =>
        pairs_same (ob_objects m) (or_objects r) && steps_agree triplets None (ob_components m) (or_steps r)
    | Err _, Raised => true
    | _, _ => false
    end.

  (* ---------- spec ---------- *)
  (* the exported text, read independently, says what the triplets hold *)
  Fixpoint steps_match (l : list (list call * state)) (ts : list (tact * mstate)) : bool :=
    match l, ts with
    | [], [] => true
    | (cs, s) :: l', (a, m) :: ts' => calls_eqb cs (action_calls a) && state_same s (den m) && steps_match l' ts'
    | _, _ => false
    end.

  Definition text_matches (t : string) : bool :=
    match parse MFile (unesc t) with
    | Ok e =>
        match read_trajectory num_parse e with
        | Some (s0, steps) => state_same s0 (den (c_first c)) && steps_match steps (c_steps c)
        | None => false
        end
    | Err _ => false
    end.

  Definition export_ok : bool :=
    match c_export c with Returned t => text_matches t | Raised => false end.

  (* the observation has one component per triplet, the same calls, the same states, and is a chain *)
  Fixpoint steps_ok (prev : mstate) (prev_text : option (obs string)) (ts : list (tact * mstate)) (os : list ostep) : bool :=
    match ts, os with
    | [], [] => true
    | (a, post) :: ts', o :: os' =>
        calls_eqb (os_calls o) (action_calls a) &&
        text_is (os_prev o) (den prev) && text_is (os_next o) (den post) &&
        is_true (os_eq_prev o) && is_true (os_eq_next o) && is_true (os_chain o) &&
        (match prev_text, os_prev o with
         | Some (Returned p), Returned q =>
             match read_text p, read_text q with Some x, Some y => state_same x y | _, _ => false end
         | Some _, _ => false
         | None, _ => true
         end) &&
        steps_ok post (Some (os_next o)) ts' os'
    | _, _ => false
    end.

  (* every object named in the first state is in the deduced table *)
  Definition objects_cover (tbl : list (string * string)) : bool :=
    let s := den (c_first c) in
    forallb (fun o => existsb (fun kv => String.eqb o (fst kv)) tbl)
            (flat_map snd (facts s) ++ flat_map (fun kv => snd (fst kv)) (fluents s)).

  Definition mode_ok (with_problem : bool) (o : obs oresult) : bool :=
    match o with
    | Returned r =>
        steps_ok (c_first c) None (c_steps c) (or_steps r) &&
        (if with_problem then pairs_same (or_objects r) (c_objs c) else objects_cover (or_objects r))
    | Raised => false
    end.

  Definition source_ok : bool :=
    match c_source c with Some t => text_matches t | None => true end.

  (* ---------- recorded finding classes, decided on the input ---------- *)
  (* D07: a fluent with a repeated argument, or one already collapsed by an effect that wrote it (it is then printed
     with fewer arguments than the function is declared with) *)
  (* ... never one printed with MORE arguments than declared: D07 drops arguments, it does not invent them *)
  Definition has_repeat (s : mstate) : bool :=
    existsb (fun kv => match dget (d_funcs (c_dom c)) (fst (fst kv)) with
                       | Some sg =>
                           let n := List.length sg in
                           let k := List.length (snd (fst kv)) in
                           if Nat.ltb k n then true else if Nat.eqb k n then has_dup (snd (fst kv)) else false
                       | None => has_dup (snd (fst kv))
                       end) (den_fluents s).
  (* ... and only when the INPUT can lead there: a tree that makes ordinary fluents print bogus repeated arguments
     must not fall into the class just because its dumps show them *)
  Definition known_class : bool :=
    (has_repeat (c_first c) || existsb (fun am => has_repeat (snd am)) (c_steps c)) && c_may_repeat c ||      (* D07 *)
    match c_steps c with [] => true | _ => false end.                                     (* D56: empty trajectory *)

  Definition tables_ok : bool :=
    forallb (fun kv => match num_parse (snd kv) with Some y => float_beq (fst kv) y | None => false end) (c_repr c).

  Definition verdict_of : verdict :=
    {| v_agree :=
         tables_ok &&
         (* the exported text, compared as the token tree the library's reader makes of it *)
         obs_eqb sexp_eqb (match model_export with Returned t => obs_of_result (parse MFile (s2t t)) | Raised => Raised end)
                          (match c_export c with Returned t => obs_of_result (parse MFile (unesc t)) | Raised => Raised end) &&
         match c_with c with Some o => mode_agrees (Some (c_objs c)) o | None => true end &&
         mode_agrees None (c_deduced c) &&
         (* strict validation: accepted exactly when the model accepts, with the same number of components *)
         obs_eqb Nat.eqb
           (match c_export c with
            | Returned t =>
                match parse MFile (unesc t) with
                | Ok e => match parse_trajectory (c_dom c) num_parse
                                  (match c_with c with Some _ => Some (c_objs c) | None => None end) (c_agents c) true e with
                          | Ok o => Returned (List.length (ob_components o))
                          | Err _ => Raised
                          end
                | Err _ => Raised
                end
            | Raised => Raised
            end) (c_strict c);
       v_ok :=
         export_ok && source_ok &&
         match c_with c with Some o => mode_ok true o | None => true end &&
         mode_ok false (c_deduced c);
       v_known := known_class |}.
End Judge.

Definition judge (c : case) : verdict := verdict_of c.
Definition run (cases : list case) : string := summary judge cases.

(* debugging aid *)
Definition explain (c : case) :=
  (judge c,
   (tables_ok c, model_export c,
    match c_with c with Some o => mode_agrees c (Some (c_objs c)) o | None => true end, mode_agrees c None (c_deduced c)),
   (export_ok c, source_ok c, match c_with c with Some o => mode_ok c true o | None => true end, mode_ok c false (c_deduced c)),
   match model_parse c None with
   | Ok m => Returned (ob_objects m, map (fun x => (ocall_calls (oc_call x), den (oc_prev x), den (oc_next x))) (ob_components m))
   | Err k => Raised
   end).
