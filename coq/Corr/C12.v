(* Correspondence for C12: the implementation's observables (construct_expression_tree accepted?, to_pddl text,
   calculate, evaluate_expression, the printed text read back by the library) versus the model
   (Model.NumExpr in its FIXED configuration: rel_tol = 0, arity checked) and versus the spec (Spec.Arith). *)
From Coq Require Import ZArith List Ascii String Bool PrimFloat FloatOps.
From Verif Require Import Base.Result Base.Str Base.Sexp Base.Float Model.Tokenizer Model.NumExpr Spec.Arith
  Corr.Common.
From Verif Require Proofs.C12_CmpAt.
Import ListNotations.
Open Scope string_scope.
Open Scope list_scope.

Inductive evobs := OBool (b : bool) | OAssign (key : string) (v : float).

Record iobs := {
  o_pddl : string;                        (* to_pddl() *)
  o_calc : obs float;                     (* calculate(root) *)
  o_eval : obs evobs;                     (* evaluate_expression(root) *)
  o_re : obs (string * obs float)         (* to_pddl text read back by the library: its to_pddl and calculate *)
}.

(* what the generator knows the answer must mean *)
Inductive expect :=
| XNone                                    (* no a-priori meaning: agreement with the model only *)
| XReject                                  (* not a binary numeric expression: must be rejected *)
| XCalc (e : aexp)
| XCmp (c : cmp) (l r : aexp)
| XAsg (a : asg) (name : string) (args : list string) (rhs : aexp).

Record case := {
  c_text : string;                         (* source text (escaped) *)
  c_nums : list (string * float);          (* float(token) for every token on which it succeeds *)
  c_funcs : domain_functions;
  c_state : fluents;
  c_eps : float;                           (* the implementation's EPSILON and DEFAULT_DIGITS in this process *)
  c_digits : nat;
  c_obs : obs iobs;                        (* Raised: construct_expression_tree raised *)
  c_x : expect
}.

Definition pn_of (c : case) : string -> option float :=
  let table := map (fun kv => (unesc_s (fst kv), snd kv)) (c_nums c) in
  fun s => alookup s table.

Definition cfg_of (c : case) : ncfg := cfg_fixed (c_eps c) (c_digits c).

Definition read_construct (c : case) (s : text) : result ntree :=
  do e <- parse MStr s; construct true (pn_of c) (c_funcs c) e.

Definition evobs_of (r : evres) : evobs :=
  match r with EvBool b => OBool b | EvAssign k v => OAssign k v end.

Definition model_obs (c : case) : obs iobs :=
  match read_construct c (unesc (c_text c)) with
  | Err _ => Raised
  | Ok t =>
      let txt := to_pddl (c_digits c) t in
      Returned {| o_pddl := txt;
                  o_calc := obs_of_result (calculate (c_state c) t);
                  o_eval := obs_of_result (match evaluate (cfg_of c) (c_state c) t with
                                           | Ok r => Ok (evobs_of r) | Err k => Err k end);
                  o_re := match read_construct c (s2t txt) with
                          | Ok t2 => Returned (to_pddl (c_digits c) t2, obs_of_result (calculate (c_state c) t2))
                          | Err _ => Raised
                          end |}
  end.

(* ---------------------------------------------------------------- equality of observables *)
Definition evobs_eqb (a b : evobs) : bool :=
  match a, b with
  | OBool x, OBool y => Bool.eqb x y
  | OAssign k v, OAssign k' v' => String.eqb k k' && float_beq v v'
  | _, _ => false
  end.

Definition re_eqb (a b : string * obs float) : bool :=
  String.eqb (fst a) (fst b) && obs_eqb float_beq (snd a) (snd b).

Definition iobs_eqb (a b : iobs) : bool :=
  String.eqb (o_pddl a) (o_pddl b) && obs_eqb float_beq (o_calc a) (o_calc b) &&
  obs_eqb evobs_eqb (o_eval a) (o_eval b) && obs_eqb re_eqb (o_re a) (o_re b).

(* the implementation's observation with its texts decoded *)
Definition dec_obs (o : iobs) : iobs :=
  {| o_pddl := unesc_s (o_pddl o);
     o_calc := o_calc o;
     o_eval := match o_eval o with
               | Returned (OAssign k v) => Returned (OAssign (unesc_s k) v)
               | x => x
               end;
     o_re := match o_re o with
             | Returned (t, v) => Returned (unesc_s t, v)
             | Raised => Raised
             end |}.

(* ---------------------------------------------------------------- the spec as an oracle *)
Definition val_of (st : fluents) : valuation :=
  fun k => match alookup k st with Some v => v | None => 0%float end.

(* independent formulation of "within eps": the difference taken the other way round, |x - y| *)
Definition close_sym (eps x y : float) : bool :=
  PrimFloat.eqb x y || PrimFloat.leb (abs (x - y)%float) eps.

Definition opt_obs {A} (o : option A) : obs A := match o with Some a => Returned a | None => Raised end.

(* structure only: numerals are numerals *)
Definition numeral_like (t : string) : bool :=
  match dec_parse t with
  | Some _ => true
  | None => String.eqb t "nan" || String.eqb t "inf" || String.eqb t "-inf"
  end.
Fixpoint shape_only (e : aexp) (s : sexp) : bool :=
  match e, s with
  | ANum _, Atom t => numeral_like t
  | AFl n a, SList (Atom h :: l) => String.eqb h n && atoms_are l a
  | ABin op l r, SList [Atom h; sl; sr] => String.eqb h (op_name op) && shape_only l sl && shape_only r sr
  | _, _ => false
  end.

(* the printed text has the structure of (head l r), constants within the print precision; the text read back
   (and printed again) still has that structure *)
Definition text_ok (digits : nat) (head : string) (l r : aexp) (o : iobs) : bool :=
  match parse MStr (s2t (o_pddl o)) with
  | Ok (SList [Atom h; sl; sr]) => String.eqb h head && shape_ok digits l sl && shape_ok digits r sr
  | _ => false
  end &&
  match o_re o with
  | Returned (t2, _) =>
      match parse MStr (s2t t2) with
      | Ok (SList [Atom h; sl; sr]) => String.eqb h head && shape_only l sl && shape_only r sr
      | _ => false
      end
  | Raised => false
  end.

Definition calc_text_ok (digits : nat) (e : aexp) (o : iobs) : bool :=
  match parse MStr (s2t (o_pddl o)) with
  | Ok s => shape_ok digits e s
  | Err _ => false
  end &&
  match o_re o with
  | Returned (t2, _) => match parse MStr (s2t t2) with Ok s => shape_only e s | Err _ => false end
  | Raised => false
  end.

Definition spec_ok (c : case) : bool :=
  let val := val_of (c_state c) in
  match c_x c, c_obs c with
  | XNone, _ => true
  | XReject, Raised => true
  | XReject, Returned _ => false
  | _, Raised => false
  | XCalc e, Returned o0 =>
      let o := dec_obs o0 in
      obs_eqb float_beq (opt_obs (aeval val e)) (o_calc o) && calc_text_ok (c_digits c) e o
  | XCmp cm l r, Returned o0 =>
      let o := dec_obs o0 in
      let want := match aeval val l, aeval val r with
                  | Some x, Some y => Returned (OBool (cmp_with (close_sym (c_eps c) x y) cm x y))
                  | _, _ => Raised
                  end in
      obs_eqb evobs_eqb want (o_eval o) && text_ok (c_digits c) (cmp_name cm) l r o
  | XAsg a n args rhs, Returned o0 =>
      let o := dec_obs o0 in
      let key := fluent_key n args in
      let want := match aeval val rhs with
                  | Some v => Returned (OAssign key (spec_assign a (val key) v))
                  | None => Raised
                  end in
      obs_eqb evobs_eqb want (o_eval o) && text_ok (c_digits c) (asg_name a) (AFl n args) rhs o
  end.

(* the hypothesis of theorem C12_cmp_fixed_at, computed by the kernel on the operands of this comparison (finite
   operands, eps >= 0): the instances of the IEEE facts the proof uses hold here *)
Definition ieee_side_ok (c : case) : bool :=
  match c_x c with
  | XCmp _ l r =>
      match aeval (val_of (c_state c)) l, aeval (val_of (c_state c)) r with
      | Some x, Some y =>
          if f_is_finite x && f_is_finite y && PrimFloat.leb 0%float (c_eps c)
          then Proofs.C12_CmpAt.ieee_ok_at (c_eps c) x y else true
      | _, _ => true
      end
  | _ => true
  end.

Definition judge (c : case) : verdict :=
  {| v_agree := obs_eqb iobs_eqb (model_obs c) (match c_obs c with Returned o => Returned (dec_obs o) | Raised => Raised end)
                && ieee_side_ok c;
     v_ok := spec_ok c;
     v_known := false |}.     (* no open finding class: D20 and D08 are repaired *)

Definition run (cases : list case) : string := summary judge cases.

Definition explain (c : case) := (model_obs c, spec_ok c, ieee_side_ok c).
