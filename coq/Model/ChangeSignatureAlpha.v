(* Model of Action.change_signature as it is since /repo eb5fde6 (repair of the quantified-variable half of finding D75,
   proposed_fixes/D75b.diff).  Model.ChangeSignature describes the same method without the step added by that commit
   (and stays the object of the theorems: Proofs.C18_AlphaStep shows that the two agree on the fragment they cover).
   Corr.C18 uses this file when Corr.C18Flag.d75b_patched is set (the registered state).
     UniversalPrecondition.change_signature / UniversalEffect.change_signature:
        free = {old: new for old, new in mapping.items() if old != quantified_parameter}
        if quantified_parameter in free.values():            # a renamed name would be captured by this quantifier
            fresh = fresh_variable_name(quantified_parameter, <printed text of this quantifier>, free)
            <rename the body with {quantified_parameter: fresh}>;  quantified_parameter = fresh
        <rename the body with free>
     fresh_variable_name(v, text, renaming): the first of v_0, v_1, ... that is neither a substring of text nor a key
        nor a value of renaming.  "substring of the text" = "substring of one of the tokens printed in it" (see ptok_pre below).
   The second renaming walks the result of the first one, so the functions are defined by recursion on a fuel (the
   nesting depth bounds it); running out of fuel is Err EFuel - impossible for fresh_name and, up to nesting depth
   alpha_fuel, for the whole renaming (Proofs.C18_AlphaTotal).  Definitions only. *)
From Coq Require Import List String Bool Arith DecimalString.
From Verif Require Import Base.Result Base.Str Base.PyDict Model.Domain Model.ChangeSignature.
Import ListNotations.
Open Scope string_scope.
Open Scope list_scope.

Definition nat_to_string (n : nat) : string := NilEmpty.string_of_uint (Nat.to_uint n).

(* ---------- the tokens printed for a condition / an effect that are not fixed keywords, operators or numerals:
   variables, constants, predicate / function names, type names.  The printed text separates tokens by blanks, tabs,
   newlines and parentheses and a candidate (a variable name followed by _<digits>) contains none of these, so
   "candidate in text" (Python's substring test) holds iff the candidate is a substring of one of the tokens; keywords,
   operators and numerals contain no '?' and cannot hold it.  A quantified condition WITHOUT operands and pairs prints
   the empty string (UniversalPrecondition.print): neither its variable nor its type is in the text. ---------- *)
Fixpoint ptok_tree (t : mtree) : list string :=
  match t with
  | TNum _ => []
  | TFn f args => f :: args
  | TNode _ l r => ptok_tree l ++ ptok_tree r
  end.

(* UniversalPrecondition.print returns "" for a quantifier without operands and pairs *)
Definition empty_pre (p : mpre) : bool :=
  match p with MPre _ [] [] [] => true | _ => false end.

Fixpoint ptok_pre (p : mpre) : list string :=
  match p with
  | MPre _ os eqs neqs =>
      (fix go (l : list mcond) : list string := match l with [] => [] | c :: r => ptok_cond c ++ go r end) os ++
      flat_map (fun ab => [fst ab; snd ab]) eqs ++ flat_map (fun ab => [fst ab; snd ab]) neqs
  end
with ptok_cond (c : mcond) : list string :=
  match c with
  | MLit _ p args => p :: args
  | MNum t => ptok_tree t
  | MNested q => ptok_pre q
  | MUniv v ty body => if empty_pre body then [] else v :: ty :: ptok_pre body
  end.

Definition ptok_condeff (ce : mcondeff) : list string :=
  ptok_pre (ce_ante ce) ++ flat_map (fun l => l_name l :: l_args l) (ce_disc ce) ++ flat_map ptok_tree (ce_num ce).

(* ---------- fresh_variable_name ---------- *)
(* Python's  c in n  for strings: c is a substring of n *)
Fixpoint infix_of (c n : string) : bool :=
  String.prefix c n || match n with EmptyString => false | String _ r => infix_of c r end.

Definition blocked (toks : list string) (m : renaming) (c : string) : bool :=
  existsb (infix_of c) toks || str_in c (dkeys m) || str_in c (dvalues m).

Fixpoint fresh_from (fuel : nat) (v : string) (toks : list string) (m : renaming) (i : nat) : result string :=
  match fuel with
  | 0 => Err EFuel
  | S fu =>
      let c := (v ++ "_" ++ nat_to_string i)%string in
      if blocked toks m c then fresh_from fu v toks m (S i) else Ok c
  end.
(* a token of length L has at most L*(L+1)/2 non-empty substrings, a key or a value blocks one candidate; the candidates are
   pairwise distinct, so within that many steps (+1) one of them is free *)
Definition fresh_name (v : string) (toks : list string) (m : renaming) : result string :=
  fresh_from (1 + list_sum (map (fun n => String.length n * S (String.length n)) toks) + 2 * List.length m) v toks m 0.

(* ---------- the renaming ---------- *)
Fixpoint rename_pre_a (fuel : nat) (m : renaming) (p : mpre) : result mpre :=
  match fuel with
  | 0 => Err EFuel
  | S fu =>
      match p with
      | MPre op os eqs neqs =>
          do os' <- mapM (rename_cond_a fu m) os;
          Ok (MPre op os' (map (rename_pair m) eqs) (map (rename_pair m) neqs))
      end
  end
with rename_cond_a (fuel : nat) (m : renaming) (c : mcond) : result mcond :=
  match fuel with
  | 0 => Err EFuel
  | S fu =>
      match c with
      | MLit pos p args => Ok (MLit pos p (rename_args m args))
      | MNum t => Ok (MNum (rename_numexp m t))
      | MNested q => do q' <- rename_pre_a fu m q; Ok (MNested q')
      | MUniv v ty body =>
          let free := drop m v in
          if str_in v (dvalues free) then
            do fresh <- fresh_name v (ptok_cond (MUniv v ty body)) free;
            do b' <- rename_pre_a fu free (rename_pre [(v, fresh)] body);
            Ok (MUniv fresh ty b')
          else
            do b' <- rename_pre_a fu free body; Ok (MUniv v ty b')
      end
  end.

Definition rename_condeff_a (fuel : nat) (m : renaming) (ce : mcondeff) : result mcondeff :=
  do ante <- rename_pre_a fuel m (ce_ante ce);
  Ok {| ce_ante := ante; ce_disc := map (rename_lit m) (ce_disc ce); ce_num := map (rename_numexp m) (ce_num ce) |}.

Definition rename_univeff_a (fuel : nat) (m : renaming) (ue : muniveff) : result muniveff :=
  let v := ue_var ue in
  let free := drop m v in
  if str_in v (dvalues free) then
    do fresh <- fresh_name v (v :: ue_ty ue :: ptok_condeff (ue_ce ue)) free;
    do ce <- rename_condeff_a fuel free (rename_condeff [(v, fresh)] (ue_ce ue));
    Ok {| ue_var := fresh; ue_ty := ue_ty ue; ue_ce := ce |}
  else
    do ce <- rename_condeff_a fuel free (ue_ce ue);
    Ok {| ue_var := v; ue_ty := ue_ty ue; ue_ce := ce |}.

Definition change_signature_fuel (fuel : nat) (m : renaming) (a : maction) : result maction :=
  do pre <- rename_pre_a fuel m (ma_pre a);
  do conds <- mapM (rename_condeff_a fuel m) (ma_cond a);
  do univs <- mapM (rename_univeff_a fuel m) (ma_univ a);
  Ok {| ma_name := ma_name a;
        ma_sig := rebuild m (ma_sig a);
        ma_pre := pre;
        ma_disc := map (rename_lit m) (ma_disc a);
        ma_num := map (rename_numexp m) (ma_num a);
        ma_cond := conds;
        ma_univ := univs |}.

(* two levels of fuel per nesting level of the conditions; 200 is far beyond what the domain parser accepts within its own
   fuel, and running out is reported (Err EFuel), never silently truncated *)
Definition alpha_fuel : nat := 200.
Definition change_signature_a (m : renaming) (a : maction) : result maction := change_signature_fuel alpha_fuel m a.
