(* Model of multi_agent/common.py (apply_actions) and multi_agent/multi_agent_trajectory_exporter.py
   (parse_action_call, create_multi_agent_triplet, parse_plan, export) on top of Model/Exec.v and Model/Plan.v.
   The tree described is /repo after the repairs D63 (the object table reaches the members' operators), D64 (nop
   entries are filtered before the single-member shortcut), D65 (the exporter's own allow flag is honoured) and D66
   (the state returned by a joint action is never flagged as the initial state).

   parse_action_call(line):  re.finditer(r"\(([\w+\s?-]+)\)", line); each group(1).split() -> ActionCall(name, rest)
                             NO lower-casing here (unlike the single-agent exporter).
   apply_actions(domain, state, calls, allow, objects):
       executed = [c for c in calls if c.name != "nop"]
       one member:  Operator(...).apply(state, allow)
       otherwise:   acc = state.copy(); acc.is_init = False
                    for c in executed:  applicability is tested on the ORIGINAL state;
                                        if applicable or allow: acc = op.apply(acc, allow_inapplicable_actions=True)
                                        else raise ValueError
   create_multi_agent_triplet: parse the line; the printed operators keep the nops ("(nop )"); the non-nop members
       are handed to apply_actions; an exception propagates (no 'unchanged state' fallback here).
   Definitions only. *)
From Coq Require Import List Ascii String Bool Arith NArith PrimFloat.
From Verif Require Import Base.Result Base.Str Base.Sexp Base.PyDict Model.Tokenizer Model.Types Model.Domain Model.Exec
  Model.Plan Spec.Pddl.
Import ListNotations.
Open Scope string_scope.
Open Scope list_scope.

Definition NOP : string := "nop".
Definition is_nop (c : acall) : bool := String.eqb (ac_name c) NOP.

(* ---------- the regular expression \(([\w+\s?-]+)\) as a one-pass scanner ---------- *)
(* \w on code points < 128: letters, digits, underscore *)
Definition is_word (c : ascii) : bool :=
  let n := N_of_ascii c in
  (((48 <=? n) && (n <=? 57)) || ((65 <=? n) && (n <=? 90)) || ((97 <=? n) && (n <=? 122)) || (n =? 95))%N.

Definition in_class (c : ascii) : bool :=
  is_word c || Ascii.eqb c "+" || is_ws c || Ascii.eqb c "?" || Ascii.eqb c "-".

(* [opened] = Some acc: a "(" has been seen and [acc] (reversed) is the run of class characters after it.
   A "(" always starts a new candidate (it is not in the class, so an earlier candidate fails there); ")" closes a
   candidate with a non-empty run; any other character outside the class discards the candidate.  finditer resumes
   after the ")" of a match. *)
Fixpoint scan_groups (cs : text) (opened : option text) : list text :=
  match cs with
  | [] => []
  | c :: r =>
      if Ascii.eqb c LP then scan_groups r (Some [])
      else match opened with
           | None => scan_groups r None
           | Some acc =>
               if in_class c then scan_groups r (Some (c :: acc))
               else if Ascii.eqb c RP then
                 match acc with
                 | [] => scan_groups r None
                 | _ => rev acc :: scan_groups r None
                 end
               else scan_groups r None
           end
  end.

Definition member_of_group (g : text) : result acall :=
  match py_split g with
  | [] => Err EIndex                                          (* action_components[0] *)
  | n :: ps => Ok {| ac_name := n; ac_args := ps |}
  end.

Definition parse_joint_call (line : string) : result (list acall) :=
  mapM member_of_group (scan_groups (s2t line) None).

(* str(NOPOperator) = "(nop )" = op_text "nop" [] *)

Definition number {A} (l : list A) : list (nat * A) := combine (seq 0 (List.length l)) l.

Section Joint.
  Variable dom : mdomain.
  Variable eps : float.

  (* one iteration of the loop of apply_actions; [orig] is the state the joint action is applied in *)
  Definition joint_member (objs : option objects) (allow : bool) (sch : schedule) (orig : state)
             (acc : mstate) (ic : nat * acall) : result mstate :=
    let c := snd ic in
    match dget (d_actions dom) (ac_name c) with
    | None => Err EKey
    | Some a =>
        do ga <- ground_action dom a (ac_args c);
        do okb <- is_applicable dom eps objs ga orig;
        if okb || allow then
          let o := sch (fst ic) a in
          do s <- apply_op dom eps ga objs true false (fst o) (snd o) (ms_st acc);
          Ok {| ms_init := false; ms_st := s |}
        else Err EValue
    end.

  Definition apply_actions (objs : option objects) (sch : schedule) (cur : mstate) (calls : list acall) (allow : bool)
    : result mstate :=
    let executed := filter (fun c => negb (is_nop c)) calls in
    match executed with
    | [c] => do s <- apply_call dom eps objs allow (sch 0) c (ms_st cur); Ok {| ms_init := false; ms_st := s |}
    | _ => foldM (joint_member objs allow sch (ms_st cur)) (number executed)
                 {| ms_init := false; ms_st := ms_st cur |}       (* state.copy(); is_init = False *)
    end.

  (* the printed operators of a triplet: every member, nops included; unknown action names are a KeyError *)
  Definition member_text (c : acall) : result string :=
    if is_nop c then Ok (op_text NOP [])
    else match dget (d_actions dom) (ac_name c) with
         | None => Err EKey
         | Some a => Ok (op_text (ma_name a) (ac_args c))
         end.

  Record jtriplet := { jt_prev : mstate; jt_ops : list string; jt_next : mstate }.

  (* exporter_allow: MultiAgentTrajectoryExporter(domain, allow_invalid_actions); allow: the parameter of parse_plan *)
  Variable exporter_allow : bool.

  Definition create_multi_agent_triplet (objs : objects) (sch : schedule) (allow : bool) (prev : mstate)
             (line : string) : result jtriplet :=
    do calls <- parse_joint_call line;
    do txts <- mapM member_text calls;
    do nxt <- apply_actions (Some objs) sch prev (filter (fun c => negb (is_nop c)) calls) (allow || exporter_allow);
    Ok {| jt_prev := prev; jt_ops := txts; jt_next := nxt |}.

  Definition jplan_acc := (list jtriplet * mstate * nat)%type.
  (* the schedule of the i-th line: member index -> action -> orders *)
  Definition jplan_step (objs : objects) (sch : nat -> schedule) (allow : bool) (acc : jplan_acc) (line : string)
    : result jplan_acc :=
    let '(ts, prev, i) := acc in
    do t <- create_multi_agent_triplet objs (sch i) allow prev line;
    Ok (ts ++ [t], jt_next t, S i).

  Definition parse_joint_plan (objs : objects) (sch : nat -> schedule) (allow : bool) (init : state)
             (lines : list string) : result (list jtriplet) :=
    do r <- foldM (jplan_step objs sch allow) lines ([], {| ms_init := true; ms_st := init |}, 0);
    Ok (fst (fst r)).
End Joint.

Definition export_joint (ts : list jtriplet) : result (list xitem) :=
  match ts with
  | [] => Err EIndex
  | t :: _ => Ok (XState (jt_prev t) :: flat_map (fun t => [XOp (jt_ops t); XState (jt_next t)]) ts)
  end.
