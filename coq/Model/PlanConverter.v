(* Model of pddl_plus_parser/multi_agent/single_agent_plan_converter.py (PlanConverter) and
   multi_agent/common.py (apply_actions).  Definitions only.

   _extract_plan_actions : re.finditer(PLAN_COMPONENT_REGEX, plan, re.MULTILINE), group(1).lower().split();
                           executing agent = the first parameter that is in agent_names            -> extract_plan_actions
   _extract_grounded_effects / _extract_grounded_preconditions                                      -> extract_grounded_effects / _preconditions
   _validate_well_defined_action_insertion                                                          -> validate_insertion
   _validate_well_defined_joint_action                                                              -> validate (slot test) + checks (the rest)
   _create_joint_actions                                                                            -> create_joint_actions (outer / inner)
   common.apply_actions                                                                             -> apply_actions
   convert_plan                                                                                     -> convert_plan

   The scanner is written for exactly the pattern text [plan_regex_src]:  [\d+ : ]?\(([\w+\s?-]+)\)
   (the correspondence check reads the pattern from the imported module on every run and compares).
   re.finditer: candidate start positions left to right, scanning resumes at the END of a match; the optional
   one-character prefix is tried first (greedy) and then skipped; the body class holds neither '(' nor ')', so the
   greedy run may commit to the longest run: giving characters back can never make ')' match.
   ASCII input: \d = [0-9], \w = [A-Za-z0-9_], \s = str.isspace on code points < 128 (Base.Str.is_ws).

   The model describes the tree after the repairs of D25 (110baee: delete effects collected by their atom), D71 (0d0fabb:
   what the effects of an action read is collected and compared) and D64 (ab9b074: apply_actions drops nop entries first).  Quirks kept as they are in the code:
   * texts of atoms / functions ("(p a b)", "(f a)") are modelled as (name, arguments): the rendering is injective on
     token names, which hold no blank and no parenthesis;
   * iterating a GroundedPrecondition yields (operator, operand) TUPLES, so neither isinstance test of
     _extract_grounded_preconditions ever succeeds: both precondition sets are always empty (D70, open: the
     repository's own suite relies on it);
   * next_action / next_executing_agent are read ONCE before the inner while loop and never refreshed: after the
     first insertion the slot test fails, so a joint action never holds more than two actions;
   * the members of a joint action are applied one after the other, in slot order, each on the state left by the
     previous one (only applicability is tested in the step's pre-state); no object table is passed, so universal
     preconditions read true and universal effects are skipped;
   * in the condition of a conditional effect a universal condition is kept lifted: iterating it yields its LIFTED
     operands, so only the functions of its lifted numeric comparisons are collected (with parameter names). *)
From Coq Require Import List Ascii String Bool Arith NArith PrimFloat.
From Verif Require Import Base.Result Base.Str Base.PyDict Model.Types Model.Domain Model.Exec Model.PlannerLogs
  Spec.Pddl Spec.JointPlan.
Import ListNotations.
Open Scope string_scope.
Open Scope list_scope.

(* ---------- the action-line scanner ---------- *)
Definition plan_regex_src : string := "[\d+ : ]?\(([\w+\s?-]+)\)".

(* [\d+ : ] *)
Definition in_prefix (c : ascii) : bool :=
  is_digit c || Ascii.eqb c "+" || Ascii.eqb c SP || Ascii.eqb c ":".
(* [\w+\s?-] *)
Definition in_body (c : ascii) : bool :=
  is_word c || Ascii.eqb c "+" || is_ws c || Ascii.eqb c "?" || Ascii.eqb c "-".

(* \(([\w+\s?-]+)\) at the head of t: (group 1, text after the match) *)
Definition paren_here (t : text) : option (text * text) :=
  match t with
  | c :: r =>
      if Ascii.eqb c LP then
        match take_while in_body r with
        | [] => None
        | b => match drop_while in_body r with
               | d :: rest => if Ascii.eqb d RP then Some (b, rest) else None
               | [] => None
               end
        end
      else None
  | [] => None
  end.

(* the whole pattern at the head of t: with the optional prefix character consumed, then without *)
Definition match_here (t : text) : option (text * text) :=
  match t with
  | c :: r =>
      if in_prefix c then
        match paren_here r with
        | Some x => Some x
        | None => paren_here t
        end
      else paren_here t
  | [] => None
  end.

(* group 1 of every match, left to right; [skip] = characters still inside the previous match *)
Fixpoint scan (t : text) (skip : nat) : list text :=
  match t with
  | [] => []
  | _ :: r =>
      match skip with
      | S k => scan r k
      | O =>
          match match_here t with
          | Some (g, rest) => g :: scan r (List.length t - List.length rest - 1)
          | None => scan r 0
          end
      end
  end.

(* str.split(): maximal runs of non-whitespace; [cur] = reversed current word *)
Fixpoint split_ws (t : text) (cur : text) : list text :=
  match t with
  | [] => match cur with [] => [] | _ => [rev cur] end
  | c :: r =>
      if is_ws c then match cur with [] => split_ws r [] | _ => rev cur :: split_ws r [] end
      else split_ws r (c :: cur)
  end.

Notation pcall := (call * string)%type (only parsing).          (* (ActionCall, executing agent) *)

Definition action_of_group (agents : list string) (g : text) : result pcall :=
  match map t2s (split_ws (lower_text g) []) with
  | [] => Err EIndex                                                   (* action_components[0] *)
  | n :: ps =>
      match find (fun p => str_in p agents) ps with
      | Some ag => Ok ((n, ps), ag)
      | None => Err EIndex                                             (* [...][0] on an empty list *)
      end
  end.

Definition extract_plan_actions (agents : list string) (t : text) : result (list pcall) :=
  mapM (action_of_group agents) (scan t 0).

(* ---------- list helpers ---------- *)
Fixpoint index_of (x : string) (l : list string) : option nat :=
  match l with
  | [] => None
  | y :: r => if String.eqb x y then Some 0 else match index_of x r with Some n => Some (S n) | None => None end
  end.

Fixpoint set_nth {A} (n : nat) (x : A) (l : list A) : list A :=
  match l, n with
  | [], _ => []
  | _ :: r, 0 => x :: r
  | y :: r, S k => y :: set_nth k x r
  end.

Definition intersects {A B} (eqb : A -> B -> bool) (x : list A) (y : list B) : bool :=
  existsb (fun a => existsb (eqb a) y) x.

(* ---------- the greedy packing loop, for any state type, any further checks and any apply function ---------- *)
Section Loop.
  Variable St : Type.
  Variable agents : list string.
  Variable checks : St -> joint -> call -> result bool.      (* what validate does after the slot test *)
  Variable applyj : St -> list call -> result St.             (* apply_actions on the non-nop members *)

  (* _validate_well_defined_joint_action: the slot of the executing agent must still hold nop *)
  Definition validate (cur : St) (ja : joint) (next : call) (nagent : string) : result bool :=
    match index_of nagent agents with
    | None => Err EValue                                               (* list.index *)
    | Some idx =>
        match nth_error ja idx with
        | None => Err EIndex
        | Some c => if negb (is_nop c) then Ok false else checks cur ja next
        end
    end.

  (* while validate(cur, ja, next_action, next_agent): ja[index(next_agent)] = plan_actions.pop(0)[0]
     — next_action and next_agent are the ones read before the loop *)
  Fixpoint inner (fuel : nat) (cur : St) (ja : joint) (next : call) (nagent : string) (rest : list pcall)
    : result (joint * list pcall) :=
    match fuel with
    | 0 => Err EFuel
    | S f =>
        do ok <- validate cur ja next nagent;
        if ok then
          match rest with
          | [] => Err EIndex                                           (* pop from an empty list *)
          | (c, _) :: rest' =>
              match index_of nagent agents with
              | None => Err EValue
              | Some idx => inner f cur (set_nth idx c ja) next nagent rest'
              end
          end
        else Ok (ja, rest)
    end.

  Fixpoint outer (fuel : nat) (cur : St) (plan : list pcall) : result (list joint) :=
    match plan with
    | [] => Ok []
    | (a, ag) :: rest =>
        match fuel with
        | 0 => Err EFuel
        | S f =>
            match index_of ag agents with
            | None => Err EValue
            | Some idx =>
                let ja := set_nth idx a (repeat nop (List.length agents)) in
                match rest with
                | [] => Ok [ja]
                | (next, nagent) :: _ =>
                    do jr <- inner (S (List.length rest)) cur ja next nagent rest;
                    do cur' <- applyj cur (members (fst jr));
                    do js <- outer f cur' (snd jr);
                    Ok (fst jr :: js)
                end
            end
        end
    end.

  (* fuel = the length of the plan (Proofs/C15_Loop: never exhausted) *)
  Definition create_joint_actions (cur : St) (plan : list pcall) : result (list joint) :=
    outer (List.length plan) cur plan.
End Loop.

(* ---------- the interference test and the executor of the library ---------- *)
Definition dkey := (bool * atom)%type.        (* the text of a literal: "(p a)" / "(not (p a))" *)
Definition dkey_is_atom (k : dkey) (a : atom) : bool := fst k && atom_eqb (snd k) a.

Record esets := {
  s_add : list atom; s_del : list atom; s_num : list atom;       (* atoms added, atoms deleted, functions assigned *)
  s_pre : list dkey; s_prenum : list atom;                        (* discrete preconditions, functions of numeric preconditions *)
  s_effatoms : list atom; s_efffl : list atom                     (* atoms / functions read by the effects *)
}.
Definition esets_empty : esets :=
  {| s_add := []; s_del := []; s_num := []; s_pre := []; s_prenum := []; s_effatoms := []; s_efffl := [] |}.
Definition esets_union (x y : esets) : esets :=
  {| s_add := s_add x ++ s_add y; s_del := s_del x ++ s_del y; s_num := s_num x ++ s_num y;
     s_pre := s_pre x ++ s_pre y; s_prenum := s_prenum x ++ s_prenum y;
     s_effatoms := s_effatoms x ++ s_effatoms y; s_efffl := s_efffl x ++ s_efffl y |}.

(* numeric_effect.root.children[0].value.untyped_representation *)
Definition assigned_fluent (t : gtree) : result atom :=
  match t with
  | GTNode _ (GTFn a) _ => Ok a
  | _ => Err EAttr
  end.

(* every grounded effect group (unconditional and conditional), whatever its antecedent;
   a delete effect by the atom it removes *)
Definition extract_grounded_effects (ga : gaction) : result (list atom * list atom * list atom) :=
  let disc := flat_map gg_disc (ga_groups ga) in
  do nums <- mapM assigned_fluent (flat_map gg_num (ga_groups ga));
  Ok (map snd (filter (fun k : dkey => fst k) disc), map snd (filter (fun k : dkey => negb (fst k)) disc), nums).

(* the loop variable is a tuple: no isinstance test succeeds *)
Definition extract_grounded_preconditions (ga : gaction) : list dkey * list atom := ([], []).

(* the PDDLFunction leaves of an expression *)
Fixpoint gtree_fluents (t : gtree) : list atom :=
  match t with
  | GTNum _ => []
  | GTFn a => [a]
  | GTNode _ l r => gtree_fluents l ++ gtree_fluents r
  end.
Fixpoint mtree_fluents (t : mtree) : list atom :=
  match t with
  | TNum _ => []
  | TFn f args => [(f, args)]
  | TNode _ l r => mtree_fluents l ++ mtree_fluents r
  end.

(* iterating a lifted condition: nested conditions are flattened; only numeric comparisons matter below *)
Fixpoint mpre_fluents (p : mpre) : list atom :=
  match p with
  | MPre _ os _ _ =>
      (fix go (l : list mcond) : list atom :=
         match l with
         | [] => []
         | c :: r => mcond_fluents c ++ go r
         end) os
  end
with mcond_fluents (c : mcond) : list atom :=
  match c with
  | MLit _ _ _ => []
  | MNum t => mtree_fluents t
  | MNested q => mpre_fluents q
  | MUniv _ _ body => mpre_fluents body
  end.

(* iterating a grounded condition: (atoms of the grounded literals, functions of the numeric comparisons) *)
Fixpoint gpre_reads (g : gpre) : list atom * list atom :=
  match g with
  | GPre _ os _ _ =>
      (fix go (l : list gcond) : list atom * list atom :=
         match l with
         | [] => ([], [])
         | c :: r => let x := gcond_reads c in let y := go r in (fst x ++ fst y, snd x ++ snd y)
         end) os
  end
with gcond_reads (c : gcond) : list atom * list atom :=
  match c with
  | GLit _ a => ([a], [])
  | GNum t => ([], gtree_fluents t)
  | GNested q => gpre_reads q
  | GUniv _ _ body _ => ([], mpre_fluents body)
  end.

(* _extract_effect_dependencies *)
Definition group_dependencies (g : ggroup) : result (list atom * list atom) :=
  do rhs <- mapM (fun t => match t with GTNode _ _ r => Ok (gtree_fluents r) | _ => Err EIndex end) (gg_num g);
  let c := match gg_ante g with Some a => gpre_reads a | None => ([], []) end in
  Ok (fst c, List.concat rhs ++ snd c).

Definition extract_effect_dependencies (ga : gaction) : result (list atom * list atom) :=
  do ds <- mapM group_dependencies (ga_groups ga);
  Ok (flat_map fst ds, flat_map snd ds).

Definition action_sets (ga : gaction) : result esets :=
  do e <- extract_grounded_effects ga;
  let p := extract_grounded_preconditions ga in
  do d <- extract_effect_dependencies ga;
  Ok {| s_add := fst (fst e); s_del := snd (fst e); s_num := snd e; s_pre := fst p; s_prenum := snd p;
        s_effatoms := fst d; s_efffl := snd d |}.

Definition insertion_ok (acc nx : esets) : bool :=
  negb (intersects atom_eqb (s_add acc) (s_del nx)
        || intersects atom_eqb (s_del acc) (s_add nx)
        || intersects dkey_is_atom (s_pre acc) (s_del nx)
        || intersects atom_eqb (s_num acc) (s_num nx)
        || intersects atom_eqb (s_prenum acc) (s_num nx)
        || intersects atom_eqb (s_num acc) (s_prenum nx)
        || intersects atom_eqb (s_effatoms acc) (s_add nx ++ s_del nx)
        || intersects atom_eqb (s_effatoms nx) (s_add acc ++ s_del acc)
        || intersects atom_eqb (s_efffl acc) (s_num nx)
        || intersects atom_eqb (s_efffl nx) (s_num acc)).

(* the test as it was before the repairs of D25 and D71 (kept to state the findings; Proofs/C15_Findings.v):
   deletes carried the text "(not (p a))", nothing an effect reads was collected *)
Definition insertion_ok_before (acc nx : esets) : bool :=
  negb (false || false || false
        || intersects atom_eqb (s_num acc) (s_num nx)
        || intersects atom_eqb (s_prenum acc) (s_num nx)
        || intersects atom_eqb (s_num acc) (s_prenum nx)
        || intersects atom_eqb (s_prenum acc) (s_prenum nx)).

Section Converter.
  Variable dom : mdomain.
  Variable eps : float.
  Variable agents : list string.
  Variable flag : bool.                       (* should_validate_concurrency_constraint *)
  Variable test : esets -> esets -> bool.     (* the final comparison of the sets: [insertion_ok] *)

  (* Operator(domain.actions[name], domain, parameters).ground() *)
  Definition mk_op (c : call) : result gaction :=
    match dget (d_actions dom) (fst c) with
    | None => Err EKey
    | Some a => ground_action dom a (snd c)
    end.

  Definition group_ids (ga : gaction) : list nat := seq 0 (List.length (ga_groups ga)).

  Definition accumulate (ja : joint) : result esets :=
    foldM (fun acc c => if is_nop c then Ok acc
                        else do ga <- mk_op c; do s <- action_sets ga; Ok (esets_union acc s))
          ja esets_empty.

  Definition validate_insertion (ja : joint) (next_ga : gaction) : result bool :=
    do acc <- accumulate ja;
    do nx <- action_sets next_ga;
    Ok (test acc nx).

  (* JointActionCall.joint_parameters *)
  Definition joint_parameters (ja : joint) : list string := flat_map snd ja.

  Definition checks (cur : state) (ja : joint) (next : call) : result bool :=
    if intersects String.eqb (joint_parameters ja) (snd next) && flag then Ok false
    else
      do ga <- mk_op next;
      do b <- is_applicable dom eps None ga cur;
      if negb b then Ok false else validate_insertion ja ga.

  (* common.apply_actions (allow_inapplicable_actions = False, no object table): the nop entries are dropped first
     (after the repair of D64), a single remaining action is applied by Operator.apply itself *)
  Definition apply_actions (cur : state) (ms : list call) : result state :=
    match members ms with
    | [c] => do ga <- mk_op c; apply_op dom eps ga None false false (group_ids ga) [] cur
    | ex =>
        foldM (fun acc c =>
                 do ga <- mk_op c;
                 do b <- is_applicable dom eps None ga cur;
                 if b then apply_op dom eps ga None true false (group_ids ga) [] acc
                 else Err EValue)
              ex cur
    end.

  Definition convert_actions (init : state) (plan : list pcall) : result (list joint) :=
    create_joint_actions state agents checks apply_actions init plan.

  Definition convert_plan (init : state) (t : text) : result (list joint) :=
    do plan <- extract_plan_actions agents t;
    convert_actions init plan.

  (* executing the two plans with the library's own functions *)
  Definition run_sequential (init : state) (plan : list call) : result state :=
    foldM (fun s c => apply_actions s [c]) plan init.
  Definition run_joint (init : state) (js : list joint) : result state :=
    foldM (fun s j => apply_actions s (members j)) js init.
End Converter.

(* str(ActionCall), str(JointActionCall) *)
Definition show_call (c : call) : string := "(" ++ fst c ++ " " ++ join " " (snd c) ++ ")".
Definition show_joint (j : joint) : string := "[" ++ join "," (map show_call j) ++ "]".
