(* Model of the trajectory text: exporters/numeric_trajectory_exporter.py (TrajectoryExporter.export / export_to_file),
   multi_agent/multi_agent_trajectory_exporter.py (MultiAgentTrajectoryExporter.export), models/action_call.py,
   models/observation.py and lisp_parsers/trajectory_parser.py (TrajectoryParser).

   Triplets are data here (previous state, operator(s), next state); how they arise from a plan is Model/Plan.v.
   export        : the list of lines (first state, then per triplet an operator line and the next state, the whole
                   wrapped in one pair of parentheses); IndexError on an empty list (triplets[0]);
   export_text   : writelines = concatenation;
   parse_trajectory : on the token tree PDDLTokenizer.parse() returns for that text; object table given by the problem
                   or deduced from the first state; single calls ("operator:") and joint actions ("operators:", nop).
   The parser has no bookkeeping for repeated arguments of a fluent: its signature dict is keyed by object name
   (finding D07), which the model reproduces through PyDict.dset.
   Definitions only. *)
From Coq Require Import List Ascii String Bool Arith PrimFloat.
From Verif Require Import Base.Result Base.Str Base.Sexp Base.PyDict Base.Float Model.Types Model.Domain Model.State.
Import ListNotations.
Open Scope string_scope.
Open Scope list_scope.

(* ---------- action calls ---------- *)
Definition call := (string * list string)%type.              (* name, grounded parameters *)

(* Operator.__str__ / ActionCall.__str__: f"({name} {' '.join(objects)})";  NOPOperator: "(nop )" *)
Definition call_text (c : call) : string := "(" +++ fst c +++ " " +++ join " " (snd c) +++ ")".
Definition nop_call : call := ("nop", []).

Inductive tact :=
| ASingle (c : call)                                          (* TrajectoryTriplet.operator *)
| AJoint (l : list call).                                     (* MultiAgentTrajectoryTriplet.joint_action; NOPOperator = nop_call *)

Record triplet := { t_pre : mstate; t_act : tact; t_post : mstate }.

(* ---------- export ---------- *)
Section Export.
  Variable num_text : float -> string.

  Definition action_line (a : tact) : string :=
    match a with
    | ASingle c => "(operator: " +++ call_text c +++ ")" +++ LFs
    | AJoint l => "(operators: " +++ join " " (map call_text l) +++ ")" +++ LFs
    end.

  Fixpoint map_last {A} (f : A -> A) (l : list A) : list A :=
    match l with
    | [] => []
    | [x] => [f x]
    | x :: r => x :: map_last f r
    end.
  Definition map_first {A} (f : A -> A) (l : list A) : list A :=
    match l with [] => [] | x :: r => f x :: r end.

  (* the exporter, for a given state printer *)
  Section With.
    Variable ser : mstate -> string.

    Definition export_with (ts : list triplet) : result (list string) :=
      match ts with
      | [] => Err EIndex                                        (* triplets[0] *)
      | t0 :: _ =>
          let lines := ser (t_pre t0) ::
                       flat_map (fun t => [action_line (t_act t); ser (t_post t)]) ts in
          Ok (map_last (fun s => s +++ ")") (map_first (fun s => "(" +++ s) lines))
      end.

    Definition export_text_with (ts : list triplet) : result string :=
      do lines <- export_with ts; Ok (fold_right String.append "" lines).
  End With.

  (* TrajectoryExporter.export / export_to_file: State.serialize *)
  Definition export (ts : list triplet) : result (list string) := export_with (serialize num_text) ts.
  Definition export_text (ts : list triplet) : result string := export_text_with (serialize num_text) ts.
End Export.

(* ---------- the observation ---------- *)
Inductive ocall :=
| OSingle (c : call)                                          (* ObservedComponent.grounded_action_call *)
| OJoint (l : list call).                                     (* MultiAgentComponent.grounded_joint_action.actions *)

Record ocomp := { oc_prev : mstate; oc_call : ocall; oc_next : mstate }.
Record observation := { ob_objects : pydict string; ob_components : list ocomp }.

(* ---------- TrajectoryParser ---------- *)
Section Parser.
  Variable dom : mdomain.
  Variable num : numparser.                                   (* float(text) *)
  Variable problem : option (pydict string).                  (* problem.objects: name -> type name; None: no problem given *)

  (* {**problem.objects, **domain.constants}[name].type *)
  Definition object_type (objs : pydict string) (o : string) : result string :=
    match dget (d_consts dom) o with
    | Some t => Ok t
    | None => match dget objs o with Some t => Ok t | None => Err EKey end
    end.

  (* a dict comprehension / dict(...) over pairs: first position, last value *)
  Definition dict_of {V} (kvs : list (string * V)) : pydict V :=
    fold_left (fun acc kv => dset acc (fst kv) (snd kv)) kvs [].

  (* parse_grounded_numeric_fluent *)
  Definition parse_fluent (fd : sexp) : result pfun :=
    match fd with
    | SList (Atom fname :: args) =>
        match dget (d_funcs dom) fname with
        | None => Err EAssert
        | Some lifted =>
            do items <- atoms_of args;
            if negb (Nat.eqb (List.length items) (List.length lifted)) then Err EValue
            else
              match problem with
              | None =>
                  Ok {| pf_name := fname; pf_sig := dict_of (combine items (dvalues lifted));
                        pf_val := 0%float; pf_rep := []; pf_int := true |}
              | Some objs =>
                  do typed <- mapM (fun o => do t <- object_type objs o; Ok (o, t)) items;
                  let fsig := dict_of typed in
                  (* argument i against parameter i (D31 = 3c74fae); the signature stays the name-keyed dict *)
                  if forallb (fun gt => is_sub_type (d_types dom) (fst gt) (snd gt))
                             (combine (map snd typed) (dvalues lifted))
                  then Ok {| pf_name := fname; pf_sig := fsig; pf_val := 0%float; pf_rep := []; pf_int := true |}
                  else Err EAssert
              end
        end
    | SList (SList _ :: _) => Err EType
    | SList [] => Err EIndex
    | Atom _ => Err EAssert                                    (* a bare token where the fluent should be *)
    end.

  (* numeric_fluent.set_value(float(text)): the parser hands over a float *)
  Definition pf_set_value (f : pfun) (v : float) : pfun :=
    {| pf_name := pf_name f; pf_sig := pf_sig f; pf_val := v; pf_rep := pf_rep f; pf_int := false |}.

  (* parse_grounded_predicate (no type check on the arguments) *)
  Definition parse_fact (pname : string) (lifted : signature) (args : list sexp) : result gpred :=
    do items <- atoms_of args;
    if negb (Nat.eqb (List.length items) (List.length lifted)) then Err EValue
    else
      let mapping := dict_of (combine (dkeys lifted) items) in
      match problem with
      | None => Ok {| gp_name := pname; gp_sig := lifted; gp_map := mapping; gp_pos := true |}
      | Some objs =>
          do gsig <- mapM (fun po => do t <- object_type objs (snd po); Ok (fst po, t)) mapping;
          Ok {| gp_name := pname; gp_sig := dict_of gsig; gp_map := mapping; gp_pos := true |}
      end.

  (* Predicate.untyped_representation of the lifted predicate: the key of state_predicates *)
  Definition lifted_key (pname : string) (lifted : signature) : string :=
    "(" +++ pname +++ " " +++ join " " (dkeys lifted) +++ ")".

  (* one expression of a state *)
  Definition parse_state_component (s : mstate) (e : sexp) : result mstate :=
    match e with
    | SList (Atom h :: rest) =>
        if String.eqb h "=" then
          match rest with
          | [fd; v] =>
              do x <- match v with
                      | Atom t => match num t with Some x => Ok x | None => Err EValue end
                      | SList _ => Err EType
                      end;
              do f <- parse_fluent fd;
              Ok {| st_init := st_init s; st_preds := st_preds s;
                    st_fluents := fluents_put (pf_set_value f x) (st_fluents s) |}
          | _ => Err ESyntax
          end
        else
          match dget (d_preds dom) h with
          | Some lifted =>
              do g <- parse_fact h lifted rest;
              Ok {| st_init := st_init s; st_preds := preds_add (lifted_key h lifted) g (st_preds s);
                    st_fluents := st_fluents s |}
          | None => Err EValue
          end
    | SList (SList _ :: _) => Err EType                        (* a list looked up in the predicates dict *)
    | SList [] => Err EIndex
    | Atom _ => Err EValue                                     (* a bare token: no component of a state *)
    end.

  (* parse_state: State(predicates, fluents) with is_init = False *)
  Definition parse_state (items : list sexp) : result mstate :=
    foldM parse_state_component items (empty_state false).

  (* deduce_problem_objects *)
  Definition deduce_component (acc : pydict string) (e : sexp) : result (pydict string) :=
    match e with
    | SList (Atom h :: rest) =>
        if String.eqb h "=" then
          match rest with
          | SList (Atom fname :: args) :: _ =>
              match dget (d_funcs dom) fname with
              | None => Err EKey
              | Some lifted =>
                  do items <- atoms_of args;
                  Ok (fold_left (fun a ot => dset a (fst ot) (snd ot)) (combine items (dvalues lifted)) acc)
              end
          | SList [] :: _ => Err EIndex
          | SList (SList _ :: _) :: _ => Err EType
          | Atom _ :: _ => Err EKey
          | [] => Err EIndex
          end
        else
          match dget (d_preds dom) h with
          | Some lifted =>
              do items <- atoms_of rest;
              Ok (fold_left (fun a ot => dset a (fst ot) (snd ot)) (combine items (dvalues lifted)) acc)
          | None => Ok acc
          end
    | SList (SList _ :: _) => Err EType
    | SList [] => Err EIndex
    | Atom _ => Ok acc
    end.

  Definition deduce_objects (items : list sexp) : result (pydict string) := foldM deduce_component items [].

  (* parse_action_call(ast): ast[0] is the call *)
  Definition parse_call (e : sexp) : result call :=
    match e with
    | SList (Atom n :: args) => do a <- atoms_of args; Ok (n, a)
    | SList (SList _ :: _) => Err EType
    | SList [] => Err EIndex
    | Atom _ => Err EType
    end.

  (* parse_joint_action: zip(executing_agents, calls) *)
  Fixpoint parse_joint (agents : list string) (asts : list sexp) : result (list call) :=
    match agents, asts with
    | _ :: ag, e :: r =>
        do c <- (match e with
                 | SList (Atom h :: _) => if String.eqb h "nop" then Ok nop_call else parse_call e
                 | _ => parse_call e
                 end);
        do cs <- parse_joint ag r; Ok (c :: cs)
    | _, _ => Ok []
    end.

  Section Steps.
    Variable agents : option (list string).

    Definition parse_action (e : sexp) : result ocall :=
      match e with
      | SList (Atom h :: rest) =>
          if String.eqb h "operator:" then
            match rest with
            | c :: _ => do x <- parse_call c; Ok (OSingle x)
            | [] => Err EIndex
            end
          else if String.eqb h "operators:" then
            match agents with
            | Some ag => do l <- parse_joint ag rest; Ok (OJoint l)
            | None => Err EType                                (* zip(None, ...) *)
            end
          else Err ESyntax
      | SList (SList _ :: _) => Err ESyntax
      | SList [] => Err EIndex
      | Atom _ => Err ESyntax
      end.

    Definition state_items (e : sexp) : result (list sexp) :=
      match e with
      | SList (Atom h :: items) => if String.eqb h ":state" then Ok items else Err ESyntax
      | SList (SList _ :: _) => Err ESyntax
      | SList [] => Err EIndex
      | Atom _ => Err ESyntax
      end.

    (* the for loop over range(1, len, 2) *)
    Fixpoint parse_steps (l : list sexp) (prev : mstate) : result (list ocomp) :=
      match l with
      | [] => Ok []
      | a :: r =>
          do act <- parse_action a;
          match r with
          | [] => Err EIndex                                   (* observation_expression[index + 1] *)
          | s :: r' =>
              do items <- state_items s;
              do next <- parse_state items;
              do rest <- parse_steps r' (state_copy next);
              Ok ({| oc_prev := prev; oc_call := act; oc_next := next |} :: rest)
          end
      end.

    Definition parse_trajectory (strict : bool) (tree : sexp) : result observation :=
      match tree with
      | SList (init :: rest) =>
          match init with
          | SList (Atom h :: items) =>
              if negb (String.eqb h ":init") && strict then Err ESyntax
              else
                do objs <- (match problem with Some o => Ok o | None => deduce_objects items end);
                do s0 <- parse_state items;
                do comps <- parse_steps rest s0;
                Ok {| ob_objects := objs; ob_components := comps |}
          | SList (SList _ :: _) => Err EType
          | SList [] => Err EIndex
          | Atom _ => Err EOther                               (* a bare token where the first state should be *)
          end
      | SList [] => Err EIndex
      | Atom _ => Err EOther
      end.
  End Steps.
End Parser.
