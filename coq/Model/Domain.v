(* Model of the domain parser: lisp_parsers/{domain_parser,preconditions_parser,effects_parser,parsing_utils}.py
   and models/numerical_expression.py:construct_expression_tree, on the tree after the repairs
   D03-D06 (see known_findings.json).  One function per Python function, same branch order.
   The object model keeps the library's shape: a precondition is an operator with a collection of operands
   plus separate sets of (in)equality pairs; effects are split into discrete / numeric / conditional / universal.
   An atom or a function application with a repeated argument or a wrong number of arguments is an error
   (ValueError) in the library since the D46 repair, and so it is here. *)
From Coq Require Import List Ascii String Bool Arith PrimFloat.
From Verif Require Import Base.Result Base.Str Base.Sexp Base.PyDict Model.Types.
Import ListNotations.
Open Scope string_scope.
Open Scope list_scope.

(* ---------- object model ---------- *)
Definition signature := pydict string.                       (* parameter name -> type name *)

Inductive mtree :=
| TNum (x : float)
| TFn (f : string) (args : list string)
| TNode (op : string) (l r : mtree).

Inductive mcond :=
| MLit (pos : bool) (p : string) (args : list string)
| MNum (t : mtree)
| MNested (c : mpre)
| MUniv (v ty : string) (c : mpre)
with mpre :=
| MPre (op : string) (operands : list mcond) (eqs neqs : list (string * string)).

Record mlit := { l_pos : bool; l_name : string; l_args : list string }.
Record mcondeff := { ce_ante : mpre; ce_disc : list mlit; ce_num : list mtree }.
Record muniveff := { ue_var : string; ue_ty : string; ue_ce : mcondeff }.

Record maction := {
  ma_name : string;
  ma_sig : signature;
  ma_pre : mpre;
  ma_disc : list mlit;
  ma_num : list mtree;
  ma_cond : list mcondeff;
  ma_univ : list muniveff
}.

Record mdomain := {
  d_name : string;
  d_reqs : list string;
  d_types : typetable;
  d_consts : pydict string;                                   (* constant -> type name *)
  d_preds : pydict signature;
  d_funcs : pydict signature;
  d_actions : pydict maction
}.

(* how a numeric literal is read: float(str) is data crossing the boundary, supplied by the caller *)
Definition numparser := string -> option float.

(* ---------- helpers ---------- *)
Definition starts_with_q (s : string) : bool :=
  match s with String c _ => Ascii.eqb c "?"%char | EmptyString => false end.

Fixpoint atoms_of (l : list sexp) : result (list string) :=
  match l with
  | [] => Ok []
  | Atom s :: r => do rs <- atoms_of r; Ok (s :: rs)
  | SList _ :: _ => Err EType
  end.

Fixpoint has_dup (l : list string) : bool :=
  match l with [] => false | x :: r => str_in x r || has_dup r end.

(* x[0] for a token tree: the first element of a list, the first character of a token *)
Definition head_of (e : sexp) : result string :=
  match e with
  | SList (Atom h :: _) => Ok h
  | SList (SList _ :: _) => Err EType                        (* a list compared / hashed: unhashable or never equal *)
  | SList [] => Err EIndex
  | Atom (String c _) => Ok (String c EmptyString)
  | Atom EmptyString => Err EIndex
  end.

(* ---------- parsing_utils.parse_signature ---------- *)
Fixpoint parse_signature_aux (tt : typetable) (toks : list sexp) (grouped : list string) (sg : signature)
  : result signature :=
  match toks with
  | [] => Ok (fold_left (fun acc p => dset acc p "object") grouped sg)
  | SList _ :: _ => Err EAttr                                 (* list.startswith *)
  | Atom t :: rest =>
      if String.eqb t "-" then
        match rest with
        | [] => Err EOther                                    (* StopIteration *)
        | SList _ :: _ => Err EType
        | Atom ty :: rest' =>
            if negb (forallb starts_with_q grouped) then Err ESyntax
            else if negb (type_known tt ty) then
              match grouped with [] => parse_signature_aux tt rest' [] sg | _ => Err EKey end
            else parse_signature_aux tt rest' [] (fold_left (fun acc p => dset acc p ty) grouped sg)
        end
      else if negb (starts_with_q t) then Err ESyntax
      else parse_signature_aux tt rest (grouped ++ [t]) sg
  end.
Definition parse_signature (tt : typetable) (toks : list sexp) : result signature :=
  parse_signature_aux tt toks [] [].

(* ---------- domain_parser.parse_constants (constants without a type are of type object: D45 repaired) ---------- *)
Fixpoint parse_constants_aux (tt : typetable) (toks : list sexp) (same : list string) (marker : bool)
  (acc : pydict string) : result (pydict string) :=
  match toks with
  | [] => Ok (fold_left (fun a c => dset a c "object") same acc)
  | SList _ :: _ => Err EType
  | Atom t :: rest =>
      if marker then
        if negb (type_known tt t) then Err ESyntax
        else parse_constants_aux tt rest [] false (fold_left (fun a c => dset a c t) same acc)
      else if String.eqb t "-" then parse_constants_aux tt rest same true acc
      else parse_constants_aux tt rest (same ++ [t]) false acc
  end.
Definition parse_constants (tt : typetable) (toks : list sexp) : result (pydict string) :=
  parse_constants_aux tt toks [] false [].

(* ---------- predicates and functions ---------- *)
Definition parse_predicate (tt : typetable) (e : sexp) : result (string * signature) :=
  match e with
  | SList (Atom n :: params) => do sg <- parse_signature tt params; Ok (n, sg)
  | _ => Err EType
  end.

Fixpoint parse_predicates (tt : typetable) (l : list sexp) (acc : pydict signature) : result (pydict signature) :=
  match l with
  | [] => Ok acc
  | e :: rest =>
      match e with
      | SList (Atom ":private" :: privs) =>
          do acc' <- foldM (fun a p => do ns <- parse_predicate tt p; Ok (dset a (fst ns) (snd ns))) privs acc;
          parse_predicates tt rest acc'
      | _ => do ns <- parse_predicate tt e; parse_predicates tt rest (dset acc (fst ns) (snd ns))
      end
  end.

Definition parse_function (tt : typetable) (e : sexp) : result (string * signature) :=
  match e with
  | SList (Atom n :: params) =>
      if negb (Nat.eqb (Nat.modulo (List.length params) 3) 0) then Err ESyntax
      else do sg <- parse_signature tt params; Ok (n, sg)
  | _ => Err EType
  end.

(* ---------- numerical_expression.construct_expression_tree ---------- *)
Definition numeric_ops : list string := ["+"; "-"; "/"; "*"].
Definition legal_numerical : list string :=
  ["="; "!="; "<="; ">="; ">"; "<"; "+"; "-"; "/"; "*"; "increase"; "decrease"; "assign"].

Definition all_atoms (l : list sexp) : bool :=
  forallb (fun e => match e with Atom _ => true | SList _ => false end) l.

Section Trees.
  Variable num : numparser.
  Variable funcs : pydict signature.

  Definition leaf_number (s : string) : result mtree :=
    if str_in s legal_numerical then Err ESyntax
    else match num s with Some x => Ok (TNum x) | None => Err ESyntax end.

  (* binary only: a node with more than two operands is an error (after the D08 repair), fewer is IndexError *)
  Fixpoint construct (fuel : nat) (e : sexp) : result mtree :=
    match fuel with
    | 0 => Err EFuel
    | S fu =>
        match e with
        | Atom s => leaf_number s
        | SList l =>
            if all_atoms l then
              match l with
              | [] => Err EIndex
              | Atom h :: args =>
                  if str_in h numeric_ops then
                    match args with
                    | [Atom a; Atom b] =>
                        match num a, num b with
                        | Some x, Some y => Ok (TNode h (TNum x) (TNum y))
                        | _, _ => Err EValue
                        end
                    | [] | [_] => Err EIndex
                    | _ => Err ESyntax
                    end
                  else
                    match dget funcs h with
                    | None => Err EKey
                    | Some sg =>
                        do args' <- atoms_of args;
                        (* arity and repeats are checked for every application, '(f)' included (D46/D47 repaired) *)
                        if negb (Nat.eqb (List.length args') (List.length sg)) then Err EValue
                        else if has_dup args' then Err EValue
                        else Ok (TFn h args')
                    end
              | SList _ :: _ => Err EType
              end
            else
              match l with
              | [Atom h; a; b] => do ta <- construct fu a; do tb <- construct fu b; Ok (TNode h ta tb)
              | Atom _ :: _ :: _ :: _ :: _ => Err ESyntax
              | Atom _ :: _ => Err EIndex
              | _ => Err EType
              end
        end
    end.
End Trees.

(* ---------- parsing_utils.parse_untyped_predicate ---------- *)
Definition parse_untyped_predicate (sg : signature) (consts : pydict string) (pos : bool) (e : sexp)
  : result mlit :=
  match e with
  | SList (Atom n :: args) =>
      do args' <- atoms_of args;
      if negb (forallb (fun a => dmem sg a || dmem consts a) args') then Err EKey
      else if has_dup args' then Err EValue                                   (* D07 *)
      else Ok {| l_pos := pos; l_name := n; l_args := args' |}
  | _ => Err EType
  end.

(* ---------- preconditions_parser.PreconditionsParser.parse ---------- *)
Section Preconditions.
  Variable num : numparser.
  Variable tt : typetable.
  Variable consts : pydict string.
  Variable preds : pydict signature.
  Variable funcs : pydict signature.

  Definition comparison_ops : list string := ["<="; ">="; ">"; "<"].

  Definition add_operand (c : mcond) (p : mpre) : mpre :=
    match p with MPre op os eqs neqs => MPre op (os ++ [c]) eqs neqs end.
  Definition add_eq (pr : string * string) (p : mpre) : mpre :=
    match p with MPre op os eqs neqs => MPre op os (eqs ++ [pr]) neqs end.
  Definition add_neq (pr : string * string) (p : mpre) : mpre :=
    match p with MPre op os eqs neqs => MPre op os eqs (neqs ++ [pr]) end.

  Definition tree_fuel (e : sexp) : nat := S (size e).

  (* parse the list of nodes [nodes] into the root [root] *)
  Fixpoint parse_pre (fuel : nat) (sg : signature) (root : mpre) (nodes : list sexp) : result mpre :=
    match fuel with
    | 0 => Err EFuel
    | S fu =>
        match nodes with
        | [] => Ok root
        | node :: rest =>
            do h <- head_of node;
            do root' <-
              (if String.eqb h "and" || String.eqb h "or" then
                 match node with
                 | SList (_ :: subs) =>
                     do nested <- parse_pre fu sg (MPre h [] [] []) subs;
                     Ok (add_operand (MNested nested) root)
                 | _ => Err EType
                 end
               else if dmem preds h then
                 do l <- parse_untyped_predicate sg consts true node;
                 Ok (add_operand (MLit true (l_name l) (l_args l)) root)
               else if String.eqb h "not" then
                 match node with
                 | SList (_ :: inner :: _) =>
                     do ih <- head_of inner;
                     if String.eqb ih "=" then
                       match inner with
                       | SList (_ :: Atom a :: Atom b :: _) => Ok (add_neq (a, b) root)
                       | SList (_ :: _ :: _ :: _) => Err EType
                       | _ => Err EIndex
                       end
                     else
                       do l <- parse_untyped_predicate sg consts false inner;
                       Ok (add_operand (MLit false (l_name l) (l_args l)) root)
                 | _ => Err EIndex
                 end
               else if String.eqb h "=" then
                 match node with
                 | SList (_ :: SList _ :: _) =>
                     do t <- construct num funcs (tree_fuel node) node; Ok (add_operand (MNum t) root)
                 | SList (_ :: Atom a :: Atom b :: _) => Ok (add_eq (a, b) root)
                 | SList (_ :: Atom _ :: SList _ :: _) => Err EType
                 | _ => Err EIndex
                 end
               else if str_in h comparison_ops then
                 do t <- construct num funcs (tree_fuel node) node; Ok (add_operand (MNum t) root)
               else if String.eqb h "forall" then
                 match node with
                 | SList (_ :: SList [Atom v; _; Atom ty] :: body :: _) =>
                     do bh <- head_of body;
                     if negb (String.eqb bh "and" || String.eqb bh "or") then Err ESyntax
                     else if negb (type_known tt ty) then Err EKey
                     else
                       match body with
                       | SList (_ :: subs) =>
                           do u <- parse_pre fu (dset sg v ty) (MPre bh [] [] []) subs;
                           Ok (add_operand (MUniv v ty u) root)
                       | _ => Err EType
                       end
                 | SList (_ :: SList [_; _; _] :: _ :: _) => Err EType
                 | SList (_ :: SList _ :: _ :: _) => Err ESyntax
                 | _ => Err EIndex
                 end
               else Err ESyntax);
            parse_pre fu sg root' rest
        end
    end.
End Preconditions.

(* ---------- effects_parser ---------- *)
Section Effects.
  Variable num : numparser.
  Variable tt : typetable.
  Variable consts : pydict string.
  Variable preds : pydict signature.
  Variable funcs : pydict signature.

  Definition assignment_ops : list string := ["assign"; "increase"; "decrease"].

  (* _parse_result: a literal or a numeric effect *)
  Definition parse_result (sg : signature) (e : sexp) : result (mlit + mtree) :=
    do h <- head_of e;
    if String.eqb h "not" then
      match e with
      | SList (_ :: inner :: _) => do l <- parse_untyped_predicate sg consts false inner; Ok (inl l)
      | _ => Err EIndex
      end
    else if str_in h assignment_ops then do t <- construct num funcs (tree_fuel e) e; Ok (inr t)
    else do l <- parse_untyped_predicate sg consts true e; Ok (inl l).

  Definition split_results (rs : list (mlit + mtree)) : list mlit * list mtree :=
    (flat_map (fun r => match r with inl l => [l] | inr _ => [] end) rs,
     flat_map (fun r => match r with inl _ => [] | inr t => [t] end) rs).

  Definition parse_conditional_effect (sg : signature) (e : sexp) : result mcondeff :=
    match e with
    | SList [Atom "when"; cond; res] =>
        do ch <- head_of cond;
        let nodes := if String.eqb ch "and" then match cond with SList (_ :: subs) => subs | _ => [] end
                     else [cond] in
        do ante <- parse_pre num tt consts preds funcs (S (size cond)) sg (MPre "and" [] [] []) nodes;
        do rh <- head_of res;
        do rs <- (if String.eqb rh "and"
                  then match res with SList (_ :: subs) => mapM (parse_result sg) subs | _ => Err EType end
                  else do r <- parse_result sg res; Ok [r]);
        let (disc, nums) := split_results rs in
        Ok {| ce_ante := ante; ce_disc := disc; ce_num := nums |}
    | SList _ => Err ESyntax
    | _ => Err EType
    end.

  Definition parse_universal_effect (sg : signature) (e : sexp) : result muniveff :=
    match e with
    | SList [_; SList [Atom v; _; Atom ty]; ce] =>
        if negb (type_known tt ty) then Err EKey
        else do c <- parse_conditional_effect (dset sg v ty) ce;
             Ok {| ue_var := v; ue_ty := ty; ue_ce := c |}
    | SList [_; SList [_; _; _]; _] => Err EType
    | SList _ => Err ESyntax
    | _ => Err EType
    end.

  Record effacc := { ea_disc : list mlit; ea_num : list mtree; ea_cond : list mcondeff; ea_univ : list muniveff }.

  Definition parse_effect_node (sg : signature) (acc : effacc) (node : sexp) : result effacc :=
    do h <- head_of node;
    if dmem preds h then
      do l <- parse_untyped_predicate sg consts true node;
      Ok {| ea_disc := ea_disc acc ++ [l]; ea_num := ea_num acc; ea_cond := ea_cond acc; ea_univ := ea_univ acc |}
    else if String.eqb h "not" then
      match node with
      | SList (_ :: inner :: _) =>
          do l <- parse_untyped_predicate sg consts false inner;
          Ok {| ea_disc := ea_disc acc ++ [l]; ea_num := ea_num acc; ea_cond := ea_cond acc; ea_univ := ea_univ acc |}
      | _ => Err EIndex
      end
    else if String.eqb h "forall" then
      do u <- parse_universal_effect sg node;
      Ok {| ea_disc := ea_disc acc; ea_num := ea_num acc; ea_cond := ea_cond acc; ea_univ := ea_univ acc ++ [u] |}
    else if String.eqb h "when" then
      do c <- parse_conditional_effect sg node;
      Ok {| ea_disc := ea_disc acc; ea_num := ea_num acc; ea_cond := ea_cond acc ++ [c]; ea_univ := ea_univ acc |}
    else if str_in h assignment_ops then
      do t <- construct num funcs (tree_fuel node) node;
      Ok {| ea_disc := ea_disc acc; ea_num := ea_num acc ++ [t]; ea_cond := ea_cond acc; ea_univ := ea_univ acc |}
    else Err ESyntax.

  Definition parse_effects (sg : signature) (e : sexp) : result effacc :=
    do h <- head_of e;
    if negb (String.eqb h "and") then Err ESyntax
    else match e with
         | SList (_ :: nodes) => foldM (parse_effect_node sg) nodes {| ea_disc := []; ea_num := []; ea_cond := []; ea_univ := [] |}
         | _ => Err EType
         end.
End Effects.

(* ---------- domain_parser.parse_action / parse_preconditions ---------- *)
Section Actions.
  Variable num : numparser.
  Variable tt : typetable.
  Variable consts : pydict string.
  Variable preds : pydict signature.
  Variable funcs : pydict signature.

  Definition empty_pre : mpre := MPre "and" [] [] [].

  Definition parse_preconditions (sg : signature) (e : sexp) : result mpre :=
    match e with
    | SList [] => Ok empty_pre
    | SList (hd :: args) =>
        match hd with
        | Atom "and" => parse_pre num tt consts preds funcs (S (size e)) sg empty_pre args
        | _ =>
            if Nat.ltb 1 (List.length args) then Err ESyntax
            else parse_pre num tt consts preds funcs (S (S (size e))) sg empty_pre [e]
        end
    | Atom _ => Err ESyntax   (* a bare token as the body: rejected (the library indexes its characters) *)
    end.

  (* sections in any order; ':parameters' must come before the bodies that use it *)
  Fixpoint parse_sections (fuel : nat) (items : list sexp) (a : maction) : result maction :=
    match fuel with
    | 0 => Err EFuel
    | S fu =>
        match items with
        | [] => Ok a
        | Atom ":parameters" :: SList ps :: rest =>
            do sg <- parse_signature tt ps;
            parse_sections fu rest {| ma_name := ma_name a; ma_sig := sg; ma_pre := ma_pre a; ma_disc := ma_disc a;
                                      ma_num := ma_num a; ma_cond := ma_cond a; ma_univ := ma_univ a |}
        | Atom ":parameters" :: _ => Err EType
        | Atom ":precondition" :: body :: rest =>
            do p <- parse_preconditions (ma_sig a) body;
            parse_sections fu rest {| ma_name := ma_name a; ma_sig := ma_sig a; ma_pre := p; ma_disc := ma_disc a;
                                      ma_num := ma_num a; ma_cond := ma_cond a; ma_univ := ma_univ a |}
        | Atom ":effect" :: body :: rest =>
            do ef <- parse_effects num tt consts preds funcs (ma_sig a) body;
            parse_sections fu rest {| ma_name := ma_name a; ma_sig := ma_sig a; ma_pre := ma_pre a; ma_disc := ea_disc ef;
                                      ma_num := ea_num ef; ma_cond := ea_cond ef; ma_univ := ea_univ ef |}
        | _ :: rest => parse_sections fu rest a
        end
    end.

  Definition parse_action (e : list sexp) : result maction :=
    match e with
    | Atom n :: items =>
        if negb (Nat.eqb (List.length items) 6) then Err ESyntax
        else parse_sections 7 items {| ma_name := lower_string n; ma_sig := []; ma_pre := empty_pre; ma_disc := [];
                                       ma_num := []; ma_cond := []; ma_univ := [] |}
    | SList _ :: _ => Err EAttr
    | [] => Err EIndex
    end.
End Actions.

(* ---------- domain_parser.parse_domain ---------- *)
Definition empty_domain : mdomain :=
  {| d_name := ""; d_reqs := []; d_types := []; d_consts := []; d_preds := []; d_funcs := []; d_actions := [] |}.

Definition parse_domain_section (num : numparser) (d : mdomain) (e : sexp) : result mdomain :=
  match e with
  | SList (Atom h :: body) =>
      if String.eqb h "domain" then
        match body with
        | Atom n :: _ => Ok {| d_name := n; d_reqs := d_reqs d; d_types := d_types d; d_consts := d_consts d;
                               d_preds := d_preds d; d_funcs := d_funcs d; d_actions := d_actions d |}
        | _ => Err EIndex
        end
      else if String.eqb h ":requirements" then
        do rs <- atoms_of body;
        Ok {| d_name := d_name d; d_reqs := rs; d_types := d_types d; d_consts := d_consts d;
              d_preds := d_preds d; d_funcs := d_funcs d; d_actions := d_actions d |}
      else if String.eqb h ":types" then
        do tyt <- parse_types body;
        Ok {| d_name := d_name d; d_reqs := d_reqs d; d_types := tyt; d_consts := d_consts d;
              d_preds := d_preds d; d_funcs := d_funcs d; d_actions := d_actions d |}
      else if String.eqb h ":constants" then
        do cs <- parse_constants (d_types d) body;
        Ok {| d_name := d_name d; d_reqs := d_reqs d; d_types := d_types d; d_consts := cs;
              d_preds := d_preds d; d_funcs := d_funcs d; d_actions := d_actions d |}
      else if String.eqb h ":predicates" then
        do ps <- parse_predicates (d_types d) body [];
        Ok {| d_name := d_name d; d_reqs := d_reqs d; d_types := d_types d; d_consts := d_consts d;
              d_preds := ps; d_funcs := d_funcs d; d_actions := d_actions d |}
      else if String.eqb h ":functions" then
        do fs <- foldM (fun acc f => do ns <- parse_function (d_types d) f; Ok (dset acc (fst ns) (snd ns))) body [];
        Ok {| d_name := d_name d; d_reqs := d_reqs d; d_types := d_types d; d_consts := d_consts d;
              d_preds := d_preds d; d_funcs := fs; d_actions := d_actions d |}
      else if String.eqb h ":action" then
        do a <- parse_action num (d_types d) (d_consts d) (d_preds d) (d_funcs d) body;
        Ok {| d_name := d_name d; d_reqs := d_reqs d; d_types := d_types d; d_consts := d_consts d;
              d_preds := d_preds d; d_funcs := d_funcs d; d_actions := dset (d_actions d) (ma_name a) a |}
      else Ok d
  | SList (SList _ :: _) => Ok d                       (* expression[0] is a list: equal to no section name *)
  | SList [] => Err EIndex
  | Atom _ => Ok d                                      (* a bare token at section level: its first character matches nothing *)
  end.

Definition parse_domain (num : numparser) (e : sexp) : result mdomain :=
  match e with
  | SList (Atom "define" :: sections) => foldM (parse_domain_section num) sections empty_domain
  | SList (_ :: _) => Err ESyntax
  | SList [] => Err EIndex
  | Atom _ => Err ESyntax
  end.
