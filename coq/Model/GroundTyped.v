(* Model of what an Operator REPORTS after Operator.ground(): models/{grounding_utils,grounded_precondition,
   grounded_effect,pddl_operator,pddl_predicate,pddl_function}.py, the parts Model/Exec.v leaves out:
     - the typed form of a grounded literal (fix_grounded_predicate_types; GroundedPredicate.__str__),
     - the iteration over the grounded preconditions (Precondition.__iter__: nested conditions are flattened in place;
       a quantified condition is stored LIFTED, so the iteration yields its body's lifted literals and expressions),
     - the name-keyed signature of a grounded PDDLFunction (a dict keyed by OBJECT name: repeated objects collapse, D07),
     - Operator.typed_action_call and Operator.__str__.
   Python sets are lists in schema order here; the correspondence compares them as sets.  Definitions only. *)
From Coq Require Import List Ascii String Bool Arith PrimFloat.
From Verif Require Import Base.Result Base.Str Base.PyDict Model.Types Model.Domain Model.Exec Spec.Pddl.
Import ListNotations.
Open Scope string_scope.
Open Scope list_scope.

Infix "+++" := String.append (at level 60, right associativity).

(* a reported literal: a GroundedPredicate ([rl_grounded]) or, inside a quantifier, the lifted Predicate itself *)
Record rlit := {
  rl_grounded : bool;
  rl_pos : bool;
  rl_name : string;
  rl_args : list string;          (* object_mapping.values() / signature.keys() *)
  rl_types : list string          (* the type names in signature.values() *)
}.

Inductive ritem := RL (l : rlit) | RN (t : gtree).
Definition eqpair := (bool * string * string)%type.          (* (is_equality, a, b) *)

Record rgroup := {
  rg_ante : option (list ritem * list eqpair);
  rg_disc : list rlit;
  rg_num : list gtree
}.

Record report := {
  rp_items : list ritem;          (* iteration over op.grounded_preconditions *)
  rp_eqs : list eqpair;           (* (in)equality sets of the root and of the nested grounded conditions *)
  rp_groups : list rgroup         (* op.grounded_effects: the unconditional group, then one per 'when' *)
}.

Definition items_lits (l : list ritem) : list rlit := flat_map (fun i => match i with RL x => [x] | RN _ => [] end) l.
Definition items_nums (l : list ritem) : list gtree := flat_map (fun i => match i with RL _ => [] | RN t => [t] end) l.

(* dict keys after inserting the names one by one: first occurrences, in order *)
Definition key_collapse (l : list string) : list string :=
  dkeys (fold_left (fun d x => dset d x tt) l ([] : pydict unit)).

Section Report.
  Variable dom : mdomain.

  (* fix_grounded_predicate_types / parse_untyped_predicate: a constant carries its own type, anything else the type
     it has in the (extended) action signature *)
  Definition name_type (sg : signature) (t : string) : result string :=
    match dget (d_consts dom) t with
    | Some ty => Ok ty
    | None => match dget sg t with Some ty => Ok ty | None => Err EKey end
    end.

  Definition report_lit (sg : signature) (pm : pmap) (pos : bool) (p : string) (args : list string) : result rlit :=
    do a <- ground_lit dom pm p args;
    do tys <- mapM (name_type sg) args;
    Ok {| rl_grounded := true; rl_pos := pos; rl_name := p; rl_args := snd a; rl_types := tys |}.

  Definition lifted_lit (sg : signature) (pos : bool) (p : string) (args : list string) : result rlit :=
    do tys <- mapM (name_type sg) args;
    Ok {| rl_grounded := false; rl_pos := pos; rl_name := p; rl_args := args; rl_types := tys |}.

  (* _iterate_calc_tree_and_ground: the grounded function's signature is a dict keyed by the grounded names *)
  Fixpoint report_tree (pm : pmap) (t : mtree) : result gtree :=
    match t with
    | TNum x => Ok (GTNum x)
    | TFn f args => do os <- mapM (ground_name dom pm) args; Ok (GTFn (f, key_collapse os))
    | TNode op l r => do gl <- report_tree pm l; do gr <- report_tree pm r; Ok (GTNode op gl gr)
    end.

  (* a lifted function application keeps its parameter names (the domain parser rejects repeated ones) *)
  Fixpoint lifted_tree (t : mtree) : gtree :=
    match t with
    | TNum x => GTNum x
    | TFn f args => GTFn (f, args)
    | TNode op l r => GTNode op (lifted_tree l) (lifted_tree r)
    end.

  (* what iterating over a lifted (quantified) condition yields *)
  Fixpoint lifted_items (sg : signature) (p : mpre) : result (list ritem) :=
    match p with
    | MPre _ os _ _ =>
        (fix go (l : list mcond) : result (list ritem) :=
           match l with
           | [] => Ok []
           | c :: r => do x <- lifted_cond_items sg c; do y <- go r; Ok (x ++ y)
           end) os
    end
  with lifted_cond_items (sg : signature) (c : mcond) : result (list ritem) :=
    match c with
    | MLit pos p args => do l <- lifted_lit sg pos p args; Ok [RL l]
    | MNum t => Ok [RN (lifted_tree t)]
    | MNested q => lifted_items sg q
    | MUniv v ty body => lifted_items (dset sg v ty) body
    end.

  Definition tag_pairs (iseq : bool) (l : list (string * string)) : list eqpair :=
    map (fun ab => (iseq, fst ab, snd ab)) l.

  (* GroundedPrecondition.ground_preconditions followed by iteration; the (in)equality pairs separately *)
  Fixpoint report_pre (sg : signature) (pm : pmap) (p : mpre) : result (list ritem * list eqpair) :=
    match p with
    | MPre _ os eqs neqs =>
        do geqs <- ground_pairs pm eqs;
        do gneqs <- ground_pairs pm neqs;
        do rest <- (fix go (l : list mcond) : result (list ritem * list eqpair) :=
                      match l with
                      | [] => Ok ([], [])
                      | c :: r => do x <- report_cond sg pm c; do y <- go r; Ok (fst x ++ fst y, snd x ++ snd y)
                      end) os;
        Ok (fst rest, tag_pairs true geqs ++ tag_pairs false gneqs ++ snd rest)
    end
  with report_cond (sg : signature) (pm : pmap) (c : mcond) : result (list ritem * list eqpair) :=
    match c with
    | MLit pos p args => do l <- report_lit sg pm pos p args; Ok ([RL l], [])
    | MNum t => do g <- report_tree pm t; Ok ([RN g], [])
    | MNested q => report_pre sg pm q
    | MUniv v ty body => do its <- lifted_items (dset sg v ty) body; Ok (its, [])
    end.

  Definition report_group (sg : signature) (pm : pmap) (ante : option mpre) (disc : list mlit) (nums : list mtree)
    : result rgroup :=
    do ra <- match ante with None => Ok None | Some a => do r <- report_pre sg pm a; Ok (Some r) end;
    do rd <- mapM (fun l => report_lit sg pm (l_pos l) (l_name l) (l_args l)) disc;
    do rn <- mapM (report_tree pm) nums;
    Ok {| rg_ante := ra; rg_disc := rd; rg_num := rn |}.

  Definition report_action (a : maction) (args : list string) : result report :=
    let pm := combine (dkeys (ma_sig a)) args in
    do rp <- report_pre (ma_sig a) pm (ma_pre a);
    do g0 <- report_group (ma_sig a) pm None (ma_disc a) (ma_num a);
    do gs <- mapM (fun ce => report_group (ma_sig a) pm (Some (ce_ante ce)) (ce_disc ce) (ce_num ce)) (ma_cond a);
    Ok {| rp_items := fst rp; rp_eqs := snd rp; rp_groups := g0 :: gs |}.

  (* ---------- text ---------- *)
  Definition wrap_not (neg : bool) (s : string) : string := if neg then "(not " +++ s +++ ")" else s.

  (* untyped_representation (both classes print the negation) *)
  Definition untyped_text (l : rlit) : string :=
    wrap_not (negb (rl_pos l)) ("(" +++ rl_name l +++ " " +++ join " " (rl_args l) +++ ")").

  (* __str__: GroundedPredicate prints the negation, the lifted Predicate does not *)
  Definition typed_text (l : rlit) : string :=
    let body := "(" +++ rl_name l +++ " " +++
                join " " (map (fun at_ => fst at_ +++ " - " +++ snd at_) (combine (rl_args l) (rl_types l))) +++ ")" in
    if rl_grounded l then wrap_not (negb (rl_pos l)) body else body.

  (* Operator.typed_action_call: with problem objects every argument is looked up among the objects, then among the
     domain constants; without, the arguments are zipped with the action's parameter types *)
  Definition typed_call (a : maction) (args : list string) (objs : option objects) : result string :=
    do items <-
      match objs with
      | Some os =>
          mapM (fun x => match dget os x with
                         | Some ty => Ok (x +++ " - " +++ ty)
                         | None => match dget (d_consts dom) x with
                                   | Some ty => Ok (x +++ " - " +++ ty)
                                   | None => Err EKey
                                   end
                         end) args
      | None => Ok (map (fun xt => fst xt +++ " - " +++ snd xt) (combine args (dvalues (ma_sig a))))
      end;
    Ok ("(" +++ ma_name a +++ " " +++ join " " items +++ ")").

  Definition call_text (a : maction) (args : list string) : string :=
    "(" +++ ma_name a +++ " " +++ join " " args +++ ")".
End Report.
