(* Model of the domain exporter, up to text layout:
     exporters/domain_exporter.py   DomainExporter.extract_domain / write_action / write_types / write_constants
     models/pddl_action.py          Action.effects_to_pddl
     models/pddl_precondition.py    Precondition._print_self(should_simplify=False), UniversalPrecondition.print
     models/conditional_effect.py   ConditionalEffect.__str__, UniversalEffect.__str__
     models/numerical_expression.py NumericalExpressionTree.to_pddl (numerals: Model.NumExpr.num_text)
     models/pddl_predicate.py / pddl_function.py   __str__, untyped_representation
   on the tree after the repairs D80 (the antecedent of a 'when' is printed without sympy simplification),
   D81 (a universal precondition is skipped only when its body is completely empty) and D82 (a constant named
   'object' is exported like any other).

   [export_domain dpre deff m] is the TOKEN TREE of the text the exporter writes (what PDDLTokenizer reads back
   from it); the text layout itself (blanks, tabs, newlines, the missing blank between the last operand and the
   first (in)equality) is not modelled: the implementation's text is read by Model.Tokenizer on every run of the
   check and compared with this tree.

   Sets are lists in iteration order: the operands of a condition, its (in)equality pairs, the discrete /
   numeric / conditional / universal effects are printed in the order of the lists of the object model; a
   different iteration order of the Python sets is a different list (Proofs/C08_*: every theorem holds for every
   order).  The library additionally sorts the printed operands of one condition (literals, then numeric
   conditions, then nested conditions, each group sorted as text, duplicates of numeric conditions removed) and
   the discrete effects; that order depends on the text layout and is one of the orders quantified over.
   Dicts (types, constants, predicates, functions, actions, signatures) are printed in insertion order.

   dpre = pddl_precondition.DEFAULT_DECIMAL_DIGITS (conditions, antecedents of 'when' included),
   deff = numerical_expression.DEFAULT_DIGITS (numeric effects); both are read from the modules on every run.
   Definitions only. *)
From Coq Require Import List Ascii String Bool Arith PrimFloat.
From Verif Require Import Base.Result Base.Str Base.Sexp Base.PyDict Base.Float
  Model.Types Model.Domain Model.NumExpr.
Import ListNotations.
Open Scope string_scope.
Open Scope list_scope.

(* ---------- typed lists ---------- *)
(* "{name} - {type}" for every entry of a signature (Predicate.__str__, PDDLFunction.__str__, write_action) *)
Definition sig_tokens (sg : signature) : list sexp :=
  flat_map (fun pt => [Atom (fst pt); Atom "-"; Atom (snd pt)]) sg.

Definition export_decl (n : string) (sg : signature) : sexp := SList (Atom n :: sig_tokens sg).

(* write_types / write_constants: defaultdict(list) keyed by the parent (type) name, in order of first use *)
Fixpoint group_add (g : list (string * list string)) (key member : string) : list (string * list string) :=
  match g with
  | [] => [(key, [member])]
  | (k, ms) :: r => if String.eqb key k then (k, ms ++ [member]) :: r else (k, ms) :: group_add r key member
  end.

Definition group_by_value (d : pydict string) : list (string * list string) :=
  fold_left (fun g kv => group_add g (snd kv) (fst kv)) d [].

(* "c1 c2 - parent" per group *)
Definition group_tokens (g : list (string * list string)) : list sexp :=
  flat_map (fun km => map Atom (snd km) ++ [Atom "-"; Atom (fst km)]) g.

(* ---------- numeric expressions: NumericalExpressionTree._convert_to_pddl ---------- *)
Fixpoint export_tree (digits : nat) (t : mtree) : sexp :=
  match t with
  | TNum x => Atom (num_text digits x)
  | TFn f args => SList (Atom f :: map Atom args)
  | TNode op l r => SList [Atom op; export_tree digits l; export_tree digits r]
  end.

(* ---------- literals: Predicate.untyped_representation ---------- *)
Definition export_lit (pos : bool) (p : string) (args : list string) : sexp :=
  let a := SList (Atom p :: map Atom args) in
  if pos then a else SList [Atom "not"; a].

Definition export_mlit (l : mlit) : sexp := export_lit (l_pos l) (l_name l) (l_args l).

Definition export_eq (ab : string * string) : sexp := SList [Atom "="; Atom (fst ab); Atom (snd ab)].
Definition export_neq (ab : string * string) : sexp := SList [Atom "not"; export_eq ab].

(* ---------- conditions: Precondition._print_self, UniversalPrecondition.print ---------- *)
(* a universal condition whose body has no operand and no (in)equality pair prints as the empty string *)
Definition vacuous_body (q : mpre) : bool :=
  match q with MPre _ [] [] [] => true | _ => false end.

Fixpoint export_pre (digits : nat) (p : mpre) : sexp :=
  match p with
  | MPre op os eqs neqs =>
      SList (Atom op ::
             (fix go (l : list mcond) : list sexp :=
                match l with [] => [] | c :: r => export_cond digits c ++ go r end) os
             ++ map export_eq eqs ++ map export_neq neqs)
  end
with export_cond (digits : nat) (c : mcond) : list sexp :=
  match c with
  | MLit pos p args => [export_lit pos p args]
  | MNum t => [export_tree digits t]
  | MNested q => [export_pre digits q]
  | MUniv v ty q =>
      if vacuous_body q then []
      else [SList [Atom "forall"; SList [Atom v; Atom "-"; Atom ty]; export_pre digits q]]
  end.

(* ---------- effects: ConditionalEffect.__str__, UniversalEffect.__str__, Action.effects_to_pddl ---------- *)
Definition export_condeff (dpre deff : nat) (ce : mcondeff) : sexp :=
  SList [Atom "when"; export_pre dpre (ce_ante ce);
         SList (Atom "and" :: map export_mlit (ce_disc ce) ++ map (export_tree deff) (ce_num ce))].

Definition export_univeff (dpre deff : nat) (ue : muniveff) : sexp :=
  SList [Atom "forall"; SList [Atom (ue_var ue); Atom "-"; Atom (ue_ty ue)]; export_condeff dpre deff (ue_ce ue)].

Definition export_effects (dpre deff : nat) (a : maction) : sexp :=
  SList (Atom "and" :: map export_mlit (ma_disc a)
                    ++ map (export_condeff dpre deff) (ma_cond a)
                    ++ map (export_univeff dpre deff) (ma_univ a)
                    ++ map (export_tree deff) (ma_num a)).

(* ---------- DomainExporter.write_action ---------- *)
Definition export_action (dpre deff : nat) (a : maction) : sexp :=
  SList [Atom ":action"; Atom (ma_name a);
         Atom ":parameters"; SList (sig_tokens (ma_sig a));
         Atom ":precondition"; export_pre dpre (ma_pre a);
         Atom ":effect"; export_effects dpre deff a].

(* ---------- DomainExporter.extract_domain ---------- *)
Definition nonempty_dict {V} (d : pydict V) : bool := match d with [] => false | _ => true end.

Definition export_domain (dpre deff : nat) (m : mdomain) : sexp :=
  SList ([Atom "define";
          SList [Atom "domain"; Atom (d_name m)];
          SList (Atom ":requirements" :: map Atom (d_reqs m));
          SList (Atom ":types" :: group_tokens (group_by_value (d_types m)));
          SList (Atom ":predicates" :: map (fun ns => export_decl (fst ns) (snd ns)) (d_preds m))]
         ++ (if nonempty_dict (d_consts m)
             then [SList (Atom ":constants" :: group_tokens (group_by_value (d_consts m)))] else [])
         ++ (if nonempty_dict (d_funcs m)
             then [SList (Atom ":functions" :: map (fun ns => export_decl (fst ns) (snd ns)) (d_funcs m))] else [])
         ++ map (fun na => export_action dpre deff (snd na)) (d_actions m)).
