(* Structured model of MultiAgentDomainsConverter.locate_domains on the object model of Model/Domain.v:
   the per-agent files are parsed by the MODEL's domain parser and combined by the same fold of dict updates
   as in Model/Combine.v (which works on vocabulary dumps).  Definitions only.
   Proofs/C17_Structured.v shows that the rows of this combination are the dump-level combination of the
   files' rows, so every theorem of Props/C17.v about [combine_domains] speaks about [combine_mdomains] too;
   the export / re-parse theorem of C08 (Model/DomainExporter.v) applies to it directly. *)
From Coq Require Import List String Bool.
From Verif Require Import Base.Result Base.Str Base.Sexp Base.PyDict Model.Tokenizer Model.Types Model.Domain.
Import ListNotations.
Open Scope string_scope.
Open Scope list_scope.

(* body of the loop of locate_domains; Domain() has no type besides `object`, which the type table of
   Model/Domain.v leaves implicit *)
Definition merge_mdomain (c a : mdomain) : mdomain :=
  {| d_name := d_name a;                                  (* last file wins *)
     d_reqs := d_reqs a;                                  (* last file wins *)
     d_types := dupdate (d_types c) (d_types a);
     d_consts := dupdate (d_consts c) (d_consts a);
     d_preds := dupdate (d_preds c) (d_preds a);
     d_funcs := dupdate (d_funcs c) (d_funcs a);
     d_actions := dupdate (d_actions c) (d_actions a) |}.

Definition combine_mdomains (files : list mdomain) : mdomain := fold_left merge_mdomain files empty_domain.

Definition M_DUMMY_PRED := "dummy-additional-predicate".
Definition M_DUMMY_ADD := "dummy-add-predicate-action".
Definition M_DUMMY_DEL := "dummy-del-predicate-action".

(* Action() starts with an empty conjunction; the dummy actions have one parameter of type object and one effect *)
Definition dummy_action (name : string) (positive : bool) : maction :=
  {| ma_name := name; ma_sig := [("?agent", "object")]; ma_pre := MPre "and" [] [] [];
     ma_disc := [{| l_pos := positive; l_name := M_DUMMY_PRED; l_args := [] |}];
     ma_num := []; ma_cond := []; ma_univ := [] |}.

Definition add_dummy_m (c : mdomain) : mdomain :=
  {| d_name := d_name c; d_reqs := d_reqs c; d_types := d_types c; d_consts := d_consts c;
     d_preds := dset (d_preds c) M_DUMMY_PRED [];
     d_funcs := d_funcs c;
     d_actions := dset (dset (d_actions c) M_DUMMY_ADD (dummy_action M_DUMMY_ADD true))
                       M_DUMMY_DEL (dummy_action M_DUMMY_DEL false) |}.

Definition locate_mdomains (dummy : bool) (files : list mdomain) : mdomain :=
  let c := combine_mdomains files in if dummy then add_dummy_m c else c.

(* from the texts: a file that does not parse makes the call raise *)
Definition parse_file (num : numparser) (t : text) : result mdomain :=
  do e <- parse MFile t; parse_domain num e.

Definition locate_from_texts (num : numparser) (dummy : bool) (texts : list text) : result mdomain :=
  do fs <- mapM (parse_file num) texts; Ok (locate_mdomains dummy fs).
