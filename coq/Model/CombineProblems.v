(* Structured model of MultiAgentProblemsConverter.combine_problems on the object model of Model/Problem.v: the
   per-agent problem files are parsed by the MODEL's problem parser (against the combined domain) and combined by the
   loop body of multi_agent_problem_converter.py:31-78.  Definitions only.  (Model/Combine.v is the same fold on
   vocabulary dumps; Corr/C17p.v runs this one against the implementation, exports the result with
   Model/ProblemExporter.v and parses it again.) *)
From Coq Require Import List String Bool PrimFloat.
From Verif Require Import Base.Result Base.Str Base.Sexp Base.PyDict Model.Types Model.Domain Model.NumExpr
  Model.Problem Model.ProblemObs Spec.Pddl Spec.Problem.
Import ListNotations.
Open Scope string_scope.
Open Scope list_scope.

(* lines 42-59: the groundings already known under the predicate are read once, before the inner loop (reading the
   defaultdict creates the key); a grounding whose untyped text is among them is skipped *)
Definition merge_fact_key (c : pydict (list (list string))) (kv : string * list (list string))
  : pydict (list (list string)) :=
  let existing := match dget c (fst kv) with Some l => l | None => [] end in
  dset c (fst kv) (existing ++ filter (fun a => negb (existsb (strs_eqb a) existing)) (snd kv)).

(* list(set(goals)): equal goal literals once (the order of that set is not modelled: compared as a set) *)
Definition atom_in_b (a : string * list string) (l : list (string * list string)) : bool :=
  existsb (fun b => String.eqb (fst a) (fst b) && strs_eqb (snd a) (snd b)) l.
Definition add_goal (acc : list (string * list string)) (a : string * list string) :=
  if atom_in_b a acc then acc else acc ++ [a].

(* numeric goals: known by their exact text (to_mathematical): same tree, same constants *)
Definition same_goal_tree (a b : ntree) : bool := gtree_eqb (dump_tree a) (dump_tree b).
Definition add_goal_num (acc : list ntree) (t : ntree) : list ntree :=
  if existsb (same_goal_tree t) acc then acc else acc ++ [t].

Definition merge_mproblem (c a : mproblem) : mproblem :=
  {| pb_name := pb_name a;                                                  (* last file wins *)
     pb_objects := dupdate (pb_objects c) (pb_objects a);
     pb_facts := fold_left merge_fact_key (pb_facts a) (pb_facts c);
     pb_fluents := fold_left (fun acc kf => kset acc (fst kf) (snd kf)) (pb_fluents a) (pb_fluents c);
     pb_goal := fold_left add_goal (pb_goal c ++ pb_goal a) [];
     pb_goal_num := fold_left add_goal_num (pb_goal_num a) (pb_goal_num c) |}.

Definition combine_mproblems (files : list mproblem) : mproblem := fold_left merge_mproblem files empty_problem.
