(* Model of the places of the problem / trajectory parsers that CHECK types (property C06):
     lisp_parsers/problem_parser.py   _validate_object_types, parse_grounded_predicate, parse_grounded_numeric_fluent
     lisp_parsers/trajectory_parser.py parse_grounded_predicate, parse_grounded_numeric_fluent (with a problem)
   A fact / fluent is given as its name and argument names; objects and constants are name -> type-name dicts
   ({**objects, **constants}: a constant shadows an object of the same name).  Definitions only. *)
From Coq Require Import List String Bool Arith.
From Verif Require Import Base.Result Base.Str Base.Sexp Base.PyDict Model.Types Model.Domain.
Import ListNotations.
Open Scope string_scope.
Open Scope list_scope.

Section Sites.
  Variable dom : mdomain.
  Variable objs : pydict string.                               (* problem objects: name -> type name *)

  Definition possible_objects : pydict string := dupdate objs (d_consts dom).

  Definition type_of_name (n : string) : result string :=
    match dget possible_objects n with Some t => Ok t | None => Err EKey end.

  Definition all_subtypes (tys required : list string) : bool :=
    forallb (fun tr => is_sub_type (d_types dom) (fst tr) (snd tr)) (combine tys required).

  (* ProblemParser.parse_grounded_predicate: arity, then _validate_object_types (positional, asserts) *)
  Definition problem_fact (p : string) (args : list string) : result unit :=
    match dget (d_preds dom) p with
    | None => Err EValue                                       (* 'illegal state component' *)
    | Some sg =>
        if negb (Nat.eqb (List.length args) (List.length sg)) then Err EValue
        else do tys <- mapM type_of_name args;
             if all_subtypes tys (dvalues sg) then Ok tt else Err EAssert
    end.

  (* ProblemParser.parse_grounded_numeric_fluent (after the repair D19c): arity, every name known, then each
     argument's type against the parameter at the same POSITION *)
  Definition problem_fluent (f : string) (args : list string) : result unit :=
    match dget (d_funcs dom) f with
    | None => Err EAssert
    | Some sg =>
        if negb (Nat.eqb (List.length args) (List.length sg)) then Err EValue
        else do tys <- mapM type_of_name args;
             if all_subtypes tys (dvalues sg) then Ok tt else Err EAssert
    end.

  (* TrajectoryParser (constructed with a problem), parse_grounded_numeric_fluent, after the repair D31 (3c74fae): arity,
     every name known, then argument i against parameter i - as ProblemParser does since D19c *)
  Definition trajectory_fluent (f : string) (args : list string) : result unit :=
    match dget (d_funcs dom) f with
    | None => Err EAssert
    | Some sg =>
        if negb (Nat.eqb (List.length args) (List.length sg)) then Err EValue
        else do tys <- mapM type_of_name args;
             if all_subtypes tys (dvalues sg) then Ok tt else Err EAssert
    end.

  (* the same function BEFORE that repair, kept for the refutation theorem: the argument types were collected in a dict
     keyed by the object NAME (a repeated argument collapses) and zipped with the lifted signature *)
  Definition trajectory_fluent_before_D31 (f : string) (args : list string) : result unit :=
    match dget (d_funcs dom) f with
    | None => Err EAssert
    | Some sg =>
        if negb (Nat.eqb (List.length args) (List.length sg)) then Err EValue
        else do tys <- mapM type_of_name args;
             let by_name := fold_left (fun acc nt => dset acc (fst nt) (snd nt)) (combine args tys) [] in
             if all_subtypes (dvalues by_name) (dvalues sg) then Ok tt else Err EAssert
    end.

  (* TrajectoryParser.parse_grounded_predicate: facts are NOT type-checked (only arity and that the names exist) *)
  Definition trajectory_fact (p : string) (args : list string) : result unit :=
    match dget (d_preds dom) p with
    | None => Err EValue
    | Some sg =>
        if negb (Nat.eqb (List.length args) (List.length sg)) then Err EValue
        else do _tys <- mapM type_of_name args; Ok tt
    end.
End Sites.

(* The objects an Operator's quantified conditions and effects range over: Operator.quantification_objects
   (pddl_operator.py, after the repair of D30) = {**domain.constants, **problem_objects} - the domain's constants
   first, then the problem's objects (an object named like a constant overrides it, keeping the constant's position).
   The library's pipeline (exporters/numeric_trajectory_exporter.py parse_plan -> create_single_triplet(...,
   problem.objects); multi_agent_trajectory_exporter likewise) hands the problem's objects to Operator.
   Before the repair the table was [objs] alone: quantifiers never ranged over a constant (finding D30, fixed). *)
Definition pipeline_objects (dom : mdomain) (objs : pydict string) : pydict string := dupdate (d_consts dom) objs.
(* the pinned behaviour, kept for the refutation theorem *)
Definition pipeline_objects_before_D30 (dom : mdomain) (objs : pydict string) : pydict string := objs.

(* ---------- a corner of DomainParser.parse_types where Model/Types.collect_decls differs from the code ----------
   '(:types - (x))': a LIST right after a dash while no name is pending.  Python reads parent_name = the list, assigns it to
   nobody and goes on: the section is ACCEPTED (the list is dropped).  Model/Types.collect_decls answers Err EType there
   (the shared definition cannot change: Proofs/C01_Typed.collect_decls_spec states 'accepted -> every token is an atom',
   see requests/C06.md).  This local copy has the corrected branch; the C06 check compares the raw shapes with IT.
   With pending names the list becomes a dict VALUE and 'parent_name not in declared_parents' raises TypeError
   (unless a later line re-declares every such child - '(:types a - (x) a - b)' - a shape neither copy describes). *)
Fixpoint collect_decls_code (toks : list sexp) (same : list string) (d : typetable)
  : result (typetable * list string) :=
  match toks with
  | [] => Ok (d, same)
  | SList _ :: _ => Err EType
  | Atom t :: rest =>
      if String.eqb t "-" then
        match rest with
        | [] => Err EIndex
        | SList _ :: rest' => match same with [] => collect_decls_code rest' [] d | _ => Err EType end
        | Atom p :: rest' =>
            collect_decls_code rest' [] (fold_left (fun acc c => dset acc c p) same d)
        end
      else collect_decls_code rest (same ++ [t]) d
  end.

Definition parse_types_code (toks : list sexp) : result typetable :=
  match collect_decls_code toks [] [] with
  | Err k => Err k
  | Ok (d, trailing) =>
      let d1 := fold_left (fun acc c => dset acc c "object") trailing d in
      let d2 := add_parent_only d1 in
      let d3 := filter (fun kv => negb (String.eqb (fst kv) "object")) d2 in
      if forallb (fun kv => reaches_object d3 (fst kv)) d3 then Ok d3 else Err ESyntax
  end.
